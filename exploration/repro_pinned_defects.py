import sys, os, struct, io, signal, tempfile, subprocess
sys.path.insert(0, '/repo')
from a816.program import Program
from tests import StubWriter

def asm(src, **kw):
    p = Program()
    w = StubWriter()
    err = p.assemble_string_with_emitter(src, "t.s", w)
    return err, list(zip(w.data_addresses, [d.hex() for d in w.data])), p

def trial(name, f):
    def h(*a): raise TimeoutError("hang")
    signal.signal(signal.SIGALRM, h); signal.alarm(3)
    try:
        r = f()
        print(name, '->', r)
    except BaseException as e:
        print(name, '-> EXC', type(e).__name__, e)
    finally:
        signal.alarm(0)

trial('C01.R1 ora.w #0x1234', lambda: asm("ora.w #0x1234")[:2])
trial('C01.R3 jmp.l 0x1234567', lambda: asm("jmp.l 0x1234567")[:2])
trial('C01.R5c lda (0x10,x),y', lambda: asm("lda (0x10,x),y")[:2])
trial('C01.R5c lda (0x10,s),y', lambda: asm("lda (0x10,s),y")[:2])
trial('C01 lda (0x10,x)', lambda: asm("lda (0x10,x)")[:2])
trial('C02.R4', lambda: asm("*=0x008000\nx:=5\n{\nlda x\n.db 0\nx:\n}\nafter:\n.dl after\n")[:2])
trial('C05.R3', lambda: asm("*=0x008000\nl:\n@=0x7e0000\nbra l\n")[:2])
trial('C06.R2 ~~1', lambda: asm("lda.b #~~1")[:2])
trial('C06.R2 ~-1', lambda: asm("lda.b #~-1")[:2])
trial('C09.R1', lambda: asm(".macro m(a,b){\n.db a\n.db b\n}\na:=7\nm(1,a)\n")[:2])
trial('C09.R1 deferred', lambda: asm(".macro m(a,b){\n.db a\n.dl b\n}\nm(1,a)\na:\n")[:2])
def ips():
    from a816.writers import IPSWriter
    f = io.BytesIO(); w = IPSWriter(f); w.begin(); w.write_block(b"ab", 0x454F46); w.end(); return f.getvalue()
trial('C11.R4', ips)
def cli(args, src):
    d = tempfile.mkdtemp()
    open(d+'/a.s','w').write(src)
    r = subprocess.run([sys.executable, '-m', 'a816.cli', d+'/a.s', '-o', d+'/out'] + args, cwd='/repo', capture_output=True, text=True)
    out = (lambda b: (len(b), b[-8:].hex()))(open(d+'/out','rb').read()) if os.path.exists(d+'/out') else None
    return r.returncode, out, r.stderr[-200:]
trial('C12.R1 sfc -m high', lambda: cli(['-f','sfc','-m','high'], "*=0xc00000\n.db 1\n"))
trial('C12.R2 low2', lambda: cli(['-m','low2'], "*=0x808000\n.db 1\n"))
trial('C12.R3 -D', lambda: cli(['-D','FOO=5'], "*=0x008000\n.db FOO\n"))
def incips():
    d = tempfile.mkdtemp()
    open(d+'/p.ips','wb').write(b"PATCH" + b"\x00\x00\x10" + b"\x00\x00" + b"\x00\x04\xaa" + b"\x00\x00\x20\x00\x01\x55" + b"EOF")
    return asm(f".include_ips '{d}/p.ips', 0x100\n")[:2]
trial('C13.R1', incips)
trial('C14 cli unknown sym', lambda: cli([], "lda unknown_sym\n"))
trial('C14 cli bad size', lambda: cli([], "lda.Q #1\n"))
trial('C15 /*', lambda: asm("/* x"))
def ev():
    from a816.parse.ast.expression import eval_expression_str
    from a816.symbols import Resolver
    return eval_expression_str("1 $", Resolver())
trial('C15 1 $', ev)
trial('C16 (0x10,X)', lambda: asm("lda (0x10,X)")[:2])
trial('C17 unterminated', lambda: asm("nop\n'abc\nnop\n")[:1])
