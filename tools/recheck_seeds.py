#!/usr/bin/env python3
"""tools/recheck_seeds.py [names...]: re-run every check against each archived seed (/verif/seeded/*/patch.diff applied to a throw-away copy of
/repo HEAD's a816/ and script/) and refresh checks_reporting / caught_by_own_property in its meta.json.  Does not touch /repo."""
import glob, json, os, shutil, subprocess, sys, tempfile
from concurrent.futures import ThreadPoolExecutor

only = sys.argv[1:]
def sh(cmd, cwd=None):
    r = subprocess.run(cmd, shell=True, cwd=cwd, capture_output=True, text=True)
    return r.returncode, r.stdout + r.stderr

head_src = tempfile.mkdtemp(prefix="a816clean-")
sh(f"git -C /repo archive HEAD a816 script | tar -x -C {head_src}")
head = sh("git -C /repo rev-parse --short HEAD")[1].strip()

def one(d):
    name = os.path.basename(d)
    t = tempfile.mkdtemp(prefix="a816seed-")
    shutil.copytree(f"{head_src}/a816", f"{t}/a816"); shutil.copytree(f"{head_src}/script", f"{t}/script")
    rc, out = sh(f"patch -s -p1 < {d}/patch.diff", cwd=t)
    if rc != 0:
        shutil.rmtree(t)
        return name, None
    rc, out = sh(f"./check all --repo {t}", cwd="/verif")
    shutil.rmtree(t)
    res, first = {}, {}
    lines = out.splitlines()
    for i, line in enumerate(lines):
        if line.startswith("VIOLATION"):
            p = line.split("property=")[1].split()[0]
            res[p] = "VIOLATION"
            j = i - 1
            while j >= 0 and (lines[j].startswith("VIOLATION") or lines[j].startswith("ANALYSIS-ERROR")):
                j -= 1
            first.setdefault(p, lines[j][:260] if j >= 0 else "")
        if line.startswith("ANALYSIS-ERROR"):
            res.setdefault(line.split("property=")[1].split()[0], "ANALYSIS-ERROR")
    return name, (res, first)

dirs = [d for d in sorted(glob.glob("/verif/seeded/*")) if os.path.isdir(d) and (not only or os.path.basename(d) in only)]
with ThreadPoolExecutor(max_workers=4) as ex:
    for name, res in ex.map(one, dirs):
        mp = f"/verif/seeded/{name}/meta.json"
        m = json.load(open(mp))
        if res is None:
            print(f"{name}: patch does not apply"); continue
        res, first = res
        prop = m["property"]
        m["checks_reporting"] = res
        m["first_report"] = first
        m["caught_by_own_property"] = res.get(prop) == "VIOLATION"
        m["checked_at_repo_head"] = head
        json.dump(m, open(mp, "w"), indent=1); open(mp, "a").write("\n")
        print(f"{name} own: {res.get(prop)} others: {sorted(k for k in res if k != prop)}")
shutil.rmtree(head_src)
