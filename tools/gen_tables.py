#!/usr/bin/env python3
"""Print the markdown tables embedded in DESIGN.md (seeded changes, neutral variants, rule inventory)."""
import glob, importlib, json, os, sys
HERE = os.path.dirname(os.path.dirname(os.path.abspath(__file__)))
sys.path.insert(0, HERE)
what = sys.argv[1]
if what == "seeds":
    print("| seed | what was changed (sub-agent's summary) | needs | own property | other properties reporting |")
    print("|---|---|---|---|---|")
    for d in sorted(glob.glob(f"{HERE}/seeded/*/meta.json")):
        m = json.load(open(d))
        own = m["checks_reporting"].get(m["property"], "-")
        first = (m.get("first_report") or {}).get(m["property"], "")
        rule = first.split(" ")[0] if first else ""
        others = ", ".join(sorted(p for p, v in m["checks_reporting"].items() if p != m["property"] and v == "VIOLATION")) or "-"
        print(f"| {os.path.basename(os.path.dirname(d))} | {(m.get('summary') or '')[:150].replace('|', '/')} | {(m.get('needs') or '')[:110].replace('|', '/')} | {own} {rule} | {others} |")
elif what == "neutral":
    print("| variant | kind | what was refactored | result |")
    print("|---|---|---|---|")
    for d in sorted(glob.glob(f"{HERE}/neutral/*/meta.json")):
        m = json.load(open(d))
        r = m["result"]
        res = "patch no longer applies at HEAD" if not r.get("applies") else ("FALSE ALARM " + ",".join(r["false_alarms"]) if r.get("false_alarms") else ("analysis-error " + ",".join(r["analysis_errors"]) if r.get("analysis_errors") else "silent (all 19 checks)"))
        print(f"| {os.path.basename(os.path.dirname(d))} | {m.get('kind')} | {(m.get('summary') or '')[:140].replace('|', '/')} | {res} |")
elif what == "rules":
    print("| property | level | rules (function names) | obligations on the current tree |")
    print("|---|---|---|---|")
    for n in range(1, 20):
        pid = f"C{n:02d}"
        mod = importlib.import_module(f"a816lint.rules.{pid.lower()}")
        ev = json.load(open(f"{HERE}/evidence/{pid}.json"))
        print(f"| {pid} | {mod.LEVEL} | {', '.join(r.__name__ for r in mod.RULES)} | {ev['coverage']['obligations']} |")
