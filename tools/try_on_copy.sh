#!/bin/sh
# tools/try_on_copy.sh <props comma separated|all> <patch.diff> : apply the patch to a throw-away copy of /tmp/clean_repo and run the checks there
P="$1"; D="$2"
[ -d /tmp/clean_repo/a816 ] || { mkdir -p /tmp/clean_repo && git -C /repo archive HEAD a816 script | tar -x -C /tmp/clean_repo; }
T=$(mktemp -d /tmp/a816copy.XXXXXX)
cp -r /tmp/clean_repo/a816 /tmp/clean_repo/script "$T"/
D=$(readlink -f "$D"); ( cd "$T" && patch -s -p1 < "$D" ) || { echo "patch failed"; rm -rf "$T"; exit 9; }
cd /verif
for p in $(echo "$P" | tr ',' ' '); do ./check "$p" --repo "$T" | grep -v "^VIOLATION" | cut -c1-260; done
rm -rf "$T"
