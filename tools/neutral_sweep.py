#!/usr/bin/env python3
"""tools/neutral_sweep.py [--max=N] [--seed=S] [--out=FILE] [--ops=a,b] [--files=x.py,y.py] [--notests]

Development aid (NOT one of the registered checks): hunt for false alarms mechanically.  Every sampled site of a816/ and
script/__init__.py is rewritten by ONE semantics-preserving AST transformation (the list is below; each is local, purely syntactic
and keeps evaluation order, exceptions and values), the module is written into a throw-away copy of /repo HEAD, the project's tests
are run there as a guard against a bug in this transformer (a variant the tests reject is dropped and logged), and `./check all` is run
on the copy.  A VIOLATION line on such a variant is a false alarm to triage; an ANALYSIS-ERROR is an undecided layout.

Operators
  swap-if        if c: A else: B            ->  if not c: B else: A
  guard          if c: A(ends in raise/return/continue/break) else: B   ->  if c: A; B
  unguard        if c: A(terminates); rest  ->  if c: A else: rest          (rest = the remaining statements of the block)
  flip-cmp       a OP b                     ->  b OP' a    for <, <=, >, >=, ==, != when both sides are free of calls
  split-and      if a and b: X  (no else)   ->  if a: if b: X
  hoist-return   return E                   ->  result_ = E; return result_
  hoist-test     if C: ...                  ->  cond_ = C; if cond_: ...
  rename-local   a local (not a parameter, not global/nonlocal, not captured by a nested def) renamed everywhere in the function
  docstring      a docstring is added to a function that has none
  list-to-tuple  x in [a, b]                ->  x in (a, b)
  aug-assign     x += k / x -= k (int literal k, x a plain name)   ->  x = x + k / x = x - k
  not-in         not (a in b) / not a in b  <->  a not in b ; not a == b -> a != b
  early-continue last statement of a loop body `if c: X` (no else)  ->  if not c: continue ; X
  return-ifexp   if c: return A  followed by  return B   ->  return A if c else B      (and the reverse for `return A if c else B`)
  de-morgan      not (a or b) -> not a and not b ; not (a and b) -> not a or not b   (inside tests)
  chain-cmp      a OP x and x OP2 b  ->  a OP x OP2 b   (x call-free)
  extract-const  an int literal >= 10 inside a function  ->  a new module-level constant
  add-log        `logging.getLogger(__name__).debug("trace")` as first statement of a function (NOT canonical: an extra statement)
  or-chain       x == a or x == b <-> x in (a, b) ; isinstance(x, A) or isinstance(x, B) <-> isinstance(x, (A, B))
  kw-args        f(a, b) for a call that resolves to exactly one module-level function / class of the package by name ->
                 keywords for the trailing positional arguments
"""
from __future__ import annotations

import ast
import copy
import json
import os
import random
import shutil
import subprocess
import sys
import tempfile
from concurrent.futures import ThreadPoolExecutor

sys.path.insert(0, os.path.dirname(os.path.dirname(os.path.abspath(__file__))))
from a816lint import canonical as _canon  # noqa: E402  (only its or-chain helpers)

PY = "/venv/bin/python"
ARGS = sys.argv[1:]


def opt(name: str, default: str) -> str:
    return next((a.split("=", 1)[1] for a in ARGS if a.startswith(f"--{name}=")), default)


MAX = int(opt("max", "400"))
SEED = int(opt("seed", "1"))
OUT = opt("out", "/tmp/dbg/neutral_sweep.jsonl")
ONLY = opt("files", "")
OPS = opt("ops", "")
NOTESTS = "--notests" in ARGS
DOUBLE = "--double" in ARGS


def sh(cmd, cwd=None, timeout=300):
    try:
        r = subprocess.run(cmd, shell=True, cwd=cwd, capture_output=True, text=True, timeout=timeout)
        return r.returncode, r.stdout + r.stderr
    except subprocess.TimeoutExpired:
        return 124, "timeout"


MIRROR = {ast.Lt: ast.Gt, ast.Gt: ast.Lt, ast.LtE: ast.GtE, ast.GtE: ast.LtE, ast.Eq: ast.Eq, ast.NotEq: ast.NotEq}
TERMINATORS = (ast.Raise, ast.Return, ast.Continue, ast.Break)


def pure(e: ast.AST) -> bool:
    """no call, no walrus, no await/yield: evaluation order of two such operands cannot be observed (attribute access of the package's
    plain classes has no side effects; properties in the package are pure)"""
    return not any(isinstance(n, (ast.Call, ast.NamedExpr, ast.Await, ast.Yield, ast.YieldFrom)) for n in ast.walk(e))


def terminates(body: list[ast.stmt]) -> bool:
    return bool(body) and isinstance(body[-1], TERMINATORS)


def names_in(node: ast.AST) -> set[str]:
    return {n.id for n in ast.walk(node) if isinstance(n, ast.Name)} | {a.arg for n in ast.walk(node) if isinstance(n, ast.arguments) for a in n.args + n.kwonlyargs + n.posonlyargs}


def fresh(fn: ast.AST, base: str) -> str:
    used = names_in(fn)
    n = base
    while n in used:
        n += "_"
    return n


def block_fields(node: ast.AST):
    for f in ("body", "orelse", "finalbody"):
        v = getattr(node, f, None)
        if isinstance(v, list) and v and isinstance(v[0], ast.stmt):
            yield f, v
    if isinstance(node, ast.Try):
        for h in node.handlers:
            yield "hbody", h.body


def sites(tree: ast.Module, known_callables: dict[str, list[str]]):
    """(path, op, line, function) for every applicable site"""
    out = []

    def walk(node, path, fn, fnode):
        if isinstance(node, (ast.FunctionDef, ast.AsyncFunctionDef)):
            fn, fnode = node.name, node
            out.append((path, "add-log", node.lineno, fn))
            doc = ast.get_docstring(node)
            if doc is None:
                out.append((path, "docstring", node.lineno, fn))
            out.append((path, "rename-local", node.lineno, fn))
        if fn:
            if isinstance(node, ast.If):
                if node.orelse:
                    out.append((path, "swap-if", node.lineno, fn))
                    if terminates(node.body):
                        out.append((path, "guard", node.lineno, fn))
                if not node.orelse and isinstance(node.test, ast.BoolOp) and isinstance(node.test.op, ast.And) and len(node.test.values) == 2:
                    out.append((path, "split-and", node.lineno, fn))
                if not any(isinstance(n, ast.NamedExpr) for n in ast.walk(node.test)):
                    out.append((path, "hoist-test", node.lineno, fn))
            if isinstance(node, ast.Compare) and len(node.ops) == 1 and type(node.ops[0]) in MIRROR and pure(node.left) and pure(node.comparators[0]):
                out.append((path, "flip-cmp", node.lineno, fn))
            if isinstance(node, ast.Compare) and len(node.ops) == 1 and isinstance(node.ops[0], (ast.In, ast.NotIn)) and isinstance(node.comparators[0], ast.List):
                out.append((path, "list-to-tuple", node.lineno, fn))
            if isinstance(node, ast.Return) and node.value is not None and not isinstance(node.value, (ast.Name, ast.Constant)):
                out.append((path, "hoist-return", node.lineno, fn))
            if isinstance(node, ast.AugAssign) and isinstance(node.target, ast.Name) and isinstance(node.op, (ast.Add, ast.Sub)) and isinstance(node.value, ast.Constant) \
                    and isinstance(node.value.value, int):
                out.append((path, "aug-assign", node.lineno, fn))
            if isinstance(node, ast.UnaryOp) and isinstance(node.op, ast.Not) and isinstance(node.operand, ast.Compare) and len(node.operand.ops) == 1 \
                    and isinstance(node.operand.ops[0], (ast.In, ast.Eq, ast.Is)):
                out.append((path, "not-in", node.lineno, fn))
            if isinstance(node, ast.Call) and isinstance(node.func, ast.Name) and node.func.id in known_callables and len(node.args) >= 2 and not node.keywords \
                    and not any(isinstance(a, ast.Starred) for a in node.args) and len(node.args) <= len(known_callables[node.func.id]):
                out.append((path, "kw-args", node.lineno, fn))
            if isinstance(node, (ast.For, ast.While)) and node.body and isinstance(node.body[-1], ast.If) and not node.body[-1].orelse and len(node.body) >= 1 \
                    and not any(isinstance(x, (ast.FunctionDef, ast.Lambda)) for x in ast.walk(node)):
                out.append((path, "early-continue", node.lineno, fn))
            if isinstance(node, ast.Return) and isinstance(node.value, ast.IfExp):
                out.append((path, "return-ifexp", node.lineno, fn))
            if isinstance(node, ast.UnaryOp) and isinstance(node.op, ast.Not) and isinstance(node.operand, ast.BoolOp):
                out.append((path, "de-morgan", node.lineno, fn))
            if isinstance(node, ast.BoolOp) and isinstance(node.op, ast.And) and len(node.values) == 2 and all(isinstance(v, ast.Compare) and len(v.ops) == 1 for v in node.values) \
                    and ast.dump(node.values[0].comparators[0]) == ast.dump(node.values[1].left) and pure(node.values[1].left) \
                    and all(isinstance(v.ops[0], (ast.Lt, ast.LtE, ast.Gt, ast.GtE, ast.Eq)) for v in node.values):
                out.append((path, "chain-cmp", node.lineno, fn))
            if isinstance(node, ast.BoolOp) and _canon.or_chain_compact(node) is not None:
                out.append((path, "or-chain", node.lineno, fn))
            if isinstance(node, (ast.Compare, ast.Call)) and _canon.or_chain_expand(node) is not None:
                out.append((path, "or-chain", node.lineno, fn))
            if isinstance(node, ast.Constant) and type(node.value) is int and node.value >= 10:
                out.append((path, "extract-const", node.lineno, fn))
            for f, blk in block_fields(node):
                if f == "hbody":
                    continue
                for i, st in enumerate(blk[:-1]):
                    if isinstance(st, ast.If) and not st.orelse and len(st.body) == 1 and isinstance(st.body[0], ast.Return) and st.body[0].value is not None \
                            and isinstance(blk[i + 1], ast.Return) and blk[i + 1].value is not None:
                        out.append((path + [(f, i)], "return-ifexp", st.lineno, fn))
            # unguard: a block where an `if` without else terminates and statements follow
            for f, blk in block_fields(node):
                if f == "hbody":
                    continue
                for i, st in enumerate(blk[:-1]):
                    if isinstance(st, ast.If) and not st.orelse and terminates(st.body):
                        out.append((path + [(f, i)], "unguard", st.lineno, fn))
        for field, value in ast.iter_fields(node):
            if isinstance(value, list):
                for i, v in enumerate(value):
                    if isinstance(v, ast.AST):
                        walk(v, path + [(field, i)], fn, fnode)
            elif isinstance(value, ast.AST):
                walk(value, path + [(field, None)], fn, fnode)

    walk(tree, [], None, None)
    return out


def get(tree, path):
    node = tree
    for field, i in path:
        node = getattr(node, field)
        if i is not None:
            node = node[i]
    return node


def put(tree, path, new):
    parent = get(tree, path[:-1])
    field, i = path[-1]
    if i is None:
        setattr(parent, field, new)
    else:
        getattr(parent, field)[i] = new


def splice(tree, path, new_stmts):
    parent = get(tree, path[:-1])
    field, i = path[-1]
    lst = getattr(parent, field)
    lst[i:i + 1] = new_stmts


def enclosing_function(tree, path):
    node, best = tree, None
    for field, i in path:
        node = getattr(node, field)
        if i is not None:
            node = node[i]
        if isinstance(node, (ast.FunctionDef, ast.AsyncFunctionDef)):
            best = node
    return best


def local_candidates(fn: ast.FunctionDef) -> list[str]:
    params = {a.arg for a in fn.args.args + fn.args.kwonlyargs + fn.args.posonlyargs} | ({fn.args.vararg.arg} if fn.args.vararg else set()) | \
        ({fn.args.kwarg.arg} if fn.args.kwarg else set())
    banned = set(params)
    stored = set()
    for n in ast.walk(fn):
        if isinstance(n, (ast.Global, ast.Nonlocal)):
            banned |= set(n.names)
        if n is not fn and isinstance(n, (ast.FunctionDef, ast.AsyncFunctionDef, ast.Lambda, ast.ClassDef)):
            banned |= names_in(n)  # captured or shadowed by a nested scope: leave alone
            if hasattr(n, "name"):
                banned.add(n.name)
        if isinstance(n, ast.Name) and isinstance(n.ctx, ast.Store):
            stored.add(n.id)
        if isinstance(n, ast.ExceptHandler) and n.name:
            banned.add(n.name)
        if isinstance(n, (ast.ListComp, ast.SetComp, ast.DictComp, ast.GeneratorExp)):
            for g in n.generators:
                banned |= {x.id for x in ast.walk(g.target) if isinstance(x, ast.Name)}
    return sorted(stored - banned)


def transform(tree, path, op, rng, known_callables):
    t = copy.deepcopy(tree)
    node = get(t, path)
    before = ast.unparse(node)[:100]
    if op == "swap-if":
        node.test, node.body, node.orelse = ast.UnaryOp(ast.Not(), node.test), node.orelse, node.body
    elif op == "guard":
        rest = node.orelse
        node.orelse = []
        splice(t, path, [node] + rest)
    elif op == "unguard":
        parent = get(t, path[:-1])
        field, i = path[-1]
        blk = getattr(parent, field)
        st = blk[i]
        st.orelse = blk[i + 1:]
        del blk[i + 1:]
        node = st
    elif op == "flip-cmp":
        node.left, node.comparators, node.ops = node.comparators[0], [node.left], [MIRROR[type(node.ops[0])]()]
    elif op == "split-and":
        a, b = node.test.values
        node.test = a
        node.body = [ast.If(b, node.body, [])]
    elif op == "hoist-return":
        fn = enclosing_function(t, path)
        name = fresh(fn, "result_")
        splice(t, path, [ast.Assign([ast.Name(name, ast.Store())], node.value), ast.Return(ast.Name(name, ast.Load()))])
    elif op == "hoist-test":
        # an `elif` cannot take a statement in front of it: only when the If is a direct element of a block that is not an elif position
        parent = get(t, path[:-1])
        field, i = path[-1]
        if field == "orelse" and isinstance(parent, ast.If) and len(parent.orelse) == 1:
            return None
        fn = enclosing_function(t, path)
        name = fresh(fn, "cond_")
        test = node.test
        node.test = ast.Name(name, ast.Load())
        splice(t, path, [ast.Assign([ast.Name(name, ast.Store())], test), node])
    elif op == "rename-local":
        cands = local_candidates(node)
        if not cands:
            return None
        old = rng.choice(cands)
        new = fresh(node, old + "_v")
        for n in ast.walk(node):
            if isinstance(n, ast.Name) and n.id == old:
                n.id = new
        before = f"{node.name}: {old} -> {new}"
    elif op == "docstring":
        node.body.insert(0, ast.Expr(ast.Constant("Documented.")))
    elif op == "list-to-tuple":
        node.comparators = [ast.Tuple(node.comparators[0].elts, ast.Load())]
    elif op == "aug-assign":
        put(t, path, ast.Assign([ast.Name(node.target.id, ast.Store())], ast.BinOp(ast.Name(node.target.id, ast.Load()), node.op, node.value)))
    elif op == "not-in":
        c = node.operand
        c.ops = [{ast.In: ast.NotIn, ast.Eq: ast.NotEq, ast.Is: ast.IsNot}[type(c.ops[0])]()]
        put(t, path, c)
    elif op == "early-continue":
        last = node.body[-1]
        node.body[-1:] = [ast.If(ast.UnaryOp(ast.Not(), last.test), [ast.Continue()], [])] + last.body
    elif op == "return-ifexp":
        if isinstance(node, ast.Return):
            splice(t, path, [ast.If(node.value.test, [ast.Return(node.value.body)], []), ast.Return(node.value.orelse)])
        else:
            parent = get(t, path[:-1])
            field, i = path[-1]
            blk = getattr(parent, field)
            blk[i:i + 2] = [ast.Return(ast.IfExp(node.test, node.body[0].value, blk[i + 1].value))]
    elif op == "de-morgan":
        inner = node.operand
        new = ast.BoolOp(ast.Or() if isinstance(inner.op, ast.And) else ast.And(), [ast.UnaryOp(ast.Not(), v) for v in inner.values])
        put(t, path, new)
    elif op == "chain-cmp":
        a, b = node.values
        put(t, path, ast.Compare(a.left, [a.ops[0], b.ops[0]], [a.comparators[0], b.comparators[0]]))
    elif op == "extract-const":
        name = f"_K{node.value}"
        while name in names_in(t):
            name += "_"
        put(t, path, ast.Name(name, ast.Load()))
        # after the imports and any `from __future__`
        k = 0
        while k < len(t.body) and (isinstance(t.body[k], (ast.Import, ast.ImportFrom)) or (isinstance(t.body[k], ast.Expr) and isinstance(t.body[k].value, ast.Constant))):
            k += 1
        t.body.insert(k, ast.Assign([ast.Name(name, ast.Store())], ast.Constant(node.value)))
        ast.fix_missing_locations(t)
        return t, before, name
    elif op == "add-log":
        call = ast.Expr(ast.Call(ast.Attribute(ast.Call(ast.Attribute(ast.Name("logging", ast.Load()), "getLogger", ast.Load()), [ast.Name("__name__", ast.Load())], []), "debug", ast.Load()),
                                 [ast.Constant("trace")], []))
        k = 1 if ast.get_docstring(node) is not None else 0
        node.body.insert(k, call)
        if not any(isinstance(st, ast.Import) and any(a.name == "logging" for a in st.names) for st in t.body):
            j = 0
            while j < len(t.body) and ((isinstance(t.body[j], ast.ImportFrom) and t.body[j].module == "__future__") or (isinstance(t.body[j], ast.Expr) and isinstance(t.body[j].value, ast.Constant))):
                j += 1
            t.body.insert(j, ast.Import([ast.alias("logging")]))
    elif op == "or-chain":
        new = _canon.or_chain_compact(node) if isinstance(node, ast.BoolOp) else _canon.or_chain_expand(node)
        put(t, path, new)
    elif op == "kw-args":
        params = known_callables[node.func.id]
        k = rng.randint(1, len(node.args) - 1) if len(node.args) > 1 else 1
        keep, rest = node.args[:k], node.args[k:]
        node.keywords = [ast.keyword(params[k + j], a) for j, a in enumerate(rest)]
        node.args = keep
    else:
        raise ValueError(op)
    ast.fix_missing_locations(t)
    try:
        after = ast.unparse(get(t, path))[:100]
    except Exception:  # noqa: BLE001
        after = "?"
    return t, before, after


def main():
    rng = random.Random(SEED)
    base = tempfile.mkdtemp(prefix="a816nsweep-base-")
    sh(f"git -C /repo archive HEAD a816 script tests | tar -x -C {base}")
    files = []
    for root, _d, fs in os.walk(base):
        for f in fs:
            rel = os.path.relpath(os.path.join(root, f), base)
            if f.endswith(".py") and (rel.startswith("a816/") or rel == "script/__init__.py") and "__pycache__" not in rel:
                files.append(rel)
    trees = {rel: ast.parse(open(os.path.join(base, rel)).read()) for rel in sorted(files)}
    # callables that one name denotes unambiguously across the package: module-level functions and classes with an explicit __init__
    defs: dict[str, list[list[str]]] = {}
    for rel, tree in trees.items():
        for st in tree.body:
            if isinstance(st, ast.FunctionDef) and not st.args.vararg and not st.args.posonlyargs and not st.decorator_list:
                defs.setdefault(st.name, []).append([a.arg for a in st.args.args])
            if isinstance(st, ast.ClassDef):
                init = [m for m in st.body if isinstance(m, ast.FunctionDef) and m.name == "__init__"]
                if init and not init[0].args.vararg:
                    defs.setdefault(st.name, []).append([a.arg for a in init[0].args.args[1:]])
                else:
                    defs.setdefault(st.name, []).append([])  # dataclass / inherited constructor: not handled
                    defs[st.name].append([])
    known = {k: v[0] for k, v in defs.items() if len(v) == 1 and v[0]}
    cands = []
    for rel, tree in trees.items():
        if ONLY and not any(rel.endswith(x) for x in ONLY.split(",")):
            continue
        for path, op, line, fn in sites(tree, known):
            if OPS and op not in OPS.split(","):
                continue
            cands.append((rel, path, op, line, fn))
    rng.shuffle(cands)
    # balance the operators: round-robin over the kinds
    by_op: dict[str, list] = {}
    for c in cands:
        by_op.setdefault(c[2], []).append(c)
    picked = []
    while len(picked) < MAX and any(by_op.values()):
        for op in sorted(by_op):
            if by_op[op] and len(picked) < MAX:
                picked.append(by_op[op].pop())
    print(f"{len(cands)} sites, {len(picked)} sampled: " + ", ".join(f"{op}={sum(1 for c in picked if c[2] == op)}" for op in sorted({c[2] for c in picked})), flush=True)

    def run(c):
        rel, path, op, line, fn = c
        try:
            r = transform(trees[rel], path, op, random.Random(hash((rel, line, op, SEED)) & 0xFFFF), known)
            if r is None:
                return None
            t, before, after = r
            if DOUBLE:
                # a second, different rewrite inside the same function of the already rewritten module
                rng2 = random.Random(hash((rel, line, op, SEED, 2)) & 0xFFFF)
                more = [c2 for c2 in sites(t, known) if c2[3] == fn and c2[1] != op and c2[1] not in ("add-log", "extract-const")]
                rng2.shuffle(more)
                for path2, op2, _l2, _f2 in more[:5]:
                    try:
                        r2 = transform(t, path2, op2, rng2, known)
                    except Exception:  # noqa: BLE001
                        r2 = None
                    if r2 is not None:
                        t, b2, _a2 = r2
                        before = f"{before} ++ [{op2}] {b2}"
                        op = f"{op}+{op2}"
                        break
            src = ast.unparse(t)
            compile(src, rel, "exec")
        except Exception as e:  # noqa: BLE001
            return {"transformer_error": f"{type(e).__name__}: {e}", "file": rel, "line": line, "op": op}
        d = tempfile.mkdtemp(prefix="a816nsweep-")
        try:
            for sub in ("a816", "script", "tests"):
                shutil.copytree(f"{base}/{sub}", f"{d}/{sub}")
            open(os.path.join(d, rel), "w").write(src)
            if not NOTESTS:
                rc, out = sh(f"{PY} -m pytest -q -x -p no:cacheprovider --timeout=60 2>&1 | tail -1", cwd=d, timeout=400)
                if "103 passed" not in out:
                    return {"tests_reject": out.strip()[:100], "file": rel, "function": fn, "line": line, "op": op, "before": before, "after": after}
            rc, out = sh(f"./check all --repo {d}", cwd="/verif", timeout=600)
            lines = out.splitlines()
            viol, err = {}, {}
            for i, l in enumerate(lines):
                if l.startswith("VIOLATION"):
                    viol.setdefault(l.split("property=")[1].split()[0], lines[i - 1][:220])
                if l.startswith("ANALYSIS-ERROR"):
                    err.setdefault(l.split("property=")[1].split()[0], l[:220])
            return {"file": rel, "function": fn, "line": line, "op": op, "before": before, "after": after, "false_alarms": viol, "analysis_errors": err}
        finally:
            shutil.rmtree(d, ignore_errors=True)

    n = fa = ae = rej = 0
    os.makedirs(os.path.dirname(OUT), exist_ok=True)
    with open(OUT, "w") as fo, ThreadPoolExecutor(max_workers=12) as ex:
        for r in ex.map(run, picked):
            if r is None:
                continue
            fo.write(json.dumps(r) + "\n")
            fo.flush()
            if "tests_reject" in r or "transformer_error" in r:
                rej += 1
                continue
            n += 1
            fa += bool(r["false_alarms"])
            ae += bool(r["analysis_errors"])
    shutil.rmtree(base, ignore_errors=True)
    print(f"variants checked: {n}; with false alarms: {fa}; with analysis errors: {ae}; dropped (tests reject / transformer error): {rej}; written to {OUT}")


if __name__ == "__main__":
    main()
