#!/usr/bin/env python3
"""Record the names that exist in /repo at the verified commit (functions, module-level bindings, locals per function).
Names absent from this census are treated by the normaliser as introduced by a later edit: new helpers are inlined into
their callers and new module constants are propagated, so that rules keep seeing the mechanism's own statements."""
import ast, json, os, subprocess, sys
sys.path.insert(0, os.path.dirname(os.path.dirname(os.path.abspath(__file__))))
from a816lint.core import Repo, walk_no_nested

repo = Repo(sys.argv[1] if len(sys.argv) > 1 else "/repo", normalize=False)
out = {"commit": subprocess.run("git -C /repo rev-parse --short HEAD", shell=True, capture_output=True, text=True).stdout.strip(), "modules": {}}
for name, mi in sorted(repo.modules.items()):
    fns = sorted([f.qualname for f in mi.functions.values()] + [m.qualname for c in mi.classes.values() for m in c.methods.values()])
    consts = sorted({n for n, _ in mi.assigns_all})
    import hashlib
    def sig(f):
        body = [s_ for s_ in f.node.body if not (isinstance(s_, ast.Expr) and isinstance(s_.value, ast.Constant) and isinstance(s_.value.value, str))]
        return hashlib.sha256("\n".join(ast.dump(s_) for s_ in body).encode()).hexdigest()[:16]
    allf = list(mi.functions.values()) + [m for c in mi.classes.values() for m in c.methods.values()]
    out["modules"][name] = {"functions": fns, "globals": consts, "classes": sorted(mi.classes), "body_sha": {f.qualname: sig(f) for f in allf},
                            # the confirmed spelling of every function: the normaliser hands it to the rules when the working tree's function has the same
                            # canonical form (a816lint/canonical.py), i.e. is the same function written differently
                            "source": {f.qualname: ast.unparse(f.node) for f in allf}}
json.dump(out, open(os.path.join(os.path.dirname(os.path.dirname(os.path.abspath(__file__))), "refdata", "census.json"), "w"), indent=0)
print("census written", sum(len(m["functions"]) for m in out["modules"].values()), "functions")
