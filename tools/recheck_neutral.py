#!/usr/bin/env python3
"""tools/recheck_neutral.py [names...]: re-evaluate every archived behaviour-preserving variant (/verif/neutral/*/patch.diff) on a throw-away
copy of /repo HEAD: the patch must apply, the 103 tests must pass with it, its demo (when archived) must exit 0, and every check must stay
silent.  Refreshes meta.json['result'].  Does not touch /repo."""
import glob, json, os, shutil, subprocess, sys, tempfile
from concurrent.futures import ThreadPoolExecutor

only = sys.argv[1:]
def sh(cmd, cwd=None):
    r = subprocess.run(cmd, shell=True, cwd=cwd, capture_output=True, text=True)
    return r.returncode, r.stdout + r.stderr

head = sh("git -C /repo rev-parse --short HEAD")[1].strip()
base = tempfile.mkdtemp(prefix="a816clean-")
sh(f"git -C /repo archive HEAD a816 script tests | tar -x -C {base}")

def one(d):
    name = os.path.basename(d)
    t = tempfile.mkdtemp(prefix="a816neutral-")
    for sub in ("a816", "script", "tests"):
        shutil.copytree(f"{base}/{sub}", f"{t}/{sub}")
    rc, _ = sh(f"patch -s -p1 < {d}/patch.diff", cwd=t)
    res = {"applies": rc == 0}
    if rc == 0:
        _, ot = sh("/venv/bin/python -m pytest -q -p no:cacheprovider --timeout=900 2>&1 | tail -1", cwd=t)
        res["tests_with_patch"] = ot.strip()
        if os.path.exists(f"{d}/demo.py"):
            open(f"{t}/_demo.py", "w").write(open(f"{d}/demo.py").read().replace("/repo", t))
            rcd, od = sh("timeout 600 /venv/bin/python _demo.py", cwd=t)
            res["demo_exit"] = rcd
            if rcd != 0:
                # a demo pinned to a golden digest of an earlier HEAD fails on the unpatched tree too: compare patched with unpatched
                c = tempfile.mkdtemp(prefix="a816neutral-clean-")
                for sub in ("a816", "script", "tests"):
                    shutil.copytree(f"{base}/{sub}", f"{c}/{sub}")
                open(f"{c}/_demo.py", "w").write(open(f"{d}/demo.py").read().replace("/repo", c))
                rcc, oc = sh("timeout 600 /venv/bin/python _demo.py", cwd=c)
                shutil.rmtree(c)
                dig = lambda o: [l for l in o.splitlines() if l.startswith("digest:")]
                res["demo_exit_unpatched"] = rcc
                res["demo_same_as_unpatched"] = rcc == rcd and dig(oc) == dig(od) and bool(dig(od))
                if res["demo_same_as_unpatched"]:
                    res["demo_exit"] = 0
        _, o = sh(f"./check all --repo {t}", cwd="/verif")
        lines = o.splitlines()
        viol, err = {}, {}
        for i, l in enumerate(lines):
            if l.startswith("VIOLATION"):
                viol.setdefault(l.split("property=")[1].split()[0], lines[i - 1][:200])
            if l.startswith("ANALYSIS-ERROR"):
                err.setdefault(l.split("property=")[1].split()[0], l[:200])
        res["false_alarms"], res["analysis_errors"] = viol, err
    shutil.rmtree(t)
    return name, res

dirs = [d for d in sorted(glob.glob("/verif/neutral/*")) if os.path.isdir(d) and (not only or os.path.basename(d) in only)]
tot = fa = ae = 0
with ThreadPoolExecutor(max_workers=4) as ex:
    for name, res in ex.map(one, dirs):
        mp = f"/verif/neutral/{name}/meta.json"
        m = json.load(open(mp))
        m["result"] = res
        m["evaluated_at_repo_head"] = head
        json.dump(m, open(mp, "w"), indent=1); open(mp, "a").write("\n")
        tot += 1
        fa += bool(res.get("false_alarms")); ae += bool(res.get("analysis_errors"))
        flag = "" if res.get("applies") and "103 passed" in res.get("tests_with_patch", "") and res.get("demo_exit", 0) == 0 else "  <-- NOT CONFIRMED NEUTRAL"
        print(name, "applies" if res["applies"] else "DOES NOT APPLY", res.get("tests_with_patch", "")[:12], "demo", res.get("demo_exit"), "FA", sorted(res.get("false_alarms", {})), "AE", sorted(res.get("analysis_errors", {})), flag)
print(f"{tot} variants, {fa} with false alarms, {ae} with analysis errors")
shutil.rmtree(base)
