#!/usr/bin/env python3
"""Replace the three generated tables of DESIGN.md (rule inventory, seeded changes, neutral variants) by fresh output of gen_tables.py."""
import subprocess, sys, os
HERE = os.path.dirname(os.path.dirname(os.path.abspath(__file__)))
p = os.path.join(HERE, "DESIGN.md")
lines = open(p).read().split("\n")
for what, header in (("rules", "| property | level | rules (function names) |"), ("seeds", "| seed | what was changed"), ("neutral", "| variant | kind | what was refactored")):
    new = subprocess.run([sys.executable, os.path.join(HERE, "tools", "gen_tables.py"), what], capture_output=True, text=True, cwd=HERE).stdout.rstrip("\n").split("\n")
    i = next(k for k, l in enumerate(lines) if l.startswith(header))
    j = i
    while j < len(lines) and lines[j].startswith("|"):
        j += 1
    lines[i:j] = new
open(p, "w").write("\n".join(lines))
print("tables updated")
