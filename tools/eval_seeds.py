#!/usr/bin/env python3
"""tools/eval_seeds.py <Cxx> [dir]: for each seeds/variant*.diff in the agent worktree: confirm (tests pass with it, demo fails with it /
passes without it) in the scratch worktree, then apply to /repo, run ./check, revert. Prints a table. Never commits to /repo."""
import glob, json, os, subprocess, sys

prop = sys.argv[1]
wt = sys.argv[2] if len(sys.argv) > 2 else f"/tmp/seed/{prop}"
PY = "/venv/bin/python"

def sh(cmd, cwd=None, timeout=600):
    r = subprocess.run(cmd, shell=True, cwd=cwd, capture_output=True, text=True, timeout=timeout)
    return r.returncode, (r.stdout + r.stderr)

rows = []
for diff in sorted(glob.glob(f"{wt}/seeds/variant*.diff")):
    k = os.path.basename(diff)[len("variant"):-len(".diff")]
    demo = f"seeds/variant{k}_demo.py"
    meta = json.load(open(f"{wt}/seeds/variant{k}_meta.json")) if os.path.exists(f"{wt}/seeds/variant{k}_meta.json") else {}
    sh("git checkout -- a816 script", cwd=wt)
    rc0, out0 = sh(f"timeout 300 {PY} {demo}", cwd=wt)
    ra, oa = sh(f"git apply {diff}", cwd=wt)
    if ra != 0:
        rows.append((k, "patch does not apply", "", "", "", meta.get("summary", "")))
        continue
    rt, ot = sh(f"{PY} -m pytest -q -p no:cacheprovider --timeout=900 2>&1 | tail -1", cwd=wt)
    rc1, out1 = sh(f"timeout 300 {PY} {demo}", cwd=wt)
    sh("git checkout -- a816 script", cwd=wt)
    confirmed = rc0 == 0 and rc1 != 0 and "103 passed" in ot
    # now against /repo with the real checks
    assert sh("git diff --quiet", cwd="/repo")[0] == 0, "/repo dirty"
    ra2, _ = sh(f"git apply {diff}", cwd="/repo")
    res = {}
    if ra2 == 0:
        try:
            for p in ([prop] if len(sys.argv) < 4 else sys.argv[3].split(",")):
                rc, out = sh(f"./check {p} --tier quick", cwd="/verif")
                lines = [l for l in out.splitlines() if l.startswith(("VIOLATION", "ANALYSIS-ERROR")) ]
                first = next((l for l in out.splitlines() if l.startswith(p + ".R")), "")
                res[p] = (rc, first[:200] if rc == 1 else (lines[0][:200] if lines else ""))
            if all(v[0] != 1 for v in res.values()):
                rc, out = sh("./check all --tier quick", cwd="/verif")
                others = sorted({l.split("property=")[1].split()[0] for l in out.splitlines() if l.startswith("VIOLATION")})
                errs = sorted({l.split("property=")[1].split()[0] for l in out.splitlines() if l.startswith("ANALYSIS-ERROR")})
                res["_other_properties_reporting"] = others
                res["_analysis_errors_in"] = errs
        finally:
            sh("git checkout -- .", cwd="/repo")
    rows.append((k, "confirmed" if confirmed else f"NOT confirmed (clean demo rc={rc0}, seeded demo rc={rc1}, tests: {ot.strip()})", res, meta.get("summary", ""), meta.get("needs", "")))
for r in rows:
    print(f"--- {prop} variant{r[0]}: {r[1]}")
    print("    summary:", r[3] if len(r) > 3 else "")
    print("    checks:", r[2])
