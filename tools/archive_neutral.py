#!/usr/bin/env python3
"""Archive the behaviour-preserving variants written by sub-agents as /verif/neutral/<prop>-n<k>/{patch.diff,meta.json} with what the
checks say about them at the current /repo HEAD (applied to a throw-away copy of the sources; /repo is not touched)."""
import glob, json, os, shutil, subprocess, sys, tempfile

ROUND = next((a.split("=")[1] for a in sys.argv[1:] if a.startswith("--round=")), "")  # "" = round 1 naming (Cxx-nK), else Cxx-rN-nK
TAG = f"r{ROUND}-" if ROUND else ""

def sh(cmd, cwd=None):
    r = subprocess.run(cmd, shell=True, cwd=cwd, capture_output=True, text=True)
    return r.returncode, r.stdout + r.stderr

head = sh("git -C /repo rev-parse --short HEAD")[1].strip()
base = tempfile.mkdtemp(prefix="a816clean-")
sh(f"git -C /repo archive HEAD a816 script tests | tar -x -C {base}")
tot = fa = ae = 0
for d in sorted(glob.glob("/tmp/seed/C[0-9][0-9]")):
    prop = os.path.basename(d)
    for diff in sorted(glob.glob(f"{d}/neutral/variant*.diff")):
        k = os.path.basename(diff)[7:-5]
        meta = json.load(open(f"{d}/neutral/variant{k}_meta.json")) if os.path.exists(f"{d}/neutral/variant{k}_meta.json") else {}
        t = tempfile.mkdtemp(prefix="a816neutral-")
        for sub in ("a816", "script", "tests"):
            shutil.copytree(f"{base}/{sub}", f"{t}/{sub}")
        rc, _ = sh(f"patch -s -p1 < {diff}", cwd=t)
        out = f"/verif/neutral/{prop}-{TAG}n{k}"
        os.makedirs(out, exist_ok=True)
        shutil.copy(diff, f"{out}/patch.diff")
        if os.path.exists(f"{d}/neutral/variant{k}_demo.py"):
            open(f"{out}/demo.py", "w").write(open(f"{d}/neutral/variant{k}_demo.py").read().replace(d, "/repo"))
        res = {"applies": rc == 0}
        if rc == 0:
            rt, ot = sh("/venv/bin/python -m pytest -q -p no:cacheprovider --timeout=900 2>&1 | tail -1", cwd=t)
            res["tests_with_patch"] = ot.strip()
            rc2, o = sh(f"./check all --repo {t}", cwd="/verif")
            lines = o.splitlines()
            viol, err = {}, {}
            for i, l in enumerate(lines):
                if l.startswith("VIOLATION"):
                    viol.setdefault(l.split("property=")[1].split()[0], lines[i - 1][:200])
                if l.startswith("ANALYSIS-ERROR"):
                    err.setdefault(l.split("property=")[1].split()[0], l[:200])
            res["false_alarms"] = viol
            res["analysis_errors"] = err
            tot += 1; fa += bool(viol); ae += bool(err)
        json.dump({"property": prop, "variant": k, "kind": meta.get("kind"), "summary": meta.get("summary"), "files": meta.get("files"),
                   "source": "fresh sub-agent given only the property text and a scratch worktree, asked for a behaviour-preserving edit with a broad demonstration",
                   "evaluated_at_repo_head": head, "result": res}, open(f"{out}/meta.json", "w"), indent=1)
        print(f"{prop}-{TAG}n{k}", res.get("tests_with_patch", "no-apply")[:12], "FALSE-ALARMS" if res.get("false_alarms") else "", "analysis-errors:" + ",".join(res.get("analysis_errors", {})) if res.get("analysis_errors") else "", flush=True)
        shutil.rmtree(t)
shutil.rmtree(base)
print(f"variants={tot} with_false_alarm={fa} with_analysis_error={ae}")
