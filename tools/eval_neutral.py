#!/usr/bin/env python3
"""tools/eval_neutral.py [Cxx ...]: apply each behaviour-preserving variant (/tmp/seed/Cxx/neutral/variantK.diff) to a throw-away copy of the
sources and run ALL checks on it. A VIOLATION is a false alarm; an ANALYSIS-ERROR is an idiom the analysis does not model."""
import glob, json, os, shutil, subprocess, sys, tempfile

only = sys.argv[1:]
def sh(cmd, cwd=None):
    r = subprocess.run(cmd, shell=True, cwd=cwd, capture_output=True, text=True)
    return r.returncode, r.stdout + r.stderr

head_src = tempfile.mkdtemp(prefix="a816clean-")
sh(f"git -C /repo archive HEAD a816 script | tar -x -C {head_src}")
for d in sorted(glob.glob("/tmp/seed/C[0-9][0-9]")):
    prop = os.path.basename(d)
    if only and prop not in only:
        continue
    for diff in sorted(glob.glob(f"{d}/neutral/variant*.diff")):
        k = os.path.basename(diff)[7:-5]
        meta = {}
        try:
            meta = json.load(open(f"{d}/neutral/variant{k}_meta.json"))
        except Exception:
            pass
        t = tempfile.mkdtemp(prefix="a816neutral-")
        shutil.copytree(f"{head_src}/a816", f"{t}/a816"); shutil.copytree(f"{head_src}/script", f"{t}/script")
        rc, out = sh(f"patch -s -p1 < {diff}", cwd=t)
        if rc != 0:
            print(f"{prop}-n{k}: patch does not apply"); shutil.rmtree(t); continue
        rc, out = sh(f"./check all --repo {t}", cwd="/verif")
        viol, err = {}, {}
        lines = out.splitlines()
        for i, l in enumerate(lines):
            if l.startswith("VIOLATION"):
                p = l.split("property=")[1].split()[0]
                viol.setdefault(p, lines[i - 1][:200] if i else "")
            if l.startswith("ANALYSIS-ERROR"):
                p = l.split("property=")[1].split()[0]
                err.setdefault(p, l[:220])
        print(f"{prop}-n{k} [{meta.get('kind')}] {meta.get('summary', '')[:110]}")
        for p, m in viol.items():
            print(f"    FALSE-ALARM {p}: {m}")
        for p, m in err.items():
            print(f"    analysis-error {p}: {m}")
        shutil.rmtree(t)
shutil.rmtree(head_src)
