#!/usr/bin/env python3
"""Regenerate MANIFEST.json from the rule modules present in a816lint/rules."""
import importlib
import json
import os
import sys

HERE = os.path.dirname(os.path.dirname(os.path.abspath(__file__)))
sys.path.insert(0, HERE)

NA = {
    "C20": "Pure numeric law: rom_to_snes/snes_to_rom/pointer formulas are closed-form integer arithmetic and the property is "
           "pointwise equality with the bus mapping over 4 Mi offsets x 3 modes. No clause of it is visible in the shape of "
           "the code; the only static residue (the same magic constants appear) is a brittle proxy that would fire on "
           "behaviour-preserving rewrites. Deciding it needs enumeration or a solver, which are other technique families.",
}


TECHNIQUE = {
    "C01": "static analysis: literal opcode-table extraction compared with a reference ISA matrix; byte-level normal form of packing expressions; finite abstraction of the width chain; guard/def-use facts on the operand parser",
    "C02": "static analysis: sibling agreement of abstract length terms (emit vs pc_after, supposed_length vs emit) over the class hierarchy; CFG dominance for the pass resets and the length re-check guard",
    "C03": "static analysis: who-may-call / who-may-write census, accumulate-then-flush typestate on Program.emit, branch-independent assignment facts on set_position",
    "C04": "static analysis: literal evaluation of the built-in bus definitions against reference data; argument-binding agreement; polynomial normal form of the offset formulas; return/assign facts",
    "C05": "static analysis: taint-free path from displacement to signed-byte pack, polynomial form of the displacement, must-check (None tests with raising branch dominating the pack)",
    "C06": "static analysis: order-isomorphism of the precedence table, pop-comparison and evaluation-arm facts, literal-base table, single-evaluator call-site census",
    "C07": "static analysis: byte-level normal form of data-node packing, three-way keyword/parser/generator agreement, loop-shape and def-use facts",
    "C08": "static analysis: scope-event typestate on generators, sibling agreement of replay nodes, propositional return facts of the lookup chain, who-may-write census",
    "C09": "static analysis: ordering of argument evaluation against the scope switch, CFG every-iteration-appends rule, assignment facts on SymbolNode.pc_after",
    "C10": "static analysis: path-condition facts of the two expansions in generate_if, range/iteration shape and unconditional-expansion rule in generate_for, parser field binding",
    "C11": "static analysis: byte-level normal form of the record header, CFG rules on the tiling loop (guarded header, advance between records), dominance of the reserved-offset check",
    "C12": "static analysis: option-to-call def-use per format arm, enum/table exhaustiveness, call-chain and bracket (begin/end) dominance, formatted-field normal forms",
    "C13": "static analysis: must-check of the length field before the payload read, fixed-size unpack/read agreement, loop-exit path conditions, plumbing agreement",
    "C14": "static analysis: handler census with disposition classification, CFG reachability from handlers to success exits, error-value consumption, exception-escape obligations over the call graph",
    "C15": "static analysis: per-loop progress (no variant-free cycle in the CFG) and abstract evaluation under the end-of-input state; run-sentinel and backup-balance typestate",
    "C16": "static analysis: taint (token text to case-sensitive key) with .lower() as sanitiser; skip-set and look-ahead facts on the scanner; include-as-block rule",
    "C17": "static analysis: location-argument census of error constructions; typestate 'position read before a newline may be consumed'; single-writer census of line counters and cursor",
    "C18": "static analysis: loop-shape facts of the longest-match codec, regex parse-tree facts, scope-table return facts",
    "C19": "static analysis: effect analysis (stores, mutator calls, class-attribute writes, parameter-mutation summaries over the call graph) against a census of process-lifetime objects; guard dominance in Bus.map/unmap",
}


def main() -> None:
    checks = []
    na = []
    for n in range(1, 21):
        pid = f"C{n:02d}"
        path = os.path.join(HERE, "a816lint", "rules", f"{pid.lower()}.py")
        if pid in NA:
            na.append({"property_id": pid, "reason": NA[pid]})
            continue
        if not os.path.exists(path):
            na.append({"property_id": pid, "reason": "static check for this property is not built yet (work in progress)"})
            continue
        mod = importlib.import_module(f"a816lint.rules.{pid.lower()}")
        tech = getattr(mod, "TECHNIQUE", TECHNIQUE.get(pid, "static analysis: repository-specific AST/CFG rules over /repo's source"))
        if any(r.__name__.startswith("rm_") for r in mod.RULES):
            tech += "; effect analysis of process-lifetime and pass-lifetime results (memoising decorators, module-level stores, mutable defaults, value memos) attributed by ownership"
        if any(r.__name__.startswith("ru_") for r in mod.RULES):
            tech += "; def-use check of locals and own attributes (read but never bound), exceptions built but not raised, token predicates whose result is dropped"
        tech += "; all rules read the source after normalisation against the census of the confirmed commit (new helpers and constants folded back, functions " \
                "equal modulo a canonical form of syntactic rewrites read in their confirmed spelling, changed functions respelled toward it)"
        if pid == "C15":
            tech += "; exponential-ambiguity test of regex literals on their product automaton"
        checks.append({
            "property_id": pid,
            "quick_cmd": f"./check {pid} --tier quick",
            "thorough_cmd": f"./check {pid} --tier thorough",
            "evidence_file": f"evidence/{pid}.json",
            "replay_cmd_template": f"./check {pid} --replay {{path}}",
            "engine": "a816lint",
            "level_claimed": {
                "category": getattr(mod, "LEVEL", "other"),
                "text": getattr(mod, "LEVEL_TEXT", mod.EXPLANATION),
                "design_ref": f"DESIGN.md section 2, {pid}",
            },
            "level_note": getattr(mod, "LEVEL_NOTE", "Trusted base: CPython ast/struct.calcsize, the a816lint engine, the reference "
                                  "data under /verif/refdata. Decides the named structural clauses only; residues listed in the "
                                  "evidence file's assumptions are not decided."),
            "technique": tech,
        })
    manifest = {
        "version": 1,
        "setup_cmd": "true",
        "hooks": {
            "guard": "A816_VERIF",
            "enable": "none needed: the checks read source text only; no hook commits exist in /repo",
            "baseline_off_cmd": "cd /repo && /venv/bin/python -m pytest -ra -q -p no:cacheprovider --timeout=900 --continue-on-collection-errors",
            "source_commits": [],
            "add_only": True,
        },
        "engines": [{
            "name": "a816lint",
            "path": "a816lint/",
            "serves_properties": [c["property_id"] for c in checks],
            "kind_free_text": "repository-specific static analyser: stdlib ast, hand-built statement CFG, literal evaluator, "
                              "callee resolution, effect and exception-escape summaries; never imports or runs a816",
        }],
        "checks": checks,
        "not_applicable": na,
        "notes": "All checks are static: they parse /repo's current working tree on every run. exit 0 = all rule instances hold; "
                 "exit 1 + VIOLATION = a named construct contradicts a rule; exit 2 + ANALYSIS-ERROR = the analysis cannot decide "
                 "(anchor missing / idiom not modelled), never reported as a violation. thorough = quick rules + mutation self-test "
                 "of the rules on scratch copies (removed after use).",
    }
    with open(os.path.join(HERE, "MANIFEST.json"), "w") as f:
        json.dump(manifest, f, indent=1)
        f.write("\n")
    print(f"claimed {len(checks)} not_applicable {len(na)}")


if __name__ == "__main__":
    main()
