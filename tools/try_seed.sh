#!/bin/sh
# tools/try_seed.sh <Cxx> <patch.diff>  : apply the patch to /repo, run the property's quick check, revert. Never commits.
set -u
P="$1"; D="$2"
cd /repo || exit 9
if ! git diff --quiet; then echo "/repo has local changes; refusing"; exit 9; fi
git apply "$D" || { echo "patch does not apply"; exit 9; }
cd /verif && ./check "$P" --tier quick; rc=$?
git -C /repo checkout -- . 
echo "exit=$rc"
exit 0
