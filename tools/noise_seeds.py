#!/usr/bin/env python3
"""tools/noise_seeds.py [--per=3] [--seed=1] [--out=FILE]: development aid.  Detection must survive everyday noise: every archived seeded change is
applied to a throw-away copy, then ONE neutral_sweep transformation is applied inside a function the seed itself changed (so the
equivalence restore of normalize.py cannot hand the rules the reference spelling), and the seed's own property check is run.  Lists the
seeds that are reported without the noise but not with it."""
import ast, json, os, random, shutil, subprocess, sys, tempfile, glob, collections
from concurrent.futures import ThreadPoolExecutor
HERE = os.path.dirname(os.path.dirname(os.path.abspath(__file__)))
sys.path.insert(0, HERE); sys.path.insert(0, os.path.join(HERE, "tools"))
import neutral_sweep as ns
from a816lint.canonical import signatures_of

CORPUS = ns.opt("corpus", "seeded")  # seeded: the own property must still report; neutral: every check must stay silent
PER = int(ns.opt("per", "3")); SEED = int(ns.opt("seed", "1")); OUT = ns.opt("out", "/tmp/dbg/noise.jsonl")
base = tempfile.mkdtemp(prefix="a816noise-base-")
subprocess.run(f"git -C /repo archive HEAD a816 script | tar -x -C {base}", shell=True, check=True)

def functions(tree):
    out = {}
    for st in tree.body:
        if isinstance(st, ast.FunctionDef): out[st.name] = st
        if isinstance(st, ast.ClassDef):
            for m in st.body:
                if isinstance(m, ast.FunctionDef): out[f"{st.name}.{m.name}"] = m
    return out

def load(root):
    trees = {}
    for r, _d, fs in os.walk(root):
        for f in fs:
            rel = os.path.relpath(os.path.join(r, f), root)
            if f.endswith(".py") and (rel.startswith("a816/") or rel == "script/__init__.py"):
                trees[rel] = ast.parse(open(os.path.join(r, f)).read())
    return trees

clean = load(base)

def one(d):
    name = os.path.basename(d)
    m = json.load(open(f"{d}/meta.json"))
    prop = m["property"]
    if CORPUS == "seeded" and m["checks_reporting"].get(prop) != "VIOLATION":
        return name, []
    if CORPUS == "neutral":
        prop = "all"
        if not m.get("result", {}).get("applies"):
            return name, []
    t = tempfile.mkdtemp(prefix="a816noise-")
    res = []
    try:
        for sub in ("a816", "script"):
            shutil.copytree(f"{base}/{sub}", f"{t}/{sub}")
        if subprocess.run(f"patch -s -p1 < {d}/patch.diff", shell=True, cwd=t, capture_output=True).returncode != 0:
            return name, [{"error": "patch"}]
        patched = load(t)
        sig = signatures_of(patched)
        import zlib
        rng = random.Random(zlib.crc32(name.encode()) ^ SEED)
        cands = []
        for rel, tree in patched.items():
            if rel not in clean:
                continue
            ref = {q: ast.dump(f) for q, f in functions(clean[rel]).items()}
            changed = {f.name for q, f in functions(tree).items() if ref.get(q) != ast.dump(f)}
            changed_lines = {q: (f.lineno, f.end_lineno) for q, f in functions(tree).items() if ref.get(q) != ast.dump(f)}
            for path, op, line, fn in ns.sites(tree, sig):
                if any(lo <= line <= hi for lo, hi in changed_lines.values()) and op != "docstring":
                    cands.append((rel, path, op, line, fn))
        rng.shuffle(cands)
        seen_ops = set(); picked = []
        for c in cands:
            if c[2] not in seen_ops:
                picked.append(c); seen_ops.add(c[2])
            if len(picked) >= PER: break
        for rel, path, op, line, fn in picked:
            try:
                r = ns.transform(patched[rel], path, op, rng, sig)
            except Exception as e:
                continue
            if r is None:
                continue
            tr, before, after = r
            v = tempfile.mkdtemp(prefix="a816noise-v-")
            try:
                for sub in ("a816", "script"):
                    shutil.copytree(f"{t}/{sub}", f"{v}/{sub}")
                open(os.path.join(v, rel), "w").write(ast.unparse(tr))
                o = subprocess.run(f"./check {prop} --repo {v}", shell=True, cwd=HERE, capture_output=True, text=True).stdout
                status = "VIOLATION" if "VIOLATION property=" in o else ("ANALYSIS-ERROR" if "ANALYSIS-ERROR" in o else "silent")
                first = next((l for l in o.splitlines() if l.startswith("ANALYSIS-ERROR") or (l[:1] == "C" and l[3:5] == ".R")), "")[:200]
                if CORPUS == "neutral":
                    lines_ = o.splitlines()
                    first = " || ".join(lines_[k - 1][:160] for k, l in enumerate(lines_) if l.startswith("VIOLATION"))
                res.append({"seed": name, "property": prop, "op": op, "file": rel, "function": fn, "line": line, "before": before[:80], "status": status, "first": first})
            finally:
                shutil.rmtree(v, ignore_errors=True)
    finally:
        shutil.rmtree(t, ignore_errors=True)
    return name, res

dirs = [d for d in sorted(glob.glob(f"{HERE}/{CORPUS}/*")) if os.path.isdir(d)]
GOOD = "VIOLATION" if CORPUS == "seeded" else "silent"
cnt = collections.Counter()
os.makedirs(os.path.dirname(OUT), exist_ok=True)
with open(OUT, "w") as fo, ThreadPoolExecutor(max_workers=12) as ex:
    for name, res in ex.map(one, dirs):
        for r in res:
            fo.write(json.dumps(r) + "\n")
            cnt[r.get("status", "error")] += 1
            if r.get("status") != GOOD and not (CORPUS == "neutral" and r.get("status") == "ANALYSIS-ERROR"):
                print(name, r.get("status"), r.get("op"), r.get("function"), "|", r.get("before", "")[:50], "|", r.get("first", "")[:140])
print(dict(cnt))
shutil.rmtree(base)
