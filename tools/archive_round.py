#!/usr/bin/env python3
"""tools/archive_round.py --round=N [Cxx ...]: confirm the sub-agent seeds of one round in the scratch worktree /tmp/seed/verify (demo passes without
the patch; with it the 103 tests still pass and the demo fails) and archive them as /verif/seeded/<prop>-rN-<k>/.  /repo is not touched; the
checks are run afterwards by tools/recheck_seeds.py on throw-away copies."""
import glob, json, os, shutil, subprocess, sys

PY = "/venv/bin/python"
WT = "/tmp/seed/verify"
ROUND = next(a.split("=")[1] for a in sys.argv[1:] if a.startswith("--round="))
only = [a for a in sys.argv[1:] if not a.startswith("--")]

def sh(cmd, cwd=None, timeout=900):
    r = subprocess.run(cmd, shell=True, cwd=cwd, capture_output=True, text=True, timeout=timeout)
    return r.returncode, (r.stdout + r.stderr)

head = sh("git rev-parse --short HEAD", cwd="/repo")[1].strip()
sh("git checkout -q -- . ; git checkout -q --detach " + head, cwd=WT)
names = []
for prop_dir in sorted(glob.glob("/tmp/seed/C[0-9][0-9]")):
    prop = os.path.basename(prop_dir)
    if only and prop not in only:
        continue
    for diff in sorted(glob.glob(f"{prop_dir}/seeds/variant*.diff")):
        k = os.path.basename(diff)[len("variant"):-len(".diff")]
        name = f"{prop}-r{ROUND}-{k}"
        meta = json.load(open(f"{prop_dir}/seeds/variant{k}_meta.json"))
        demo_src = open(f"{prop_dir}/seeds/variant{k}_demo.py").read().replace(prop_dir, "/repo")
        open(f"{WT}/_demo.py", "w").write(demo_src.replace("/repo", WT))
        sh("git checkout -q -- a816 script", cwd=WT)
        rc0, _ = sh(f"timeout 600 {PY} _demo.py", cwd=WT)
        ra, _ = sh(f"git apply {diff}", cwd=WT)
        _, ot = sh(f"{PY} -m pytest -q -p no:cacheprovider --timeout=900 2>&1 | tail -1", cwd=WT)
        rc1, _ = sh(f"timeout 600 {PY} _demo.py", cwd=WT)
        sh("git checkout -q -- a816 script", cwd=WT)
        confirmed = ra == 0 and rc0 == 0 and rc1 != 0 and "103 passed" in ot
        print(name, "confirmed" if confirmed else f"NOT CONFIRMED (apply {ra}, demo {rc0}/{rc1}, tests {ot.strip()[:30]})", flush=True)
        if not confirmed:
            continue
        out = f"/verif/seeded/{name}"
        os.makedirs(out, exist_ok=True)
        open(f"{out}/demo.py", "w").write(demo_src)
        shutil.copy(diff, f"{out}/patch.diff")
        meta.update({"property": prop, "variant": f"r{ROUND}-{k}", "source": f"fresh sub-agent (round {ROUND}) given only the property text and a scratch worktree",
                     "confirmed_at_repo_head": head, "confirmed": True,
                     "what_i_ran": {"tests_with_patch": ot.strip(), "demo_without_patch_exit": rc0, "demo_with_patch_exit": rc1,
                                    "commands": ["git -C <scratch> apply patch.diff", "pytest (103 passed)", "python demo.py (non-zero)", "git checkout -- . ; python demo.py (0)",
                                                 "tools/recheck_seeds.py: patch applied to a throw-away copy of HEAD, ./check all --repo <copy>"]},
                     "checks_reporting": {}, "caught_by_own_property": False})
        json.dump(meta, open(f"{out}/meta.json", "w"), indent=1)
        names.append(name)
os.remove(f"{WT}/_demo.py") if os.path.exists(f"{WT}/_demo.py") else None
print(len(names), "archived")
