#!/usr/bin/env python3
"""tools/mutation_sweep.py [--max N] [--seed S] [--out FILE]

Development aid (NOT one of the registered checks): measure the static checks against generic first-order mutants that the
repository's own tests do not kill.  For every sampled mutation site in a816/ and script/__init__.py:
  1. apply one operator (comparison / arithmetic / boolean swap, integer +-1, dropped `not`, deleted statement, swapped arguments)
     to the AST and write the unparsed module into a throw-away copy of /repo HEAD (a816, script, tests);
  2. run the project's test suite there; a mutant the suite kills is discarded;
  3. run `./check all --repo <copy>` on the survivors and record which properties report it.
Output: one JSON line per surviving mutant (file, function, line, operator, before -> after, reported-by).  Survivors that no check
reports are the list to triage by hand: equivalent mutant, behaviour outside every property, or a blind spot of the rules."""
from __future__ import annotations

import ast
import copy
import json
import os
import random
import shutil
import subprocess
import sys
import tempfile
from concurrent.futures import ThreadPoolExecutor

PY = "/venv/bin/python"
ARGS = sys.argv[1:]
MAX = int(next((a.split("=")[1] for a in ARGS if a.startswith("--max=")), "600"))
SEED = int(next((a.split("=")[1] for a in ARGS if a.startswith("--seed=")), "1"))
OUT = next((a.split("=")[1] for a in ARGS if a.startswith("--out=")), "/tmp/dbg/sweep.jsonl")
ONLY = next((a.split("=")[1] for a in ARGS if a.startswith("--files=")), "")
OPS = next((a.split("=")[1] for a in ARGS if a.startswith("--ops=")), "")


def sh(cmd, cwd=None, timeout=300):
    try:
        r = subprocess.run(cmd, shell=True, cwd=cwd, capture_output=True, text=True, timeout=timeout)
        return r.returncode, r.stdout + r.stderr
    except subprocess.TimeoutExpired:
        return 124, "timeout"


CMP = {ast.Lt: ast.LtE, ast.LtE: ast.Lt, ast.Gt: ast.GtE, ast.GtE: ast.Gt, ast.Eq: ast.NotEq, ast.NotEq: ast.Eq,
       ast.Is: ast.IsNot, ast.IsNot: ast.Is, ast.In: ast.NotIn, ast.NotIn: ast.In}
BIN = {ast.Add: ast.Sub, ast.Sub: ast.Add, ast.LShift: ast.RShift, ast.RShift: ast.LShift, ast.BitAnd: ast.BitOr, ast.BitOr: ast.BitAnd,
       ast.Mult: ast.FloorDiv, ast.FloorDiv: ast.Mult, ast.Mod: ast.FloorDiv}


def sites(tree: ast.Module):
    """yield (path to node as list of (field, index), operator name, line, function)"""
    out = []

    def walk(node, path, fn):
        if isinstance(node, (ast.FunctionDef, ast.AsyncFunctionDef)):
            fn = node.name
        if isinstance(node, ast.Compare) and len(node.ops) == 1 and type(node.ops[0]) in CMP:
            out.append((path, "cmp", node.lineno, fn))
        if isinstance(node, ast.BinOp) and type(node.op) in BIN:
            out.append((path, "bin", node.lineno, fn))
        if isinstance(node, ast.BoolOp):
            out.append((path, "bool", node.lineno, fn))
        if isinstance(node, ast.UnaryOp) and isinstance(node.op, ast.Not):
            out.append((path, "not", node.lineno, fn))
        if isinstance(node, ast.Constant) and isinstance(node.value, int) and not isinstance(node.value, bool):
            out.append((path, "int+1", node.lineno, fn))
            out.append((path, "int-1", node.lineno, fn))
        if isinstance(node, ast.Constant) and isinstance(node.value, bool):
            out.append((path, "boolconst", node.lineno, fn))
        if isinstance(node, (ast.Expr, ast.Assign, ast.AugAssign)) and fn and not (isinstance(node, ast.Expr) and isinstance(node.value, ast.Constant)):
            out.append((path, "del", node.lineno, fn))
        if isinstance(node, ast.Call) and len(node.args) == 2 and not node.keywords and not any(isinstance(a, ast.Starred) for a in node.args):
            out.append((path, "swapargs", node.lineno, fn))
        if isinstance(node, ast.If) and fn:
            out.append((path, "iftrue", node.lineno, fn))
        for field, value in ast.iter_fields(node):
            if isinstance(value, list):
                for i, v in enumerate(value):
                    if isinstance(v, ast.AST):
                        walk(v, path + [(field, i)], fn)
            elif isinstance(value, ast.AST):
                walk(value, path + [(field, None)], fn)

    walk(tree, [], None)
    return out


def get(tree, path):
    node = tree
    for field, i in path:
        node = getattr(node, field)
        if i is not None:
            node = node[i]
    return node


def put(tree, path, new):
    parent = get(tree, path[:-1])
    field, i = path[-1]
    if i is None:
        setattr(parent, field, new)
    else:
        getattr(parent, field)[i] = new


def mutate(tree, path, op):
    t = copy.deepcopy(tree)
    node = get(t, path)
    before = ast.unparse(node)[:80]
    if op == "cmp":
        node.ops = [CMP[type(node.ops[0])]()]
    elif op == "bin":
        node.op = BIN[type(node.op)]()
    elif op == "bool":
        node.op = ast.Or() if isinstance(node.op, ast.And) else ast.And()
    elif op == "not":
        put(t, path, node.operand)
    elif op == "int+1":
        node.value = node.value + 1
    elif op == "int-1":
        node.value = node.value - 1
    elif op == "boolconst":
        node.value = not node.value
    elif op == "del":
        put(t, path, ast.Pass())
    elif op == "swapargs":
        node.args = [node.args[1], node.args[0]]
    elif op == "iftrue":
        node.test = ast.UnaryOp(ast.Not(), node.test)
    after = ast.unparse(get(t, path))[:80] if op != "del" else "pass"
    return t, before, after


def main():
    random.seed(SEED)
    base = tempfile.mkdtemp(prefix="a816sweep-base-")
    sh(f"git -C /repo archive HEAD a816 script tests | tar -x -C {base}")
    files = []
    for root, _d, fs in os.walk(base):
        for f in fs:
            rel = os.path.relpath(os.path.join(root, f), base)
            if f.endswith(".py") and (rel.startswith("a816/") or rel == "script/__init__.py") and "__pycache__" not in rel:
                if not ONLY or any(rel.endswith(x) for x in ONLY.split(",")):
                    files.append(rel)
    cands = []
    trees = {}
    for rel in sorted(files):
        tree = ast.parse(open(os.path.join(base, rel)).read())
        trees[rel] = tree
        for path, op, line, fn in sites(tree):
            if fn in (None, "__str__", "__repr__", "display", "trace", "dump_symbol_map", "_dump_symbols", "to_representation", "to_canonical"):
                continue
            if OPS and op not in OPS.split(","):
                continue
            cands.append((rel, path, op, line, fn))
    random.shuffle(cands)
    cands = cands[:MAX]
    print(f"{len(cands)} mutation sites sampled", flush=True)

    def run(c):
        rel, path, op, line, fn = c
        try:
            t, before, after = mutate(trees[rel], path, op)
            src = ast.unparse(ast.fix_missing_locations(t))
            compile(src, rel, "exec")
        except Exception as e:  # noqa: BLE001
            return None
        if before == after:
            return None
        d = tempfile.mkdtemp(prefix="a816sweep-")
        try:
            for sub in ("a816", "script", "tests"):
                shutil.copytree(f"{base}/{sub}", f"{d}/{sub}")
            open(os.path.join(d, rel), "w").write(src)
            rc, out = sh(f"{PY} -m pytest -q -x -p no:cacheprovider --timeout=30 2>&1 | tail -1", cwd=d, timeout=240)
            if "103 passed" not in out:
                return {"killed": True}
            rc, out = sh(f"./check all --repo {d}", cwd="/verif", timeout=600)
            viol = sorted({l.split("property=")[1].split()[0] for l in out.splitlines() if l.startswith("VIOLATION")})
            err = sorted({l.split("property=")[1].split()[0] for l in out.splitlines() if l.startswith("ANALYSIS-ERROR")})
            return {"file": rel, "function": fn, "line": line, "op": op, "before": before, "after": after, "violations": viol, "analysis_errors": err}
        finally:
            shutil.rmtree(d, ignore_errors=True)

    killed = surv = 0
    os.makedirs(os.path.dirname(OUT), exist_ok=True)
    with open(OUT, "w") as fo, ThreadPoolExecutor(max_workers=10) as ex:
        for r in ex.map(run, cands):
            if r is None:
                continue
            if r.get("killed"):
                killed += 1
                continue
            surv += 1
            fo.write(json.dumps(r) + "\n")
            fo.flush()
    shutil.rmtree(base, ignore_errors=True)
    print(f"killed by tests: {killed}; survivors: {surv}; written to {OUT}")


if __name__ == "__main__":
    main()
