#!/usr/bin/env python3
"""Confirm every sub-agent seed on the current /repo HEAD (scratch worktree /tmp/seed/verify), run the checks against it on /repo
(patch applied, then reverted) and archive it as /verif/seeded/<prop>-<k>/{patch.diff,demo.py,meta.json}."""
import glob, json, os, shutil, subprocess, sys

PY = "/venv/bin/python"
WT = "/tmp/seed/verify"
checks_only = "--checks-only" in sys.argv
ROUND = next((a.split("=")[1] for a in sys.argv[1:] if a.startswith("--round=")), "")
only = [a for a in sys.argv[1:] if not a.startswith("--")]

def sh(cmd, cwd=None, timeout=900):
    r = subprocess.run(cmd, shell=True, cwd=cwd, capture_output=True, text=True, timeout=timeout)
    return r.returncode, (r.stdout + r.stderr)

head = sh("git rev-parse --short HEAD", cwd="/repo")[1].strip()
sh("git checkout -q --detach " + head, cwd=WT)
summary = []
for prop_dir in sorted(glob.glob("/tmp/seed/C[0-9][0-9]")):
    prop = os.path.basename(prop_dir)
    if only and prop not in only:
        continue
    for diff in sorted(glob.glob(f"{prop_dir}/seeds/variant*.diff")):
        k = os.path.basename(diff)[len("variant"):-len(".diff")]
        tagk = f"r{ROUND}-{k}" if ROUND else k
        ported = f"/tmp/seed/ported/{prop}-{tagk}.diff"
        patch = ported if os.path.exists(ported) else diff
        meta = json.load(open(f"{prop_dir}/seeds/variant{k}_meta.json"))
        demo_src = open(f"{prop_dir}/seeds/variant{k}_demo.py").read().replace(prop_dir, "/repo")
        out = f"/verif/seeded/{prop}-{tagk}"
        os.makedirs(out, exist_ok=True)
        open(f"{out}/demo.py", "w").write(demo_src)
        shutil.copy(patch, f"{out}/patch.diff")
        prev = json.load(open(f"{out}/meta.json")) if os.path.exists(f"{out}/meta.json") else None
        if checks_only and prev and prev.get("confirmed_at_repo_head") == head:
            rc0, rc1, ot, ra = prev["what_i_ran"]["demo_without_patch_exit"], prev["what_i_ran"]["demo_with_patch_exit"], prev["what_i_ran"]["tests_with_patch"], 0
            skip_confirm = True
        else:
            skip_confirm = False
        # confirm in the scratch worktree (demo pointed at it)
        open(f"{WT}/_demo.py", "w").write(demo_src.replace("/repo", WT))
        if not skip_confirm:
            sh("git checkout -- a816 script", cwd=WT)
            rc0, o0 = sh(f"timeout 600 {PY} _demo.py", cwd=WT)
            ra, oa = sh(f"git apply {patch}", cwd=WT)
            rt, ot = sh(f"{PY} -m pytest -q -p no:cacheprovider --timeout=900 2>&1 | tail -1", cwd=WT)
            rc1, o1 = sh(f"timeout 600 {PY} _demo.py", cwd=WT)
            sh("git checkout -- a816 script", cwd=WT)
        confirmed = ra == 0 and rc0 == 0 and rc1 != 0 and "103 passed" in ot
        # checks on /repo
        assert sh("git diff --quiet", cwd="/repo")[0] == 0, "/repo dirty"
        res = {}
        if sh(f"git apply {patch}", cwd="/repo")[0] == 0:
            try:
                rc, o = sh("./check all --tier quick", cwd="/verif")
                for line in o.splitlines():
                    if line.startswith("VIOLATION"):
                        res.setdefault(line.split("property=")[1].split()[0], "VIOLATION")
                    if line.startswith("ANALYSIS-ERROR"):
                        res.setdefault(line.split("property=")[1].split()[0], "ANALYSIS-ERROR")
                first = {}
                for line in o.splitlines():
                    for p2 in res:
                        if line.startswith(p2 + ".R") and p2 not in first:
                            first[p2] = line[:220]
            finally:
                sh("git checkout -- .", cwd="/repo")
        meta_out = {
            "property": prop, "variant": tagk, "summary": meta.get("summary"), "needs": meta.get("needs"), "files": meta.get("files"),
            "source": "fresh sub-agent given only the property text and a scratch worktree" + (" (patch re-based by hand onto the later fix: commits)" if patch == ported else ""),
            "confirmed_at_repo_head": head,
            "what_i_ran": {
                "tests_with_patch": ot.strip(), "demo_without_patch_exit": rc0, "demo_with_patch_exit": rc1,
                "commands": [f"git -C <scratch> apply patch.diff", "pytest (103 passed)", "python demo.py (non-zero)", "git checkout -- . ; python demo.py (0)",
                             "git -C /repo apply patch.diff ; ./check all ; git -C /repo checkout -- ."],
            },
            "confirmed": confirmed,
            "checks_reporting": res,
            "first_report": first if res else {},
            "caught_by_own_property": res.get(prop) == "VIOLATION",
        }
        json.dump(meta_out, open(f"{out}/meta.json", "w"), indent=1)
        summary.append((f"{prop}-{tagk}", confirmed, res.get(prop), sorted(p for p, v in res.items() if v == "VIOLATION" and p != prop)))
        print(f"{prop}-{tagk}", "confirmed" if confirmed else f"NOT-CONFIRMED(rc0={rc0},rc1={rc1},{ot.strip()[:30]})", "own:", res.get(prop), "others:", sorted(p for p, v in res.items() if p != prop), flush=True)
if os.path.exists(f"{WT}/_demo.py"):
    os.remove(f"{WT}/_demo.py")
