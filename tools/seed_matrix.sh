#!/bin/sh
# tools/seed_matrix.sh <seed dir names...> : which properties report each seed (on a throw-away copy)
for s in "$@"; do
  out=$(tools/try_on_copy.sh all seeded/$s/patch.diff 2>&1)
  v=$(echo "$out" | grep -E "violations=[1-9]" | cut -d' ' -f1 | tr '\n' ' ')
  e=$(echo "$out" | grep -E "analysis_errors=[1-9]" | cut -d' ' -f1 | tr '\n' ' ')
  echo "$s V:[$v] E:[$e]"
done
