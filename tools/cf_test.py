#!/usr/bin/env python3
"""tools/cf_test.py [--ops=..] [--max=N]: development aid. Applies every neutral_sweep operator at every site of /repo HEAD and checks that the
canonical form (a816lint/canonical.py) of the enclosing top-level function / method is unchanged.  Prints the sites where it differs."""
import ast, os, random, subprocess, sys, tempfile, collections
HERE = os.path.dirname(os.path.dirname(os.path.abspath(__file__)))
sys.path.insert(0, HERE); sys.path.insert(0, os.path.join(HERE, "tools"))
import neutral_sweep as ns
from a816lint.canonical import canonical_hash, canonical_function, signatures_of

base = tempfile.mkdtemp(prefix="a816cf-")
subprocess.run(f"git -C /repo archive HEAD a816 script | tar -x -C {base}", shell=True, check=True)
trees = {}
for root, _d, fs in os.walk(base):
    for f in fs:
        rel = os.path.relpath(os.path.join(root, f), base)
        if f.endswith(".py") and (rel.startswith("a816/") or rel == "script/__init__.py"):
            trees[rel] = ast.parse(open(os.path.join(root, f)).read())
sig = signatures_of(trees)

def top_functions(tree):
    out = {}
    for st in tree.body:
        if isinstance(st, ast.FunctionDef):
            out[st.name] = st
        if isinstance(st, ast.ClassDef):
            for m in st.body:
                if isinstance(m, ast.FunctionDef):
                    out[f"{st.name}.{m.name}"] = m
    return out

tot = bad = 0
per = collections.Counter(); perbad = collections.Counter()
show = int(ns.opt("show", "40"))
for rel, tree in sorted(trees.items()):
    ref = {q: canonical_hash(f, sig) for q, f in top_functions(tree).items()}
    for path, op, line, fn in ns.sites(tree, sig):
        if ns.OPS and op not in ns.OPS.split(","):
            continue
        try:
            r = ns.transform(tree, path, op, random.Random(line), sig)
        except Exception as e:
            print("transform error", rel, line, op, e); continue
        if r is None:
            continue
        t, before, after = r
        cur = top_functions(t)
        diff = [q for q in ref if q in cur and canonical_hash(cur[q], sig) != ref[q]]
        tot += 1; per[op] += 1
        if diff:
            bad += 1; perbad[op] += 1
            if bad <= show:
                print(f"DIFF {op} {rel}:{line} {diff} | {before[:70]!r}")
print(f"{tot} transformed sites, {bad} with a different canonical form")
for op in sorted(per): print(f"  {op}: {per[op]-perbad[op]}/{per[op]} recognised")
import shutil; shutil.rmtree(base)
