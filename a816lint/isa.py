"""Reference 65c816 matrix -> the assembler's (mnemonic, mode, index, width) vocabulary."""
from __future__ import annotations

import os

from .core import AnalysisError

HERE = os.path.dirname(os.path.dirname(os.path.abspath(__file__)))

# isa mode -> list of (assembler addressing mode name, index, width)
MODE_MAP: dict[str, list[tuple[str, str | None, str]]] = {
    "imp": [("none", None, "implied")],
    "acc": [("none", None, "implied")],
    "imm8": [("immediate", None, "b")],
    "immM": [("immediate", None, "b"), ("immediate", None, "w")],
    "immX": [("immediate", None, "b"), ("immediate", None, "w")],
    "dp": [("direct", None, "b")],
    "abs": [("direct", None, "w")],
    "long": [("direct", None, "l")],
    "dpx": [("direct_indexed", "x", "b")],
    "absx": [("direct_indexed", "x", "w")],
    "longx": [("direct_indexed", "x", "l")],
    "dpy": [("direct_indexed", "y", "b")],
    "absy": [("direct_indexed", "y", "w")],
    "srs": [("direct_indexed", "s", "b")],
    "ind_dp": [("indirect", None, "b")],
    "ind_abs": [("indirect", None, "w")],
    "ind_dp_y": [("indirect_indexed", "y", "b")],
    "indl_dp": [("indirect_long", None, "b")],
    "indl_abs": [("indirect_long", None, "w")],
    "indl_dp_y": [("indirect_indexed_long", "y", "b")],
    "ind_dp_x": [("dp_or_sr_indirect_indexed", "x", "b")],
    "ind_abs_x": [("dp_or_sr_indirect_indexed", "x", "w")],
    "sr_ind_y": [("stack_indexed_indirect_indexed", "y", "b")],
    "rel": [("direct", None, "rel")],
    "rel16": [],  # brl / per: 16-bit relative, no shape in this assembler
    "blk": [],  # mvn / mvp: two operands, no shape in this assembler
}
# the assembler spells jsl/jml as jsr.l / jmp.l / jmp [abs]
ALIASES = {"jsl": "jsr", "jml": "jmp"}


def load_isa() -> tuple[dict[tuple[str, str, str | None, str], int], int]:
    path = os.path.join(HERE, "refdata", "isa_65c816.txt")
    table: dict[tuple[str, str, str | None, str], int] = {}
    seen_bytes: set[int] = set()
    with open(path) as f:
        for line in f:
            line = line.split("#")[0].strip()
            if not line:
                continue
            b, mn, mode = line.split()
            byte = int(b, 16)
            if byte in seen_bytes:
                raise AnalysisError(f"reference ISA lists byte {b} twice")
            seen_bytes.add(byte)
            if mode not in MODE_MAP:
                raise AnalysisError(f"reference ISA: unknown mode {mode}")
            for names in {mn, ALIASES.get(mn, mn)}:
                for am, idx, width in MODE_MAP[mode]:
                    key = (names, am, idx, width)
                    if key in table and table[key] != byte:
                        raise AnalysisError(f"reference ISA: {key} has two bytes")
                    table[key] = byte
    if seen_bytes != set(range(256)):
        raise AnalysisError("reference ISA does not list all 256 opcodes exactly once")
    return table, len(seen_bytes)
