"""Callee resolution and call graph over the parsed repository (annotation-driven, class-hierarchy analysis)."""
from __future__ import annotations

import ast
from dataclasses import dataclass, field
from typing import Iterable

from .core import AnalysisError, ClassInfo, FunctionInfo, ModuleInfo, Repo, call_name, dotted, method_body_is_stub, unparse, walk_no_nested

BUILTIN_METHODS = {
    "append", "extend", "pop", "get", "items", "keys", "values", "join", "split", "lower", "upper", "replace", "startswith",
    "endswith", "encode", "decode", "format", "strip", "read", "write", "seek", "peek", "readlines", "close", "update",
    "setdefault", "add", "clear", "copy", "index", "count", "insert", "remove", "sort", "reverse", "ljust", "rjust",
    "bit_length", "group", "match", "info", "error", "warning", "exception", "debug", "add_argument", "parse_args",
    "to_bytes", "from_bytes", "hex", "isdigit", "find",
}


def ann_classes(repo: Repo, mi: ModuleInfo, ann: ast.AST | None) -> set[str]:
    """Class names mentioned in an annotation (handles strings, unions, Optional, list[...] wrappers -> element for containers is NOT taken)."""
    if ann is None:
        return set()
    if isinstance(ann, ast.Constant) and isinstance(ann.value, str):
        try:
            return ann_classes(repo, mi, ast.parse(ann.value, mode="eval").body)
        except SyntaxError:
            return set()
    if isinstance(ann, ast.Name):
        r = repo.resolve_name(mi, ann.id)
        if r and r[0] == "class":
            return {r[1].name}  # type: ignore[union-attr]
        if r is None:
            c = repo.find_class(ann.id)
            return {c.name} if c else set()
        return set()
    if isinstance(ann, ast.BinOp) and isinstance(ann.op, ast.BitOr):
        return ann_classes(repo, mi, ann.left) | ann_classes(repo, mi, ann.right)
    if isinstance(ann, ast.Subscript):
        base = dotted(ann.value) or ""
        if base.split(".")[-1] in ("Optional", "Union"):
            inner = ann.slice
            elts = inner.elts if isinstance(inner, ast.Tuple) else [inner]
            out: set[str] = set()
            for e in elts:
                out |= ann_classes(repo, mi, e)
            return out
        return set()
    if isinstance(ann, ast.Attribute):
        c = repo.find_class(ann.attr)
        return {c.name} if c else set()
    return set()


def ann_element_classes(repo: Repo, mi: ModuleInfo, ann: ast.AST | None) -> set[str]:
    """Element classes of list[X] / dict[K, X] annotations."""
    if isinstance(ann, ast.Constant) and isinstance(ann.value, str):
        try:
            return ann_element_classes(repo, mi, ast.parse(ann.value, mode="eval").body)
        except SyntaxError:
            return set()
    if isinstance(ann, ast.Subscript) and (dotted(ann.value) or "").split(".")[-1] in ("list", "List", "dict", "Dict", "Sequence", "Iterable"):
        inner = ann.slice
        last = inner.elts[-1] if isinstance(inner, ast.Tuple) else inner
        return ann_classes(repo, mi, last)
    return set()


@dataclass
class CallSite:
    caller: FunctionInfo
    node: ast.Call
    targets: list[FunctionInfo]
    external: str | None = None
    how: str = ""


class Resolver:
    def __init__(self, repo: Repo) -> None:
        self.repo = repo
        self._attr_types: dict[tuple[str, str], set[str]] = {}
        self._attr_elem: dict[tuple[str, str], set[str]] = {}
        self._class_by_name = {c.name: c for c in repo.all_classes()}
        self._collect_attr_types()
        self.sites: dict[str, list[CallSite]] = {}
        self.by_fq: dict[str, FunctionInfo] = {f.fq: f for f in repo.all_functions()}
        self._ctor_args_cache: dict[tuple[str, int | str], list[FunctionInfo]] = {}
        for fn in repo.all_functions():
            self.sites[fn.fq] = self._resolve_function(fn)

    # ---------------------------------------------------------------- attribute types
    def _collect_attr_types(self) -> None:
        repo = self.repo
        for ci in repo.all_classes():
            for st in ci.node.body:
                if isinstance(st, ast.AnnAssign) and isinstance(st.target, ast.Name):
                    self._attr_types.setdefault((ci.name, st.target.id), set()).update(ann_classes(repo, ci.module, st.annotation))
                    self._attr_elem.setdefault((ci.name, st.target.id), set()).update(ann_element_classes(repo, ci.module, st.annotation))
            for m in ci.methods.values():
                penv = self._param_types(m)
                for n in walk_no_nested(m.node):
                    tgt = val = ann = None
                    if isinstance(n, ast.Assign) and len(n.targets) == 1:
                        tgt, val = n.targets[0], n.value
                    elif isinstance(n, ast.AnnAssign):
                        tgt, val, ann = n.target, n.value, n.annotation
                    if isinstance(tgt, ast.Attribute) and isinstance(tgt.value, ast.Name) and tgt.value.id == "self":
                        key = (ci.name, tgt.attr)
                        if ann is not None:
                            self._attr_types.setdefault(key, set()).update(ann_classes(repo, ci.module, ann))
                            self._attr_elem.setdefault(key, set()).update(ann_element_classes(repo, ci.module, ann))
                        if isinstance(val, ast.Call):
                            cn = call_name(val)
                            if cn:
                                r = repo.resolve_name(ci.module, cn.split(".")[-1]) if "." not in cn else None
                                if r and r[0] == "class":
                                    self._attr_types.setdefault(key, set()).add(r[1].name)  # type: ignore[union-attr]
                        if isinstance(val, ast.Name) and val.id in penv:
                            self._attr_types.setdefault(key, set()).update(penv[val.id])
                        if isinstance(val, ast.BoolOp):
                            for v in val.values:
                                if isinstance(v, ast.Name) and v.id in penv:
                                    self._attr_types.setdefault(key, set()).update(penv[v.id])
                                if isinstance(v, ast.Call) and (cn := call_name(v)) and "." not in cn:
                                    r = repo.resolve_name(ci.module, cn)
                                    if r and r[0] == "class":
                                        self._attr_types.setdefault(key, set()).add(r[1].name)  # type: ignore[union-attr]

    def attr_type(self, cls: str, attr: str) -> set[str]:
        ci = self._class_by_name.get(cls)
        if ci is None:
            return set()
        out: set[str] = set()
        for c in self.repo.mro(ci):
            out |= self._attr_types.get((c.name, attr), set())
        return out

    def attr_elem(self, cls: str, attr: str) -> set[str]:
        ci = self._class_by_name.get(cls)
        if ci is None:
            return set()
        out: set[str] = set()
        for c in self.repo.mro(ci):
            out |= self._attr_elem.get((c.name, attr), set())
        return out

    def _param_types(self, fn: FunctionInfo) -> dict[str, set[str]]:
        env: dict[str, set[str]] = {}
        a = fn.node.args
        allargs = a.posonlyargs + a.args + a.kwonlyargs
        for i, p in enumerate(allargs):
            if i == 0 and fn.cls is not None and not fn.is_static() and p.arg in ("self", "cls"):
                env[p.arg] = {fn.cls.name}
            else:
                env[p.arg] = ann_classes(self.repo, fn.module, p.annotation)
        return env

    # ---------------------------------------------------------------- expression types
    def local_types(self, fn: FunctionInfo) -> dict[str, set[str]]:
        env = self._param_types(fn)
        for _ in range(2):
            for n in walk_no_nested(fn.node):
                if isinstance(n, ast.Assign) and len(n.targets) == 1 and isinstance(n.targets[0], ast.Name):
                    env.setdefault(n.targets[0].id, set()).update(self.expr_type(fn, n.value, env))
                elif isinstance(n, ast.AnnAssign) and isinstance(n.target, ast.Name):
                    env.setdefault(n.target.id, set()).update(ann_classes(self.repo, fn.module, n.annotation))
                elif isinstance(n, ast.For) and isinstance(n.target, ast.Name):
                    env.setdefault(n.target.id, set()).update(self.elem_type(fn, n.iter, env))
                elif isinstance(n, ast.withitem) and isinstance(n.optional_vars, ast.Name):
                    env.setdefault(n.optional_vars.id, set())
        return env

    def elem_type(self, fn: FunctionInfo, node: ast.AST, env: dict[str, set[str]]) -> set[str]:
        if isinstance(node, ast.Attribute):
            out: set[str] = set()
            for c in self.expr_type(fn, node.value, env):
                out |= self.attr_elem(c, node.attr)
            return out
        if isinstance(node, ast.Name):
            # parameter annotated list[X]
            a = fn.node.args
            for p in a.posonlyargs + a.args + a.kwonlyargs:
                if p.arg == node.id:
                    return ann_element_classes(self.repo, fn.module, p.annotation)
        return set()

    def expr_type(self, fn: FunctionInfo, node: ast.AST, env: dict[str, set[str]]) -> set[str]:
        if isinstance(node, ast.Name):
            return set(env.get(node.id, set()))
        if isinstance(node, ast.Attribute):
            out: set[str] = set()
            for c in self.expr_type(fn, node.value, env):
                out |= self.attr_type(c, node.attr)
                ci = self._class_by_name.get(c)
                if ci:
                    m = self.repo.lookup_method(ci, node.attr)
                    if m is not None and m.is_property():
                        out |= ann_classes(self.repo, m.module, m.node.returns)
            return out
        if isinstance(node, ast.Call):
            cn = call_name(node)
            if cn and "." not in cn:
                r = self.repo.resolve_name(fn.module, cn)
                if r and r[0] == "class":
                    return {r[1].name}  # type: ignore[union-attr]
                if r and r[0] == "func":
                    f: FunctionInfo = r[1]  # type: ignore[assignment]
                    return ann_classes(self.repo, f.module, f.node.returns)
                if cn == "cast" and len(node.args) == 2:
                    return ann_classes(self.repo, fn.module, node.args[0])
            if isinstance(node.func, ast.Attribute):
                out = set()
                for c in self.expr_type(fn, node.func.value, env):
                    ci = self._class_by_name.get(c)
                    if ci:
                        m = self.repo.lookup_method(ci, node.func.attr)
                        if m is not None:
                            out |= ann_classes(self.repo, m.module, m.node.returns)
                return out
        if isinstance(node, ast.Subscript):
            return self.elem_type(fn, node.value, env)
        if isinstance(node, ast.BoolOp):
            out = set()
            for v in node.values:
                out |= self.expr_type(fn, v, env)
            return out
        if isinstance(node, ast.IfExp):
            return self.expr_type(fn, node.body, env) | self.expr_type(fn, node.orelse, env)
        return set()

    # ---------------------------------------------------------------- call resolution
    def _methods_named(self, name: str) -> list[FunctionInfo]:
        return [c.methods[name] for c in self.repo.all_classes() if name in c.methods and not method_body_is_stub(c.methods[name])]

    def _dispatch(self, ci: ClassInfo, name: str) -> list[FunctionInfo]:
        """method `name` on a receiver statically typed `ci`: its own (inherited) implementation plus every override in subclasses."""
        out: list[FunctionInfo] = []
        m = self.repo.lookup_method(ci, name)
        if m is not None and not method_body_is_stub(m):
            out.append(m)
        for sub in self.repo.subclasses(ci):
            if name in sub.methods and not method_body_is_stub(sub.methods[name]) and sub.methods[name] not in out:
                out.append(sub.methods[name])
        return out

    def _callable_values(self, fn: FunctionInfo, expr: ast.AST, depth: int = 0) -> list[FunctionInfo] | None:
        """Functions a callable-valued expression may denote."""
        repo = self.repo
        if depth > 4:
            return None
        if isinstance(expr, ast.Call) and call_name(expr) == "cast" and len(expr.args) == 2:
            return self._callable_values(fn, expr.args[1], depth + 1)
        if isinstance(expr, ast.Name):
            r = repo.resolve_name(fn.module, expr.id)
            if r and r[0] == "func":
                return [r[1]]  # type: ignore[list-item]
            if r and r[0] == "class":
                init = repo.lookup_method(r[1], "__init__")  # type: ignore[arg-type]
                return [init] if init else []
            # local variable
            vals: list[FunctionInfo] = []
            found = False
            for n in walk_no_nested(fn.node):
                if isinstance(n, ast.Assign) and any(isinstance(t, ast.Name) and t.id == expr.id for t in n.targets):
                    v = self._callable_values(fn, n.value, depth + 1)
                    if v is None:
                        return None
                    vals += v
                    found = True
            # parameter: all call sites' arguments (constructor/function)
            if not found and expr.id in fn.params():
                return self._param_callables(fn, expr.id)
            return vals if found else None
        if isinstance(expr, ast.Call) and isinstance(expr.func, ast.Attribute) and expr.func.attr == "get" or isinstance(expr, ast.Subscript):
            base = expr.func.value if isinstance(expr, ast.Call) else expr.value  # type: ignore[union-attr]
            if isinstance(base, ast.Name):
                r = repo.resolve_name(fn.module, base.id)
                if r and r[0] == "global":
                    mi, nm = r[1]  # type: ignore[misc]
                    d = mi.assigns.get(nm)
                    if isinstance(d, ast.Dict):
                        out = []
                        for v in d.values:
                            if isinstance(v, ast.Name):
                                rr = repo.resolve_name(mi, v.id)
                                if rr and rr[0] == "func":
                                    out.append(rr[1])
                        return out  # type: ignore[return-value]
            return None
        if isinstance(expr, ast.Attribute) and isinstance(expr.value, ast.Name) and expr.value.id == "self" and fn.cls is not None:
            vals = []
            found = False
            for m in fn.cls.methods.values():
                for n in walk_no_nested(m.node):
                    if isinstance(n, (ast.Assign, ast.AnnAssign)):
                        tgts = n.targets if isinstance(n, ast.Assign) else [n.target]
                        if any(isinstance(t, ast.Attribute) and unparse(t) == unparse(expr) for t in tgts) and n.value is not None:
                            if isinstance(n.value, ast.Constant) and n.value.value is None:
                                continue
                            v = self._callable_values(m, n.value, depth + 1)
                            if v is None:
                                return None
                            vals += v
                            found = True
            return vals if found else None
        if isinstance(expr, ast.IfExp):
            a, b = self._callable_values(fn, expr.body, depth + 1), self._callable_values(fn, expr.orelse, depth + 1)
            return None if a is None or b is None else a + b
        return None

    def _param_callables(self, fn: FunctionInfo, param: str) -> list[FunctionInfo] | None:
        """Values passed for `param` of fn at every call site in the repo (functions only)."""
        params = fn.params()
        pos = params.index(param)
        is_init = fn.cls is not None and fn.name == "__init__"
        if fn.cls is not None and not fn.is_static():
            pos -= 1
        out: list[FunctionInfo] = []
        for caller in self.repo.all_functions():
            for c in [n for n in walk_no_nested(caller.node) if isinstance(n, ast.Call)]:
                cn = call_name(c)
                if cn is None:
                    continue
                hit = False
                if is_init and cn == fn.cls.name:  # type: ignore[union-attr]
                    hit = True
                elif not is_init and cn.split(".")[-1] == fn.name:
                    hit = True
                if not hit:
                    continue
                arg = c.args[pos] if len(c.args) > pos else next((k.value for k in c.keywords if k.arg == param), None)
                if arg is None:
                    continue
                v = self._callable_values(caller, arg, 1)
                if v is None:
                    return None
                out += v
        return out

    def _resolve_function(self, fn: FunctionInfo) -> list[CallSite]:
        repo = self.repo
        env = self.local_types(fn)
        out: list[CallSite] = []
        for c in [n for n in walk_no_nested(fn.node) if isinstance(n, ast.Call)]:
            f = c.func
            if isinstance(f, ast.Name):
                r = repo.resolve_name(fn.module, f.id)
                if r and r[0] == "func":
                    out.append(CallSite(fn, c, [r[1]], how="name"))  # type: ignore[list-item]
                elif r and r[0] == "class":
                    init = repo.lookup_method(r[1], "__init__")  # type: ignore[arg-type]
                    out.append(CallSite(fn, c, [init] if init else [], how="ctor:" + r[1].name))  # type: ignore[union-attr]
                elif r and r[0] == "external":
                    out.append(CallSite(fn, c, [], external=str(r[1]), how="external"))
                elif r is None and (f.id in env or any(isinstance(n, ast.Assign) and any(isinstance(t, ast.Name) and t.id == f.id for t in n.targets) for n in walk_no_nested(fn.node))):
                    v = self._callable_values(fn, f)
                    out.append(CallSite(fn, c, v or [], how="callable-var" if v is not None else "unresolved-var"))
                else:
                    out.append(CallSite(fn, c, [], external=f.id, how="builtin"))
                continue
            if isinstance(f, ast.Attribute):
                d = dotted(f)
                # super().m()
                if isinstance(f.value, ast.Call) and call_name(f.value) == "super" and fn.cls is not None:
                    tgt = None
                    for base in repo.mro(fn.cls)[1:]:
                        if f.attr in base.methods:
                            tgt = base.methods[f.attr]
                            break
                    out.append(CallSite(fn, c, [tgt] if tgt and not method_body_is_stub(tgt) else [], how="super"))
                    continue
                # module.function
                if isinstance(f.value, ast.Name):
                    r = repo.resolve_name(fn.module, f.value.id)
                    if r and r[0] == "module":
                        modname = str(r[1])
                        if modname in repo.modules and f.attr in repo.modules[modname].functions:
                            out.append(CallSite(fn, c, [repo.modules[modname].functions[f.attr]], how="module-attr"))
                        else:
                            out.append(CallSite(fn, c, [], external=f"{modname}.{f.attr}", how="external"))
                        continue
                    if r and r[0] == "class":
                        m = repo.lookup_method(r[1], f.attr)  # type: ignore[arg-type]
                        out.append(CallSite(fn, c, [m] if m else [], how="class-attr"))
                        continue
                types = self.expr_type(fn, f.value, env)
                targets: list[FunctionInfo] = []
                for t in sorted(types):
                    ci = self._class_by_name.get(t)
                    if ci:
                        for m in self._dispatch(ci, f.attr):
                            if m not in targets:
                                targets.append(m)
                if targets:
                    out.append(CallSite(fn, c, targets, how="typed"))
                    continue
                # callable-valued attribute (self.state(...))
                v = self._callable_values(fn, f) if (isinstance(f.value, ast.Name) and f.value.id == "self") else None
                if v:
                    out.append(CallSite(fn, c, v, how="callable-attr"))
                    continue
                if types:
                    # typed receiver without such a method in the repo: attribute of an external type
                    out.append(CallSite(fn, c, [], external=d or f.attr, how="external-method"))
                    continue
                named = self._methods_named(f.attr)
                if named and f.attr not in BUILTIN_METHODS:
                    out.append(CallSite(fn, c, named, how="by-name"))
                else:
                    out.append(CallSite(fn, c, [], external=d or f.attr, how="external-method"))
                continue
            out.append(CallSite(fn, c, [], external=unparse(f)[:40], how="dynamic"))
        return out

    # ---------------------------------------------------------------- graph queries
    def callees(self, fq: str) -> list[FunctionInfo]:
        seen: list[FunctionInfo] = []
        for s in self.sites.get(fq, []):
            for t in s.targets:
                if t not in seen:
                    seen.append(t)
        return seen

    def reachable_from(self, roots: Iterable[str]) -> set[str]:
        seen: set[str] = set()
        stack = list(roots)
        while stack:
            f = stack.pop()
            if f in seen:
                continue
            seen.add(f)
            # nested defs / property access are not followed
            for t in self.callees(f):
                if t.fq not in seen:
                    stack.append(t.fq)
        return seen

    def stats(self) -> dict[str, int]:
        d: dict[str, int] = {}
        for sites in self.sites.values():
            for s in sites:
                d[s.how.split(":")[0]] = d.get(s.how.split(":")[0], 0) + 1
        return d


def get_resolver(repo: Repo) -> Resolver:
    r = getattr(repo, "_resolver", None)
    if r is None:
        r = Resolver(repo)
        repo._resolver = r  # type: ignore[attr-defined]
    return r
