from __future__ import annotations

import argparse
import os
import sys

from .engine import ALL_PROPS, run_check, run_replay


def main() -> int:
    ap = argparse.ArgumentParser(prog="check")
    ap.add_argument("prop")
    ap.add_argument("--tier", default=os.environ.get("VERIF_TIER") or "quick", choices=["quick", "thorough"])
    ap.add_argument("--replay")
    ap.add_argument("--repo", default=os.environ.get("A816_REPO", "/repo"))
    a = ap.parse_args()
    props = ALL_PROPS if a.prop == "all" else [a.prop.upper()]
    rc = 0
    for p in props:
        if p not in ALL_PROPS:
            print(f"ANALYSIS-ERROR property={p} unknown property id")
            return 2
        try:
            if a.replay:
                r = run_replay(p, a.replay, a.repo)
            else:
                r = run_check(p, a.repo, a.tier, selftest=True)
        except Exception as e:  # noqa: BLE001
            import traceback
            traceback.print_exc()
            print(f"ANALYSIS-ERROR property={p} internal error {type(e).__name__}: {e}")
            r = 2
        rc = max(rc, r) if r != 1 else 1 if rc != 1 else 1
        if r == 1:
            rc = 1
    return rc


if __name__ == "__main__":
    sys.exit(main())
