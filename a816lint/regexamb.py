"""Exponential ambiguity (EDA) of a regular expression literal, decided on its automaton.

A backtracking matcher tries every distinct path of the pattern's NFA before it reports a failed match.  When the NFA has a state
q and a word w with two different q->q paths labelled w (EDA, Weber & Seidl 1991), the number of paths on w^n grows as 2^n: a line
of a few dozen such characters followed by anything that makes the match fail keeps the matcher busy for longer than any timeout.
The test is the classical one: in the product automaton A x A, some strongly connected component holds a diagonal pair (q, q)
and an off-diagonal pair (p, p').

The pattern is parsed with the standard library's own regex parser (re._parser); nothing of the analysed repository is run.
Unsupported constructs (back-references, look-around, conditionals) raise Unsupported."""
from __future__ import annotations

import re

try:  # Python 3.11+
    import re._parser as sre_parse  # type: ignore[import-not-found]
    import re._constants as sre_c  # type: ignore[import-not-found]
except ImportError:  # pragma: no cover
    import sre_parse  # type: ignore[no-redef]
    import sre_constants as sre_c  # type: ignore[no-redef]


class Unsupported(Exception):
    pass


ALPHABET = [chr(i) for i in range(128)] + ["é", "あ"]
EXPAND_LIMIT = 12


def _category(cat, ch: str) -> bool:
    name = str(cat)
    neg = "NOT_" in name
    if "DIGIT" in name:
        r = ch.isdigit()
    elif "SPACE" in name:
        r = ch.isspace()
    elif "WORD" in name:
        r = ch.isalnum() or ch == "_"
    elif "LINEBREAK" in name:
        r = ch == "\n"
    else:
        raise Unsupported(f"category {name}")
    return (not r) if neg else r


def _in_pred(items, flags: int):
    negate = False
    tests = []
    for op, av in items:
        if op is sre_c.NEGATE:
            negate = True
        elif op is sre_c.LITERAL:
            tests.append(lambda ch, av=av: ord(ch) == av)
        elif op is sre_c.RANGE:
            tests.append(lambda ch, av=av: av[0] <= ord(ch) <= av[1])
        elif op is sre_c.CATEGORY:
            tests.append(lambda ch, av=av: _category(av, ch))
        else:
            raise Unsupported(f"class item {op}")
    ic = bool(flags & re.IGNORECASE)

    def pred(ch: str) -> bool:
        cands = {ch, ch.lower(), ch.upper()} if ic else {ch}
        r = any(t(c) for t in tests for c in cands)
        return (not r) if negate else r

    return pred


class NFA:
    def __init__(self) -> None:
        self.eps: list[set[int]] = []
        self.trans: list[list[tuple[object, int]]] = []

    def new(self) -> int:
        self.eps.append(set())
        self.trans.append([])
        return len(self.eps) - 1


def _build(nfa: NFA, seq, flags: int, start: int) -> int:
    """append the automaton of `seq` after state `start`; return its end state"""
    cur = start
    for op, av in seq:
        if op is sre_c.LITERAL:
            nxt = nfa.new()
            if flags & re.IGNORECASE:
                nfa.trans[cur].append((lambda ch, av=av: ord(ch.lower()) == ord(chr(av).lower()), nxt))
            else:
                nfa.trans[cur].append((lambda ch, av=av: ord(ch) == av, nxt))
            cur = nxt
        elif op is sre_c.NOT_LITERAL:
            nxt = nfa.new()
            nfa.trans[cur].append((lambda ch, av=av: ord(ch) != av, nxt))
            cur = nxt
        elif op is sre_c.ANY:
            nxt = nfa.new()
            dotall = bool(flags & re.DOTALL)
            nfa.trans[cur].append((lambda ch, d=dotall: d or ch != "\n", nxt))
            cur = nxt
        elif op is sre_c.IN:
            nxt = nfa.new()
            nfa.trans[cur].append((_in_pred(av, flags), nxt))
            cur = nxt
        elif op is sre_c.BRANCH:
            end = nfa.new()
            for alt in av[1]:
                s = nfa.new()
                nfa.eps[cur].add(s)
                e = _build(nfa, alt, flags, s)
                nfa.eps[e].add(end)
            cur = end
        elif op is sre_c.SUBPATTERN:
            sub = av[-1]
            cur = _build(nfa, sub, flags, cur)
        elif op in (sre_c.MAX_REPEAT, sre_c.MIN_REPEAT) or str(op) == "POSSESSIVE_REPEAT":
            lo, hi, sub = av
            if str(op) == "POSSESSIVE_REPEAT":
                raise Unsupported("possessive repeat")
            if lo > EXPAND_LIMIT or (hi is not sre_c.MAXREPEAT and hi > EXPAND_LIMIT):
                raise Unsupported(f"counted repeat {{{lo},{hi}}} too large to expand")
            for _ in range(lo):
                cur = _build(nfa, sub, flags, cur)
            if hi is sre_c.MAXREPEAT:
                s = nfa.new()
                nfa.eps[cur].add(s)
                e = _build(nfa, sub, flags, s)
                end = nfa.new()
                nfa.eps[e].add(s)
                nfa.eps[e].add(end)
                nfa.eps[cur].add(end)
                cur = end
            else:
                end = nfa.new()
                for _ in range(hi - lo):
                    nfa.eps[cur].add(end)
                    cur = _build(nfa, sub, flags, cur)
                nfa.eps[cur].add(end)
                cur = end
        elif op is sre_c.AT:
            continue  # anchors consume nothing; ignoring them only adds paths that the matcher prunes at once
        elif op is sre_c.ATOMIC_GROUP if hasattr(sre_c, "ATOMIC_GROUP") else False:
            raise Unsupported("atomic group")
        else:
            raise Unsupported(f"construct {op}")
    return cur


def _closure(nfa: NFA, s: int) -> set[int]:
    seen = {s}
    stack = [s]
    while stack:
        x = stack.pop()
        for y in nfa.eps[x]:
            if y not in seen:
                seen.add(y)
                stack.append(y)
    return seen


def exponentially_ambiguous(pattern: str, flags: int = 0) -> tuple[bool, str]:
    """(True, witness description) when the pattern's automaton has EDA."""
    try:
        parsed = sre_parse.parse(pattern, flags)
    except re.error as e:  # pragma: no cover
        raise Unsupported(f"regex does not parse: {e}") from e
    flags |= parsed.state.flags if hasattr(parsed, "state") else 0
    nfa = NFA()
    start = nfa.new()
    end = _build(nfa, parsed, flags, start)
    n = len(nfa.eps)
    clos = [_closure(nfa, s) for s in range(n)]
    important = [s for s in range(n) if nfa.trans[s] or s == end or s == start]
    imp_set = set(important)
    # T[p][c] over important states: p -c-> r -eps*-> q
    step: dict[int, dict[str, set[int]]] = {}
    for p in important:
        d: dict[str, set[int]] = {}
        # characters can be read from p itself only (p is important: its own transitions); eps-successors are separate important states
        for pred, r in nfa.trans[p]:
            for ch in ALPHABET:
                if pred(ch):
                    d.setdefault(ch, set()).update(q for q in clos[r] if q in imp_set)
        step[p] = d
    # entry: important states in closure(start)
    entry = {q for q in clos[start] if q in imp_set}
    reach = set(entry)
    stack = list(entry)
    while stack:
        p = stack.pop()
        for qs in step[p].values():
            for q in qs:
                if q not in reach:
                    reach.add(q)
                    stack.append(q)
    # product graph over reachable pairs
    succ: dict[tuple[int, int], set[tuple[int, int]]] = {}
    nodes = [(p, q) for p in reach for q in reach]
    for p, q in nodes:
        out: set[tuple[int, int]] = set()
        dp, dq = step[p], step[q]
        for ch in dp.keys() & dq.keys():
            for p2 in dp[ch]:
                for q2 in dq[ch]:
                    out.add((p2, q2))
        succ[(p, q)] = out
    # SCCs (iterative Tarjan)
    index: dict[tuple[int, int], int] = {}
    low: dict[tuple[int, int], int] = {}
    on: set[tuple[int, int]] = set()
    st: list[tuple[int, int]] = []
    comp: dict[tuple[int, int], int] = {}
    counter = [0]
    ncomp = [0]
    for root in nodes:
        if root in index:
            continue
        work = [(root, iter(succ[root]))]
        index[root] = low[root] = counter[0]
        counter[0] += 1
        st.append(root)
        on.add(root)
        while work:
            v, it = work[-1]
            advanced = False
            for w in it:
                if w not in index:
                    index[w] = low[w] = counter[0]
                    counter[0] += 1
                    st.append(w)
                    on.add(w)
                    work.append((w, iter(succ[w])))
                    advanced = True
                    break
                elif w in on:
                    low[v] = min(low[v], index[w])
            if advanced:
                continue
            work.pop()
            if work:
                u = work[-1][0]
                low[u] = min(low[u], low[v])
            if low[v] == index[v]:
                while True:
                    w = st.pop()
                    on.discard(w)
                    comp[w] = ncomp[0]
                    if w == v:
                        break
                ncomp[0] += 1
    by_comp: dict[int, list[tuple[int, int]]] = {}
    for nd, c in comp.items():
        by_comp.setdefault(c, []).append(nd)
    for c, members in by_comp.items():
        if len(members) < 2 and not any(m in succ[m] for m in members):
            continue
        diag = [m for m in members if m[0] == m[1]]
        off = [m for m in members if m[0] != m[1]]
        if diag and off:
            # a character that loops: any label on an edge inside the component from the diagonal
            q = diag[0][0]
            chars = sorted(ch for ch, qs in step[q].items() if any(comp.get((x, y)) == c for x in qs for y in qs))
            sample = next((ch for ch in chars if ch.isalnum()), chars[0] if chars else "?")
            return True, f"a run of characters like {sample!r} can be split between the nested repetitions in exponentially many ways"
    return False, ""
