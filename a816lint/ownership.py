"""Which functions / classes carry which property's mechanism (from the properties' anchors, refined by reading the code).

Used by the shared binding-agreement rule: a swapped argument or constructor field is reported under the properties whose
mechanism the callee or the class belongs to, and under no other."""
from __future__ import annotations

import ast
import fnmatch

from .core import AnalysisError, FunctionInfo, unparse, walk_no_nested
from .report import Ctx
from .resolve import get_resolver

# property -> patterns over "module:qualname"
OWNERS: dict[str, list[str]] = {
    "C01": ["a816.cpu.cpu_65c816:Opcode*", "a816.cpu.cpu_65c816:guess_value_size", "a816.parse.nodes:OpcodeNode.*", "a816.parse.nodes:ExpressionNode.*",
            "a816.parse.nodes:ValueNode*", "a816.parse.parser_states:parse_opcode", "a816.parse.parser_states:parse_operand_and_addressing",
            "a816.parse.ast.nodes:OpcodeAstNode.*", "a816.parse.codegen:generate_opcode"],
    "C02": ["a816.program:Program.resolve_labels", "a816.program:Program.emit", "a816.program:Program.resolver_reset", "a816.parse.nodes:*.pc_after",
            "a816.parse.nodes:*.emit", "a816.symbols:Scope.add_label", "a816.cpu.cpu_65c816:*.supposed_length", "a816.cpu.mapping:Address.*"],
    "C03": ["a816.program:Program.emit", "a816.parse.nodes:CodePositionNode.*", "a816.parse.nodes:RelocationAddressNode.*", "a816.symbols:Resolver.set_position",
            "a816.symbols:Resolver.get_bus", "a816.cpu.mapping:Mapping.physical_address", "a816.cpu.mapping:Address.*", "a816.cpu.mapping:Bus.get_address",
            "a816.parse.codegen:generate_star_eq", "a816.parse.codegen:generate_at_eq"],
    "C04": ["a816.cpu.mapping:*", "a816.parse.codegen:generate_map", "a816.parse.parser_states:parse_map", "a816.parse.ast.nodes:MapAstNode.*"],
    "C05": ["a816.cpu.cpu_65c816:RelativeJumpOpcode.*", "a816.cpu.cpu_65c816:OpcodeWithoutOperand.*", "a816.cpu.mapping:Bus.get_address", "a816.cpu.mapping:Address.__init__"],
    "C06": ["a816.parse.ast.expression:*", "a816.parse.parser_states:_parse_expression", "a816.parse.parser_states:parse_expression*", "a816.parse.ast.nodes:ExpressionAstNode.*",
            "a816.parse.ast.nodes:ExprNode*"],
    "C07": ["a816.parse.nodes:ByteNode.*", "a816.parse.nodes:WordNode.*", "a816.parse.nodes:LongNode.*", "a816.parse.nodes:PointerNode.*", "a816.parse.nodes:AsciiNode.*",
            "a816.parse.nodes:BinaryNode.*", "a816.parse.nodes:AbstractTextNode.*", "a816.parse.codegen:generate_d?", "a816.parse.codegen:generate_ascii",
            "a816.parse.codegen:generate_incbin", "a816.parse.ast.nodes:DataNode.*", "a816.parse.ast.nodes:AsciiAstNode.*", "a816.parse.ast.nodes:IncludeBinaryAstNode.*",
            "a816.parse.parser_states:parse_expression_list_inner"],
    "C08": ["a816.symbols:Scope.*", "a816.symbols:NamedScope.*", "a816.symbols:Resolver.append_*", "a816.symbols:Resolver.use_next_scope", "a816.symbols:Resolver.restore_scope",
            "a816.parse.nodes:ScopeNode.*", "a816.parse.nodes:PopScopeNode.*", "a816.parse.nodes:LabelNode.*", "a816.parse.codegen:generate_scope",
            "a816.parse.codegen:generate_compound", "a816.parse.codegen:generate_label", "a816.parse.parser_states:parse_scope", "a816.parse.ast.nodes:ScopeAstNode.*"],
    "C09": ["a816.parse.codegen:generate_macro*", "a816.parse.codegen:generate_code_lookup", "a816.parse.nodes:SymbolNode.*", "a816.parse.parser_states:parse_macro*",
            "a816.parse.parser_states:parse_code_lookup", "a816.parse.ast.nodes:Macro*", "a816.parse.ast.nodes:CodeLookupAstNode.*"],
    "C10": ["a816.parse.codegen:generate_if", "a816.parse.codegen:generate_for", "a816.parse.parser_states:parse_if", "a816.parse.parser_states:parse_for",
            "a816.parse.ast.nodes:IfAstNode.*", "a816.parse.ast.nodes:ForAstNode.*"],
    "C11": ["a816.writers:IPSWriter.*"],
    "C12": ["a816.cli:*", "a816.program:Program.assemble*", "a816.program:Program.set_mapping", "a816.program:Program.exports_symbol_file", "a816.program:Program.__init__",
            "a816.writers:*", "a816.symbols:Resolver.get_all_labels"],
    "C13": ["a816.parse.nodes:IncludeIpsNode.*", "a816.parse.ast.nodes:IncludeIpsAstNode.*", "a816.parse.parser_states:parse_include_ips", "a816.parse.codegen:generate_include_ips"],
    "C14": ["a816.program:Program.assemble*", "a816.parse.mzparser:*", "a816.parse.errors:*", "a816.parse.nodes:NodeError.*"],
    "C17": ["a816.parse.tokens:*", "a816.parse.errors:*", "a816.parse.nodes:NodeError.*", "a816.parse.scanner:Scanner.get_token", "a816.parse.scanner:Scanner.get_position",
            "a816.parse.scanner:Scanner.emit"],
    "C18": ["script:Table.*", "a816.parse.nodes:TableNode.*", "a816.parse.nodes:TextNode.*", "a816.parse.codegen:generate_text", "a816.parse.codegen:generate_table",
            "a816.parse.ast.nodes:TextAstNode.*", "a816.parse.ast.nodes:TableAstNode.*"],
}


def owned(prop: str, fq: str) -> bool:
    return any(fnmatch.fnmatchcase(fq, pat) for pat in OWNERS.get(prop, []))


def _term(a: ast.AST) -> str | None:
    if isinstance(a, ast.Name):
        return a.id
    if isinstance(a, ast.Attribute):
        return a.attr
    return None


def binding_agreement(ctx: Ctx) -> None:
    """A positional argument whose name is that of ANOTHER parameter of the (uniquely resolved) callee, or a constructor that
    stores a parameter into the attribute named after another parameter, is a swap."""
    prop = ctx.prop
    rs = get_resolver(ctx.repo)
    n_args = n_fields = 0
    for fq, sites in rs.sites.items():
        caller = rs.by_fq[fq]
        for s in sites:
            if len(s.targets) != 1:
                continue
            t = s.targets[0]
            if not (owned(prop, t.fq) or owned(prop, fq)):
                continue
            params = t.params()
            if t.cls is not None and not t.is_static() and params and params[0] in ("self", "cls"):
                params = params[1:]
            for i, a in enumerate(s.node.args):
                if i >= len(params):
                    break
                nm = _term(a)
                if nm is None:
                    continue
                n_args += 1
                if nm != params[i] and nm in params:
                    ctx.fail(f"{caller.where}:{unparse(s.node)[:60]}", f"argument `{unparse(a)}` is passed as parameter `{params[i]}` of {t.qualname}, "
                             f"which also has a parameter `{nm}`: the arguments are swapped")
            kw_names = {k.arg for k in s.node.keywords}
            for k in s.node.keywords:
                nm = _term(k.value)
                if k.arg and nm and nm != k.arg and nm in params and k.arg in params and nm not in kw_names:
                    n_args += 1
    for ci in ctx.repo.all_classes():
        init = ci.methods.get("__init__")
        if init is None or not owned(prop, init.fq):
            continue
        ps = init.params()[1:]
        for st in walk_no_nested(init.node):
            if isinstance(st, (ast.Assign, ast.AnnAssign)):
                tgt = st.targets[0] if isinstance(st, ast.Assign) else st.target
                v = st.value
                if isinstance(tgt, ast.Attribute) and unparse(tgt.value) == "self" and isinstance(v, ast.Name) and v.id in ps:
                    n_fields += 1
                    if tgt.attr != v.id and tgt.attr in ps:
                        ctx.fail(f"{init.where}:{unparse(st)[:50]}", f"stores parameter `{v.id}` in the attribute named after parameter `{tgt.attr}`: the fields are swapped")
        # a constructor parameter that the body never reads is a dropped field (`self.line = line` deleted: every position is line 0)
        used = {n.id for n in ast.walk(init.node) if isinstance(n, ast.Name) and isinstance(n.ctx, ast.Load)}
        for p_ in ps:
            if p_ not in used and not p_.startswith("_"):
                ctx.fail(f"{init.where}:parameter {p_}", f"the constructor never reads its parameter `{p_}`: the value the caller passes is dropped and the field keeps its default")
    # the `kind` string an AST node class announces selects its code generator: the generator registered under that string must be
    # the one written for this class (its first parameter is annotated with it)
    from .const import NameRef, module_const

    try:
        gens = module_const(ctx.repo, "a816.parse.codegen", "generators")
    except AnalysisError:
        gens = None
    if isinstance(gens, dict):
        for ci in ctx.repo.all_classes():
            init = ci.methods.get("__init__")
            if init is None or ci.module.name != "a816.parse.ast.nodes" or not owned(prop, init.fq):
                continue
            kinds = [c.args[0].value for c in ast.walk(init.node) if isinstance(c, ast.Call) and unparse(c.func) == "super().__init__" and c.args
                     and isinstance(c.args[0], ast.Constant) and isinstance(c.args[0].value, str)]
            if len(kinds) != 1:
                continue
            g = gens.get(kinds[0])
            if not isinstance(g, NameRef):
                continue  # kinds without a generator (expression parts, ...) are consumed by their parents
            gf = ctx.repo.try_func("a816.parse.codegen", g.name)
            if gf is None or not gf.node.args.args or gf.node.args.args[0].annotation is None:
                continue
            ann = unparse(gf.node.args.args[0].annotation)
            n_fields += 1
            ok = ci.name in [a.strip() for a in ann.replace("|", ",").split(",")] or any(b.name in ann for b in ctx.repo.mro(ci)[1:] if b.name != "AstNode")
            if not ok:
                ctx.fail(f"{init.where}:kind {kinds[0]!r}", f"{ci.name} announces kind {kinds[0]!r}, whose generator {g.name} is written for {ann}: the directive is expanded "
                         "by another directive's generator")
    ctx.count("bound_positional_arguments", n_args)
    ctx.count("constructor_fields", n_fields)
    if n_args + n_fields == 0:
        raise AnalysisError(f"{prop}: binding rule matched no call site or constructor; ownership table out of date")
    ctx.ok(f"{prop}:binding-agreement", f"{n_args} positional arguments and {n_fields} constructor fields bind like-named parameters (no swap)")
