"""Shared extractors: local inlining, byte-field normal forms, struct formats, if-chains."""
from __future__ import annotations

import ast
import copy
import struct
from dataclasses import dataclass
from typing import Any, Iterable

from .core import AnalysisError, FunctionInfo, call_name, const_str, dotted, unparse, walk_no_nested


# --------------------------------------------------------------------------- local single assignments
def _mutable_init(v: ast.AST) -> bool:
    # a local container is filled by method calls afterwards: its initialiser is not its value
    return isinstance(v, (ast.List, ast.Dict, ast.Set, ast.ListComp, ast.DictComp, ast.SetComp)) or \
        (isinstance(v, ast.Call) and call_name(v) in ("list", "dict", "set", "bytearray", "deque", "collections.deque"))


def single_assignments(fn: ast.FunctionDef) -> dict[str, ast.AST]:
    """Locals bound exactly once by a plain `name = expr` (anywhere in the function, not augmented,
    not a loop target, not a parameter re-binding)."""
    counts: dict[str, int] = {}
    values: dict[str, ast.AST] = {}
    params = {a.arg for a in fn.args.posonlyargs + fn.args.args + fn.args.kwonlyargs}
    for n in walk_no_nested(fn, include_root=False):
        targets: list[ast.AST] = []
        val: ast.AST | None = None
        if isinstance(n, ast.Assign):
            targets, val = n.targets, n.value
        elif isinstance(n, ast.AnnAssign):
            if n.value is None:
                continue  # bare annotation does not bind
            targets, val = [n.target], n.value
        elif isinstance(n, ast.AugAssign):
            targets, val = [n.target], None
        elif isinstance(n, (ast.For,)):
            targets, val = [n.target], None
        elif isinstance(n, ast.withitem) and n.optional_vars is not None:
            targets, val = [n.optional_vars], None
        elif isinstance(n, ast.ExceptHandler) and n.name:
            counts[n.name] = counts.get(n.name, 0) + 2
            continue
        elif isinstance(n, ast.NamedExpr):
            targets, val = [n.target], None
        for t in targets:
            for sub in ast.walk(t):
                if isinstance(sub, ast.Name) and isinstance(sub.ctx, (ast.Store, ast.Del)):
                    counts[sub.id] = counts.get(sub.id, 0) + (1 if (val is not None and sub is t) else 2)
                    if val is not None and sub is t:
                        values[sub.id] = val
    out = {k: v for k, v in values.items() if counts.get(k) == 1 and k not in params and not _mutable_init(v)}
    # `q, r = divmod(a, b)` binds q = a // b and r = a % b
    for n in walk_no_nested(fn, include_root=False):
        if isinstance(n, ast.Assign) and len(n.targets) == 1 and isinstance(n.targets[0], ast.Tuple) and len(n.targets[0].elts) == 2 \
                and isinstance(n.value, ast.Call) and call_name(n.value) == "divmod" and len(n.value.args) == 2:
            q, r = n.targets[0].elts
            if isinstance(q, ast.Name) and isinstance(r, ast.Name) and counts.get(q.id) == 2 and counts.get(r.id) == 2:
                a, b = n.value.args
                out[q.id] = ast.BinOp(a, ast.FloorDiv(), b)
                out[r.id] = ast.BinOp(a, ast.Mod(), b)
        # `a, b = x, y` binds element-wise (when no right-hand element reads one of the targets)
        if isinstance(n, ast.Assign) and len(n.targets) == 1 and isinstance(n.targets[0], ast.Tuple) and isinstance(n.value, ast.Tuple) \
                and len(n.targets[0].elts) == len(n.value.elts) and all(isinstance(t, ast.Name) for t in n.targets[0].elts):
            names = [t.id for t in n.targets[0].elts]  # type: ignore[attr-defined]
            reads = {x.id for v in n.value.elts for x in ast.walk(v) if isinstance(x, ast.Name)}
            if not (set(names) & reads) and all(counts.get(t) == 2 for t in names):
                for t, v in zip(names, n.value.elts):
                    if t not in params:
                        out[t] = v
    return out


def last_assignments(fn: ast.FunctionDef) -> dict[str, ast.AST]:
    """single_assignments plus names that are only ever assigned by plain top-level statements of the function body
    (e.g. `size = None` followed later by `size = node.value_size`): the last such assignment is what later code sees."""
    env = single_assignments(fn)
    params = {a.arg for a in fn.args.posonlyargs + fn.args.args + fn.args.kwonlyargs}
    top: dict[str, ast.AST] = {}
    nested: set[str] = set()
    for st in fn.body:
        if isinstance(st, ast.Assign) and len(st.targets) == 1 and isinstance(st.targets[0], ast.Name):
            top[st.targets[0].id] = st.value
        elif isinstance(st, ast.AnnAssign) and isinstance(st.target, ast.Name) and st.value is not None:
            top[st.target.id] = st.value
        else:
            for n in ast.walk(st):
                if isinstance(n, (ast.Assign, ast.AugAssign, ast.AnnAssign, ast.For)):
                    tl = n.targets if isinstance(n, ast.Assign) else [n.target]
                    for t in tl:
                        for x in ast.walk(t):
                            if isinstance(x, ast.Name):
                                nested.add(x.id)
    for k, v in top.items():
        if k not in nested and k not in params and not _mutable_init(v):
            env[k] = v
    return env


def inline(expr: ast.AST, env: dict[str, ast.AST], depth: int = 8) -> ast.AST:
    """Substitute single-assignment locals into expr (copy)."""

    class T(ast.NodeTransformer):
        def __init__(self, d: int) -> None:
            self.d = d

        def visit_Name(self, node: ast.Name) -> ast.AST:
            if isinstance(node.ctx, ast.Load) and node.id in env and self.d > 0:
                return T(self.d - 1).visit(copy.deepcopy(env[node.id]))
            return node

    return T(depth).visit(copy.deepcopy(expr))


# --------------------------------------------------------------------------- struct formats
@dataclass
class Fmt:
    text: str
    order: str  # '<' '>' '=' '@' '!' or '' (native, only ok for single bytes)
    fields: list[tuple[str, int]]  # (code, size)

    @property
    def size(self) -> int:
        return sum(s for _, s in self.fields)

    @property
    def little(self) -> bool:
        return self.order == "<" or all(s == 1 for _, s in self.fields)

    @property
    def big(self) -> bool:
        return self.order in (">", "!") or all(s == 1 for _, s in self.fields)


_SIZES = {"B": 1, "b": 1, "H": 2, "h": 2, "I": 4, "i": 4, "L": 4, "l": 4, "Q": 8, "q": 8, "x": 1, "c": 1}


def parse_fmt(text: str) -> Fmt:
    order = ""
    body = text
    if body and body[0] in "<>=!@":
        order, body = body[0], body[1:]
    fields = []
    num = ""
    for ch in body:
        if ch.isdigit():
            num += ch
            continue
        if ch not in _SIZES:
            raise AnalysisError(f"struct format {text!r}: code {ch!r} not modelled")
        for _ in range(int(num) if num else 1):
            fields.append((ch, _SIZES[ch]))
        num = ""
    f = Fmt(text, order, fields)
    if struct.calcsize(text if order else "=" + text) != f.size:
        raise AnalysisError(f"struct format {text!r}: size model disagrees with struct.calcsize")
    return f


def pack_call(node: ast.AST) -> tuple[Fmt, list[ast.AST]] | None:
    """struct.pack(fmt, *args) with literal fmt."""
    if isinstance(node, ast.Call) and call_name(node) == "struct.pack" and node.args:
        f = const_str(node.args[0])
        if f is None:
            raise AnalysisError(f"struct.pack with non-literal format: {unparse(node)[:80]}")
        return parse_fmt(f), list(node.args[1:])
    return None


def unpack_call(node: ast.AST) -> tuple[Fmt, ast.AST] | None:
    if isinstance(node, ast.Call) and call_name(node) == "struct.unpack" and len(node.args) == 2:
        f = const_str(node.args[0])
        if f is None:
            raise AnalysisError(f"struct.unpack with non-literal format: {unparse(node)[:80]}")
        return parse_fmt(f), node.args[1]
    return None


# --------------------------------------------------------------------------- byte-field normal form
@dataclass(frozen=True)
class Field:
    """(source >> shift) & mask ; mask None = unmasked."""

    source: str
    shift: int
    mask: int | None

    def __str__(self) -> str:
        m = "unmasked" if self.mask is None else hex(self.mask)
        return f"({self.source} >> {self.shift}) & {m}"


def _int(node: ast.AST) -> int | None:
    if isinstance(node, ast.Constant) and isinstance(node.value, int) and not isinstance(node.value, bool):
        return node.value
    if isinstance(node, ast.BinOp):
        a, b = _int(node.left), _int(node.right)
        if a is not None and b is not None:
            try:
                if isinstance(node.op, ast.Add): return a + b
                if isinstance(node.op, ast.Sub): return a - b
                if isinstance(node.op, ast.Mult): return a * b
                if isinstance(node.op, ast.LShift): return a << b
                if isinstance(node.op, ast.RShift): return a >> b
                if isinstance(node.op, ast.BitAnd): return a & b
                if isinstance(node.op, ast.BitOr): return a | b
                if isinstance(node.op, ast.Pow) and 0 <= b < 64: return a ** b
            except Exception:  # noqa: BLE001
                return None
    if isinstance(node, ast.UnaryOp) and isinstance(node.op, ast.USub):
        a = _int(node.operand)
        return -a if a is not None else None
    return None


def const_int(node: ast.AST) -> int | None:
    return _int(node)


def field_of(node: ast.AST) -> Field | None:
    """Normalise v, v & M, v >> S, (v >> S) & M, (v & M) >> S, v % 2**k, v // 2**k into a Field."""
    if isinstance(node, ast.BinOp):
        if isinstance(node.op, ast.BitAnd):
            for a, b in ((node.left, node.right), (node.right, node.left)):
                m = _int(b)
                if m is not None:
                    inner = field_of(a)
                    if inner is None:
                        return None
                    newmask = m if inner.mask is None else (inner.mask & m)
                    return Field(inner.source, inner.shift, newmask)
            return None
        if isinstance(node.op, ast.RShift):
            s = _int(node.right)
            inner = field_of(node.left)
            if s is None or inner is None or s < 0:
                return None
            mask = None if inner.mask is None else (inner.mask >> s)
            return Field(inner.source, inner.shift + s, mask)
        if isinstance(node.op, ast.Mod):
            m = _int(node.right)
            inner = field_of(node.left)
            if m is None or inner is None or m <= 0 or (m & (m - 1)):
                return None
            newmask = (m - 1) if inner.mask is None else (inner.mask & (m - 1))
            return Field(inner.source, inner.shift, newmask)
        if isinstance(node.op, ast.FloorDiv):
            m = _int(node.right)
            inner = field_of(node.left)
            if m is None or inner is None or m <= 0 or (m & (m - 1)):
                return None
            s = m.bit_length() - 1
            mask = None if inner.mask is None else (inner.mask >> s)
            return Field(inner.source, inner.shift + s, mask)
        return None
    d = unparse(node)
    if isinstance(node, (ast.Name, ast.Attribute, ast.Call, ast.Subscript)):
        return Field(d, 0, None)
    return None


# --------------------------------------------------------------------------- if-chains
def if_chain(stmt: ast.If) -> tuple[list[tuple[ast.AST, list[ast.stmt]]], list[ast.stmt]]:
    """Flatten if/elif/.../else into ([(test, body)...], else_body)."""
    arms = []
    cur: ast.stmt = stmt
    while True:
        assert isinstance(cur, ast.If)
        arms.append((cur.test, cur.body))
        if len(cur.orelse) == 1 and isinstance(cur.orelse[0], ast.If):
            cur = cur.orelse[0]
            continue
        return arms, cur.orelse


def eq_const_test(test: ast.AST) -> tuple[str, Any] | None:
    """`<expr> == <const>` → (unparsed expr, const)."""
    if isinstance(test, ast.Compare) and len(test.ops) == 1 and isinstance(test.ops[0], ast.Eq):
        l, r = test.left, test.comparators[0]
        if isinstance(r, ast.Constant):
            return unparse(l), r.value
        if isinstance(l, ast.Constant):
            return unparse(r), l.value
    return None


def returns_of(fn: ast.FunctionDef) -> list[ast.Return]:
    return [n for n in walk_no_nested(fn, include_root=False) if isinstance(n, ast.Return)]


def enclosing_map(fn: ast.AST) -> dict[int, ast.AST]:
    """child id -> parent node."""
    out: dict[int, ast.AST] = {}
    for parent in ast.walk(fn):
        for ch in ast.iter_child_nodes(parent):
            out[id(ch)] = parent
    return out


def kwarg(call: ast.Call, name: str, pos: int | None = None) -> ast.AST | None:
    for k in call.keywords:
        if k.arg == name:
            return k.value
    if pos is not None and len(call.args) > pos:
        return call.args[pos]
    return None


# --------------------------------------------------------------------------- byte-level normal form of bytes-valued expressions
@dataclass(frozen=True)
class ByteVal:
    """One output byte: bits [bit, bit+8) of `source` (source None = constant `const`).
    checked: producing it raises unless the source fits the enclosing field (unmasked top byte of a struct field,
    int.to_bytes overflow, bytes([x]) range); signed: the enclosing field is a signed struct code."""

    source: str | None
    bit: int = 0
    checked: bool = False
    signed: bool = False
    const: int = 0

    def __str__(self) -> str:
        if self.source is None:
            return f"0x{self.const:02x}"
        return f"({self.source} >> {self.bit}) & 0xff" + (" [range-checked]" if self.checked else "") + (" [signed]" if self.signed else "")


def _field_bytes(f: Field, nbytes: int, little: bool, signed: bool) -> list[ByteVal]:
    out = []
    for j in range(nbytes):
        lo = 8 * j
        if f.mask is not None and (f.mask >> lo) & 0xFF == 0:
            out.append(ByteVal(None, 0, False, False, 0))
            continue
        if f.mask is not None and (f.mask >> lo) & 0xFF != 0xFF:
            # some bits of this byte are masked away: it is not the byte of the source any more (never equal to a wanted plain byte)
            out.append(ByteVal(f"{f.source} with bits masked by {hex((f.mask >> lo) & 0xFF)}", f.shift + lo, False, signed))
            continue
        out.append(ByteVal(f.source, f.shift + lo, False, signed))
    unmasked_top = f.mask is None or (f.mask >> (8 * nbytes)) != 0
    if unmasked_top and out:
        top = out[-1]
        out[-1] = ByteVal(top.source, top.bit, True, signed, top.const)
    return out if little else list(reversed(out))


def _sets_or_moves_bits(e: ast.AST) -> bool:
    for n in ast.walk(e):
        if isinstance(n, ast.BinOp) and isinstance(n.op, (ast.BitOr, ast.BitXor, ast.LShift)):
            c = _int(n.right) if _int(n.right) is not None else _int(n.left)
            if c is not None and c != 0:
                return True
    return False


def packed_bytes(expr: ast.AST) -> list[ByteVal]:
    """Byte-by-byte description of a bytes-valued expression built from struct.pack / int.to_bytes / bytes([..]) / b'..' / + / [a:b]."""
    if isinstance(expr, ast.Constant) and isinstance(expr.value, bytes):
        return [ByteVal(None, 0, False, False, b) for b in expr.value]
    pc = pack_call(expr)
    if pc is not None:
        fmt, args = pc
        if len(args) != len(fmt.fields):
            raise AnalysisError(f"struct.pack arity mismatch in {unparse(expr)[:60]}")
        if fmt.order not in ("<", ">", "!") and any(n > 1 for _c, n in fmt.fields):
            raise AnalysisError(f"struct format {fmt.text!r}: native byte order on a multi-byte field")
        out: list[ByteVal] = []
        for (code, n), a in zip(fmt.fields, args):
            f = field_of(a)
            if f is None and _sets_or_moves_bits(a):
                # `x | C`, `x ^ C`, `x << k` (C, k != 0): bits are forced or moved up, which no byte extraction does
                out += [ByteVal(f"bits forced / moved by `{unparse(a)[:40]}`", 8 * j, False, code.islower()) for j in range(n)]
                continue
            if f is None:
                raise AnalysisError(f"byte layout: `{unparse(a)[:50]}` is not in shift/mask normal form")
            out += _field_bytes(f, n, fmt.order == "<" or n == 1, code.islower() and code != "x")
        return out
    if isinstance(expr, ast.Call) and isinstance(expr.func, ast.Attribute) and expr.func.attr == "to_bytes":
        n = const_int(expr.args[0]) if expr.args else None
        order = const_str(expr.args[1]) if len(expr.args) > 1 else None
        for k in expr.keywords:
            if k.arg == "length":
                n = const_int(k.value)
            if k.arg == "byteorder":
                order = const_str(k.value)
        signed = any(k.arg == "signed" and getattr(k.value, "value", False) for k in expr.keywords)
        f = field_of(expr.func.value)
        if n is None or order not in ("little", "big") or f is None:
            raise AnalysisError(f"byte layout: to_bytes call not modelled: {unparse(expr)[:60]}")
        return _field_bytes(f, n, order == "little", signed)
    if isinstance(expr, ast.Call) and call_name(expr) == "bytes" and len(expr.args) == 1 and isinstance(expr.args[0], (ast.List, ast.Tuple)):
        out = []
        for e in expr.args[0].elts:
            f = field_of(e)
            if f is None:
                raise AnalysisError(f"byte layout: `{unparse(e)[:50]}` is not in shift/mask normal form")
            out += _field_bytes(f, 1, True, False)
        return out
    if isinstance(expr, ast.BinOp) and isinstance(expr.op, ast.Add):
        return packed_bytes(expr.left) + packed_bytes(expr.right)
    if isinstance(expr, ast.Subscript) and isinstance(expr.slice, ast.Slice):
        inner = packed_bytes(expr.value)
        lo = const_int(expr.slice.lower) if expr.slice.lower is not None else None
        hi = const_int(expr.slice.upper) if expr.slice.upper is not None else None
        if (expr.slice.lower is not None and lo is None) or (expr.slice.upper is not None and hi is None) or expr.slice.step is not None:
            raise AnalysisError("byte layout: non-constant slice")
        # slicing away the bytes that carried a range check drops the check
        return inner[lo:hi]
    raise AnalysisError(f"byte layout: `{unparse(expr)[:70]}` not modelled")


def want_le_bytes(source: str, nbytes: int) -> list[ByteVal]:
    return [ByteVal(source, 8 * j) for j in range(nbytes)]


def same_bytes(got: list[ByteVal], want: list[ByteVal], ignore_checked: bool = True) -> bool:
    if len(got) != len(want):
        return False
    for g, w in zip(got, want):
        if (g.source, g.bit if g.source else g.const) != (w.source, w.bit if w.source else w.const):
            return False
        if not ignore_checked and g.checked != w.checked:
            return False
        if g.signed != w.signed:
            return False
    return True


# --------------------------------------------------------------------------- canonical text of expressions, robust to local renames / temps
def canon(fn: ast.FunctionDef, expr: ast.AST | None, keep: Iterable[str] = ()) -> str:
    """unparse(expr) after substituting every single-assignment local except those in `keep`.
    Two functions that differ only in the names of their temporaries give the same text."""
    if expr is None:
        return "<none>"
    env = {k: v for k, v in last_assignments(fn).items() if k not in set(keep)}
    return unparse(inline(expr, env))


def canon_at(fn: ast.FunctionDef, g, at: int, expr: ast.AST, depth: int = 6) -> str:
    """like canon(), but a local bound more than once is read through the one binding that reaches the CFG node `at` (when exactly one does):
    `d = v.get(); if c: t = f(d); d = t - 1` reads `f(d)` as `f(v.get())`"""
    env = last_assignments(fn)
    e = copy.deepcopy(expr)
    for _ in range(depth):
        e = inline(e, env)
        multi = [n for n in ast.walk(e) if isinstance(n, ast.Name) and isinstance(n.ctx, ast.Load) and n.id not in env]
        changed = False
        for n in multi:
            defs = [(nid, nd.ast) for nid, nd in g.nodes.items() if nd.kind == "stmt" and isinstance(nd.ast, ast.Assign) and len(nd.ast.targets) == 1
                    and isinstance(nd.ast.targets[0], ast.Name) and nd.ast.targets[0].id == n.id]
            all_defs = [nid for nid, nd in g.nodes.items() if nd.ast is not None and any(isinstance(x, ast.Name) and x.id == n.id and isinstance(x.ctx, ast.Store) for x in ast.walk(nd.ast) if nd.kind == "stmt")]
            if not defs:
                continue
            reaching = [(nid, a) for nid, a in defs if at in g.reachable([m for m, _l in g.succ[nid]], blocked=[x for x in all_defs if x != nid])]
            others = [x for x in all_defs if x not in {nid for nid, _a in defs} and at in g.reachable([m for m, _l in g.succ[x]], blocked=[y for y in all_defs if y != x])]
            if len(reaching) == 1 and not others:
                class _S(ast.NodeTransformer):
                    def visit_Name(self, m: ast.Name) -> ast.AST:
                        return copy.deepcopy(reaching[0][1].value) if m is n else m  # noqa: B023

                e = _S().visit(e)
                changed = True
                break
        if not changed:
            break
    return unparse(e)


def canonical_statements(fn: ast.FunctionDef, keep: Iterable[str] = ()) -> list[str]:
    """the function's top-level statements as text, with single-assignment locals substituted into their users and their own binding
    statements (and the docstring) left out: `v = x.a; self.t[k] = v; self.f(k, v)` reads `self.t[k] = x.a`, `self.f(k, x.a)`"""
    env = {k: v for k, v in single_assignments(fn).items() if k not in set(keep)}
    out: list[str] = []
    for st in fn.body:
        if isinstance(st, ast.Expr) and isinstance(st.value, ast.Constant) and isinstance(st.value.value, str):
            continue
        if isinstance(st, ast.Assign) and len(st.targets) == 1 and isinstance(st.targets[0], ast.Name) and st.targets[0].id in env:
            continue
        if isinstance(st, ast.AnnAssign) and isinstance(st.target, ast.Name) and st.target.id in env:
            continue
        out.append(unparse(inline(st, env)))
    return out


def canonical_subscripts(fn: ast.FunctionDef) -> list[str]:
    """text of every subscript read in the function with single-assignment locals (and plain copies) inlined, so that
    `m = T[a]; e = m[b]` reads as `T[a][b]` and `k = self.x; T[k]` as `T[self.x]`"""
    env = last_assignments(fn)
    out = []
    for n in walk_no_nested(fn):
        if isinstance(n, ast.Subscript) and isinstance(n.ctx, ast.Load):
            e: ast.AST = n
            for _ in range(4):
                e = inline(e, env)
            out.append(unparse(e))
    return out


def literal_binding(fi, name: str) -> ast.AST | None:
    """the literal a name denotes: its single assignment in the function, else its single assignment at module level (a constant
    table moved out of the function), else None"""
    local = [n for n in walk_no_nested(fi.node) if isinstance(n, (ast.Assign, ast.AnnAssign)) and unparse(n.targets[0] if isinstance(n, ast.Assign) else n.target) == name
             and getattr(n, "value", None) is not None]
    if len(local) == 1:
        v = local[0].value
        if isinstance(v, ast.Name):
            return literal_binding(fi, v.id) if v.id != name else None
        return v
    if local:
        return None
    mi = fi.module
    writes = [st for n_, st in mi.assigns_all if n_ == name]
    if len(writes) == 1:
        v = mi.assigns[name]
        if isinstance(v, ast.Call) and call_name(v) in ("frozenset", "tuple", "set", "dict", "MappingProxyType", "types.MappingProxyType") and len(v.args) == 1:
            v = v.args[0]
        return v
    return None


def const_string(fi, node: ast.AST | None, depth: int = 0) -> str | None:
    """the string an expression denotes when it is built from literals, the `string` module's constants, `+`, and names bound once
    (in the function or at module level) to such expressions"""
    import string as _string

    if node is None or depth > 6:
        return None
    if isinstance(node, ast.Constant) and isinstance(node.value, str):
        return node.value
    if isinstance(node, ast.Attribute) and isinstance(node.value, ast.Name) and node.value.id == "string" and hasattr(_string, node.attr) and isinstance(getattr(_string, node.attr), str):
        return getattr(_string, node.attr)
    if isinstance(node, ast.BinOp) and isinstance(node.op, ast.Add):
        a, b = const_string(fi, node.left, depth + 1), const_string(fi, node.right, depth + 1)
        return a + b if a is not None and b is not None else None
    if isinstance(node, ast.Name):
        return const_string(fi, literal_binding(fi, node.id), depth + 1)
    return None


def alias_root(fn: ast.FunctionDef, name: str, depth: int = 6) -> str:
    """follow `x = y` copies back to the first name (parameters included); stops at anything that is not a plain copy."""
    cur = name
    for _ in range(depth):
        first = None
        for n in walk_no_nested(fn, include_root=False):
            if isinstance(n, ast.Assign) and len(n.targets) == 1 and isinstance(n.targets[0], ast.Name) and n.targets[0].id == cur:
                first = n
                break
        if first is None or not isinstance(first.value, ast.Name):
            return cur
        cur = first.value.id
    return cur


def canon_test(test: ast.AST) -> tuple[str, bool]:
    """(text, polarity): `X is not None` -> ('X is None', False); `not X` -> (X, False); `X != c` -> ('X == c', False)"""
    if isinstance(test, ast.UnaryOp) and isinstance(test.op, ast.Not):
        t, p = canon_test(test.operand)
        return t, not p
    if isinstance(test, ast.Compare) and len(test.ops) == 1:
        flip = {ast.IsNot: ast.Is, ast.NotEq: ast.Eq, ast.NotIn: ast.In}
        op = test.ops[0]
        if type(op) in flip:
            pos = ast.Compare(test.left, [flip[type(op)]()], test.comparators)
            return unparse(pos), False
    return unparse(test), True
