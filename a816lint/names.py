"""Locals that are read but never bound anywhere in their function (a deleted or misspelled assignment): the statement raises
NameError / UnboundLocalError as soon as it runs, i.e. every input that reaches it fails.  Shared rule RU, attributed by ownership."""
from __future__ import annotations

import ast
import builtins
import fnmatch

from .core import FunctionInfo, Repo, unparse, walk_no_nested
from .ownership import owned
from .report import Ctx

EXTRA_SCOPE = {
    # functions every directive / statement goes through
    "a816.parse.parser_states:parse_decl": ["C16"],
    "a816.parse.parser_states:parse_initial": ["C16"],
    "a816.parse.scanner_states:*": ["C16"],
    "a816.parse.codegen:_code_gen": ["C09", "C10"],
    "a816.program:Program.*": ["C12"],
}


def _bound_names(fn: ast.FunctionDef) -> set[str]:
    out = {a.arg for a in fn.args.posonlyargs + fn.args.args + fn.args.kwonlyargs}
    if fn.args.vararg:
        out.add(fn.args.vararg.arg)
    if fn.args.kwarg:
        out.add(fn.args.kwarg.arg)
    for n in ast.walk(fn):
        if isinstance(n, ast.Name) and isinstance(n.ctx, (ast.Store, ast.Del)):
            out.add(n.id)
        elif isinstance(n, (ast.FunctionDef, ast.AsyncFunctionDef, ast.ClassDef)) and n is not fn:
            out.add(n.name)
        elif isinstance(n, (ast.Import, ast.ImportFrom)):
            for a in n.names:
                out.add((a.asname or a.name).split(".")[0])
        elif isinstance(n, ast.ExceptHandler) and n.name:
            out.add(n.name)
        elif isinstance(n, (ast.Global, ast.Nonlocal)):
            out |= set(n.names)
        elif isinstance(n, ast.arg):
            out.add(n.arg)
        elif isinstance(n, ast.MatchAs) and n.name:
            out.add(n.name)
    return out


def unbound_reads(repo: Repo) -> list[tuple[FunctionInfo, str, int]]:
    cached = getattr(repo, "_unbound_reads", None)
    if cached is not None:
        return cached
    res: list[tuple[FunctionInfo, str, int]] = []
    for fn in repo.all_functions():
        mi = fn.module
        module_names = set(mi.functions) | set(mi.classes) | set(mi.imports) | set(mi.assigns) | {n for n, _ in mi.assigns_all}
        for st in mi.tree.body:
            if isinstance(st, (ast.Import, ast.ImportFrom)):
                module_names |= {(a.asname or a.name).split(".")[0] for a in st.names}
            for x in ast.walk(st) if not isinstance(st, (ast.FunctionDef, ast.ClassDef)) else []:
                if isinstance(x, ast.Name) and isinstance(x.ctx, ast.Store):
                    module_names.add(x.id)
        bound = _bound_names(fn.node)
        cls_names = set()
        if fn.cls is not None:
            cls_names = {t.id for st in fn.cls.node.body for t in ast.walk(st) if isinstance(t, ast.Name) and isinstance(t.ctx, ast.Store)} if False else set()
        seen: set[str] = set()
        for n in ast.walk(fn.node):
            if isinstance(n, ast.Name) and isinstance(n.ctx, ast.Load) and n.id not in bound and n.id not in module_names and not hasattr(builtins, n.id) and n.id not in seen:
                # annotations may name typing-only things under TYPE_CHECKING or strings; only executable positions count
                seen.add(n.id)
                res.append((fn, n.id, getattr(n, "lineno", 0)))
    # names that only occur inside annotations are not executed
    out = []
    for fn, name, line in res:
        ann_ids = set()
        for n in ast.walk(fn.node):
            for fld in ("annotation", "returns"):
                a = getattr(n, fld, None)
                if isinstance(a, ast.AST):
                    ann_ids |= {id(x) for x in ast.walk(a)}
        uses = [x for x in ast.walk(fn.node) if isinstance(x, ast.Name) and x.id == name and isinstance(x.ctx, ast.Load) and id(x) not in ann_ids]
        if uses:
            out.append((fn, name, line))
    repo._unbound_reads = out  # type: ignore[attr-defined]
    return out


def unbound_attributes(repo: Repo) -> list[tuple[FunctionInfo, str]]:
    """`self.x` read in a method while no method of the class or of its (repository) bases, and no class-level statement, ever binds
    x: AttributeError on first use.  Classes with a base outside the repository (other than object / Protocol / the builtin
    exceptions, whose attributes are known) are skipped."""
    cached = getattr(repo, "_unbound_attrs", None)
    if cached is not None:
        return cached
    exc_attrs = {"args", "with_traceback", "add_note", "__traceback__", "__cause__", "__context__", "__class__", "__dict__", "__doc__", "__module__"}
    out: list[tuple[FunctionInfo, str]] = []
    for ci in repo.all_classes():
        mro = repo.mro(ci)
        external = False
        for c in mro:
            for b in c.base_names:
                bn = b.split(".")[-1].split("[")[0]
                if repo.find_class(bn) is None and bn not in ("object", "Protocol", "Exception", "RuntimeError", "ValueError", "KeyError", "Enum", "NamedTuple", "Generic"):
                    external = True
        if external:
            continue
        if any(b.split(".")[-1] in ("Enum", "NamedTuple") for c in mro for b in c.base_names):
            continue
        bound: set[str] = set(exc_attrs)
        for c in mro + repo.subclasses(ci):
            bound |= set(c.methods)
            for st in c.node.body:
                for x in ast.walk(st) if not isinstance(st, (ast.FunctionDef, ast.AsyncFunctionDef)) else []:
                    if isinstance(x, ast.Name) and isinstance(x.ctx, ast.Store):
                        bound.add(x.id)
                if isinstance(st, ast.AnnAssign) and isinstance(st.target, ast.Name):
                    bound.add(st.target.id)
            for m in c.methods.values():
                for x in ast.walk(m.node):
                    if isinstance(x, ast.Attribute) and isinstance(x.ctx, (ast.Store, ast.Del)) and isinstance(x.value, ast.Name) and x.value.id in ("self", "cls"):
                        bound.add(x.attr)
                    if isinstance(x, ast.Call) and isinstance(x.func, ast.Name) and x.func.id == "setattr":
                        bound.add("*")
        if "*" in bound or any(d for d in ci.node.decorator_list):
            continue
        # attributes other code sets on instances of this class (`node.parent = ...`) cannot be told apart by name alone: count any store of that name
        for m in ci.methods.values():
            if m.is_static():
                continue
            seen: set[str] = set()
            for x in ast.walk(m.node):
                if isinstance(x, ast.Attribute) and isinstance(x.ctx, ast.Load) and isinstance(x.value, ast.Name) and x.value.id == "self" and x.attr not in bound \
                        and not x.attr.startswith("__") and x.attr not in seen:
                    seen.add(x.attr)
                    stored_elsewhere = any(isinstance(y, ast.Attribute) and isinstance(y.ctx, ast.Store) and y.attr == x.attr and not (isinstance(y.value, ast.Name) and y.value.id in ("self", "cls"))
                                           for f in repo.all_functions() for y in ast.walk(f.node))
                    if not stored_elsewhere:
                        out.append((m, x.attr))
    repo._unbound_attrs = out  # type: ignore[attr-defined]
    return out


KEYWORD_OWNER = {"db": "C07", "dw": "C07", "dl": "C07", "pointer": "C07", "ascii": "C07", "incbin": "C07", "text": "C18", "table": "C18",
                 "include": "C16", "include_ips": "C13", "scope": "C08", "macro": "C09", "map": "C04", "if": "C10", "for": "C10"}


def _keyword_arm_props(fn: FunctionInfo, name: str) -> set[str]:
    """parse_keyword is one if/elif chain over the directive name: an unbound read belongs to the directive whose arm it is in"""
    from .cfg import CFG

    props: set[str] = set()
    g = CFG(fn.node)
    for x in ast.walk(fn.node):
        if isinstance(x, ast.Name) and x.id == name and isinstance(x.ctx, ast.Load):
            try:
                conds = g.path_conditions(g.node_containing(x))
            except Exception:  # noqa: BLE001
                return set(KEYWORD_OWNER.values())
            kws = [t.split("==")[1].strip().strip("'\"") for t, pol in conds if pol and t.startswith("keyword.value ==")]
            props |= {KEYWORD_OWNER[k] for k in kws if k in KEYWORD_OWNER} or set(KEYWORD_OWNER.values())
    return props


def names_rule(ctx: Ctx) -> None:
    """Shared rule RU: in the functions of this property's mechanism every local that is read is bound somewhere in the function."""
    n = 0
    hits = 0
    for fn in ctx.repo.all_functions():
        n += 1
    ctx.count("functions_scanned", n)
    ctx.floor("functions_scanned", 200)
    for fn, name, _line in unbound_reads(ctx.repo):
        rel = owned(ctx.prop, fn.fq) or any(fnmatch.fnmatchcase(fn.fq, pat) and ctx.prop in props for pat, props in EXTRA_SCOPE.items())
        if fn.fq == "a816.parse.parser_states:parse_keyword":
            rel = ctx.prop in _keyword_arm_props(fn, name)
        if rel:
            hits += 1
            ctx.fail(f"{fn.where}:{name}", f"`{name}` is read but never bound in this function (nor at module level): the statement raises NameError for every input that reaches it")
    for fn, name, where in possibly_unbound(ctx.repo):
        rel = owned(ctx.prop, fn.fq) or any(fnmatch.fnmatchcase(fn.fq, pat) and ctx.prop in props for pat, props in EXTRA_SCOPE.items())
        if fn.fq == "a816.parse.parser_states:parse_keyword":
            rel = ctx.prop in _keyword_arm_props(fn, name)
        if rel:
            hits += 1
            ctx.fail(f"{fn.where}:{name}", f"`{name}` is read at `{where}` on a path that never bound it (its initialisation is missing): UnboundLocalError on that path")
    for m, attr in unbound_attributes(ctx.repo):
        rel = owned(ctx.prop, m.fq) or any(fnmatch.fnmatchcase(m.fq, pat) and ctx.prop in props for pat, props in EXTRA_SCOPE.items())
        if rel:
            hits += 1
            ctx.fail(f"{m.where}:self.{attr}", f"`self.{attr}` is read but no method of the class (or of its bases) ever assigns it: AttributeError on the first use")
    for fn, text in discarded_exceptions(ctx.repo):
        # an error that is built and dropped is a failure the run does not report: C14 owns every such statement, the other properties
        # the ones inside their own mechanism
        rel = ctx.prop == "C14" or owned(ctx.prop, fn.fq) or any(fnmatch.fnmatchcase(fn.fq, pat) and ctx.prop in props for pat, props in EXTRA_SCOPE.items())
        if rel:
            hits += 1
            ctx.fail(f"{fn.where}:{text[:40]}", f"`{text[:70]}` builds an exception and drops it (the `raise` is missing): the condition it reports is silently accepted")
    for fn, text in discarded_checks(ctx.repo):
        rel = ctx.prop == "C14" or owned(ctx.prop, fn.fq) or any(fnmatch.fnmatchcase(fn.fq, pat) and ctx.prop in props for pat, props in EXTRA_SCOPE.items())
        if rel:
            hits += 1
            ctx.fail(f"{fn.where}:{text[:40]}", f"`{text[:70]}` asks whether the token is the expected one and ignores the answer (expect_token raises; accept_token only "
                     "returns a bool): a wrong token is silently accepted")
    if not hits:
        ctx.ok("a816:locals-bound", "every name and every own attribute read in this property's functions is bound; no exception is built and dropped; no token test is "
               "evaluated and ignored")


def discarded_checks(repo: Repo) -> list[tuple[FunctionInfo, str]]:
    """expression statements that call one of the parser's side-effect-free token predicates (functions of the package named accept_token* that
    return a bool and do not consume) and drop the result"""
    preds = set()
    for fn in repo.all_functions():
        if fn.cls is None and fn.name.startswith("accept_token"):
            rets = [r for r in walk_no_nested(fn.node) if isinstance(r, ast.Return)]
            consumes = any(isinstance(c, ast.Call) and isinstance(c.func, ast.Attribute) and c.func.attr in ("next", "pop") for c in ast.walk(fn.node))
            if rets and not consumes:
                preds.add(fn.name)
    out: list[tuple[FunctionInfo, str]] = []
    for fn in repo.all_functions():
        for st in walk_no_nested(fn.node):
            if isinstance(st, ast.Expr) and isinstance(st.value, ast.Call) and isinstance(st.value.func, ast.Name) and st.value.func.id in preds:
                out.append((fn, unparse(st)))
    return out


def discarded_exceptions(repo: Repo) -> list[tuple[FunctionInfo, str]]:
    """expression statements that only construct an exception: `SomeError("...")` where SomeError is an exception class of the package (by
    its bases) or a built-in exception"""
    import builtins

    exc_names = {n for n in dir(builtins) if isinstance(getattr(builtins, n), type) and issubclass(getattr(builtins, n), BaseException)}
    changed = True
    classes = list(repo.all_classes())
    while changed:
        changed = False
        for c in classes:
            if c.name not in exc_names and any(b.split(".")[-1] in exc_names for b in c.base_names):
                exc_names.add(c.name)
                changed = True
    out: list[tuple[FunctionInfo, str]] = []
    for fn in repo.all_functions():
        for st in walk_no_nested(fn.node):
            if isinstance(st, ast.Expr) and isinstance(st.value, ast.Call):
                f = st.value.func
                nm = f.id if isinstance(f, ast.Name) else (f.attr if isinstance(f, ast.Attribute) else None)
                if nm in exc_names:
                    out.append((fn, unparse(st)))
    return out


def possibly_unbound(repo: Repo) -> list[tuple[FunctionInfo, str, str]]:
    """a local that is bound somewhere in the function but read at a point some path reaches without any binding: UnboundLocalError on
    that path (e.g. the initialisation `block = b""` before a loop deleted while the loop still does `block += ...`)."""
    from .cfg import CFG, ENTRY
    from .core import walk_no_nested

    cached = getattr(repo, "_possibly_unbound", None)
    if cached is not None:
        return cached
    out: list[tuple[FunctionInfo, str, str]] = []
    for fn in repo.all_functions():
        try:
            g = CFG(fn.node)
        except Exception:  # noqa: BLE001
            continue
        params = {a.arg for a in fn.node.args.posonlyargs + fn.node.args.args + fn.node.args.kwonlyargs}
        if fn.node.args.vararg:
            params.add(fn.node.args.vararg.arg)
        if fn.node.args.kwarg:
            params.add(fn.node.args.kwarg.arg)
        declared = {n_ for x in ast.walk(fn.node) if isinstance(x, (ast.Global, ast.Nonlocal)) for n_ in x.names}
        comp_vars = {t.id for x in ast.walk(fn.node) if isinstance(x, ast.comprehension) for t in ast.walk(x.target) if isinstance(t, ast.Name)}
        binds: dict[str, set[int]] = {}
        loads: dict[str, list[tuple[int, ast.AST]]] = {}
        for nid, node in g.nodes.items():
            a = node.ast
            if a is None:
                continue
            if node.kind == "for":
                roots_store = [a.target]  # type: ignore[attr-defined]
                roots_load = [a.iter]  # type: ignore[attr-defined]
            elif node.kind == "handler":
                if getattr(a, "name", None):
                    binds.setdefault(a.name, set()).add(nid)  # type: ignore[attr-defined]
                continue
            elif node.kind == "test":
                roots_store, roots_load = [a], [a]
            elif isinstance(a, ast.With):
                roots_store = [i.optional_vars for i in a.items if i.optional_vars is not None]
                roots_load = [i.context_expr for i in a.items]
            elif isinstance(a, (ast.Try, ast.If, ast.While, ast.For)):
                continue
            elif isinstance(a, (ast.FunctionDef, ast.AsyncFunctionDef, ast.ClassDef)):
                binds.setdefault(a.name, set()).add(nid)
                continue
            else:
                roots_store, roots_load = [a], [a]
            for r in roots_store:
                for x in (walk_no_nested(r) if isinstance(r, ast.stmt) else ast.walk(r)):
                    if isinstance(x, ast.Name) and isinstance(x.ctx, (ast.Store,)):
                        binds.setdefault(x.id, set()).add(nid)
                    elif isinstance(x, (ast.Import, ast.ImportFrom)):
                        for al in x.names:
                            binds.setdefault((al.asname or al.name).split(".")[0], set()).add(nid)
                    elif isinstance(x, (ast.FunctionDef, ast.ClassDef)) and x is not fn.node:
                        binds.setdefault(x.name, set()).add(nid)
                    elif isinstance(x, ast.withitem) and x.optional_vars is not None:
                        for t in ast.walk(x.optional_vars):
                            if isinstance(t, ast.Name):
                                binds.setdefault(t.id, set()).add(nid)
            for r in roots_load:
                for x in (walk_no_nested(r) if isinstance(r, ast.stmt) else ast.walk(r)):
                    if isinstance(x, ast.Name) and isinstance(x.ctx, ast.Load):
                        loads.setdefault(x.id, []).append((nid, x))
        for name, uses in loads.items():
            if name in params or name in declared or name in comp_vars or name not in binds:
                continue
            bset = binds[name]
            reach = g.reachable([ENTRY], blocked=list(bset))
            for nid, x in uses:
                a = g.nodes[nid].ast
                # a statement that both binds and reads (x = x + 1, x += 1) reads first: it must itself be reached bound
                if nid in bset:
                    preds = [p for p, succs in g.succ.items() for m, _l in succs if m == nid]
                    if not any(p in reach or p == ENTRY for p in preds):
                        continue
                    reads_own = isinstance(a, ast.AugAssign) or (isinstance(a, (ast.Assign, ast.AnnAssign)) and any(
                        isinstance(y, ast.Name) and y.id == name and isinstance(y.ctx, ast.Load) for y in ast.walk(a.value if a.value is not None else ast.Constant(None))))
                    if not reads_own:
                        continue
                elif nid not in reach:
                    continue
                out.append((fn, name, g.nodes[nid].text()[:50]))
                break
    repo._possibly_unbound = out  # type: ignore[attr-defined]
    return out
