"""Canonical form of a function modulo everyday, purely syntactic, behaviour-preserving edits.

Two functions with the same canonical form compute the same thing: every step below is a local rewrite that keeps values, evaluation
order of anything that can have an effect, and the exceptions raised.  The normaliser uses it to recognise that a function of the
working tree is the function confirmed at the reference commit written differently (guard clauses instead of if/else, an inverted
test, a hoisted temporary, renamed locals, keyword instead of positional arguments, a docstring, annotations ...); the rules then read
the reference spelling of *that same function*.  A function whose canonical form differs goes through the rest of the normaliser and
is read as it stands.

Steps (in this order)
  1  docstring and annotations dropped (`x: T = v` -> `x = v`, bare `x: T` dropped)
  2  negations simplified: not (a in b) -> a not in b, not a == b -> a != b, not a is b -> a is not b, not not x -> x (in tests)
  3  if-statements, bottom-up:
       if not X: A else: B              -> if X: B else: A
       if c: A(terminates) else: B      -> if c: A ; B
       if c: A else: B(terminates)      -> if <not c>: B ; A
       if <negative c>: A(term) ; rest(term)  -> if <positive c>: rest ; A        (both ways out leave the block: pick the positive test)
       if a: (if b: X)                  -> if a and b: X
  4  a local bound once and read once, in the statement that follows its binding and before anything with an effect is evaluated
     there, is substituted (x = E; return x  /  c = T; if c: ...)
  5  comparisons of call-free operands are oriented (b > a -> a < b; literals on the right of ==)
  6  x in [a, b] -> x in (a, b);  n += k (name, int literal) -> n = n + k
  7  keyword arguments that continue the positional ones in parameter order become positional (callee resolved by unique name)
  8  locals are renamed by order of first appearance
"""
from __future__ import annotations

import ast
import copy
import hashlib

TERMINATORS = (ast.Raise, ast.Return, ast.Continue, ast.Break)
_MIRROR = {ast.Gt: ast.Lt, ast.GtE: ast.LtE}
_NEG = {ast.In: ast.NotIn, ast.NotIn: ast.In, ast.Eq: ast.NotEq, ast.NotEq: ast.Eq, ast.Is: ast.IsNot, ast.IsNot: ast.Is}
_NEGATIVE_OPS = (ast.NotIn, ast.NotEq, ast.IsNot)


def _terminates(body: list[ast.stmt]) -> bool:
    return bool(body) and isinstance(body[-1], TERMINATORS)


def _falls_through(body: list[ast.stmt]) -> bool:
    """control can reach the end of the block (an if/else whose two branches both leave does not)"""
    if not body:
        return True
    last = body[-1]
    if isinstance(last, TERMINATORS):
        return False
    if isinstance(last, ast.If) and last.orelse:
        return _falls_through(last.body) or _falls_through(last.orelse)
    return True


def _pure(e: ast.AST) -> bool:
    return not any(isinstance(n, (ast.Call, ast.NamedExpr, ast.Await, ast.Yield, ast.YieldFrom)) for n in ast.walk(e))


def _shape(e: ast.AST) -> str:
    """dump with the identifiers blanked: an ordering key that does not depend on how locals are called"""
    c = copy.deepcopy(e)
    for n in ast.walk(c):
        if isinstance(n, ast.Name):
            n.id = "_"
    return ast.dump(c)


def _negatable(v: ast.expr) -> bool:
    return (isinstance(v, ast.UnaryOp) and isinstance(v.op, ast.Not)) or (isinstance(v, ast.Compare) and len(v.ops) == 1 and type(v.ops[0]) in _NEG)


def negate(test: ast.expr) -> ast.expr:
    """an expression with the opposite truth value, negation pushed one level (exact for ==, is, in; never for orderings); De Morgan over
    an and/or whose operands all take the negation cleanly"""
    if isinstance(test, ast.UnaryOp) and isinstance(test.op, ast.Not):
        return test.operand
    if isinstance(test, ast.Compare) and len(test.ops) == 1 and type(test.ops[0]) in _NEG:
        return ast.Compare(test.left, [_NEG[type(test.ops[0])]()], test.comparators)
    if isinstance(test, ast.BoolOp) and all(_negatable(v) for v in test.values):
        return ast.BoolOp(ast.Or() if isinstance(test.op, ast.And) else ast.And(), [negate(v) for v in test.values])
    return ast.UnaryOp(ast.Not(), test)


def _is_negative(test: ast.expr) -> bool:
    return (isinstance(test, ast.UnaryOp) and isinstance(test.op, ast.Not)) or \
        (isinstance(test, ast.Compare) and len(test.ops) == 1 and isinstance(test.ops[0], _NEGATIVE_OPS)) or \
        (isinstance(test, ast.BoolOp) and isinstance(test.op, ast.Or) and all(_negatable(v) for v in test.values))  # the `and` form is the positive one


def or_chain_compact(node: ast.BoolOp) -> ast.expr | None:
    """x == c1 or x == c2 -> x in (c1, c2) ; isinstance(x, A) or isinstance(x, B) -> isinstance(x, (A, B))   (x call-free)"""
    if not (isinstance(node.op, ast.Or) and len(node.values) >= 2):
        return None
    vs = node.values
    if all(isinstance(v, ast.Compare) and len(v.ops) == 1 and isinstance(v.ops[0], ast.Eq) and isinstance(v.comparators[0], ast.Constant) for v in vs):
        left = vs[0].left  # type: ignore[attr-defined]
        if _pure(left) and all(ast.dump(v.left) == ast.dump(left) for v in vs):  # type: ignore[attr-defined]
            return ast.Compare(left, [ast.In()], [ast.Tuple([v.comparators[0] for v in vs], ast.Load())])  # type: ignore[attr-defined]
    if all(isinstance(v, ast.Call) and isinstance(v.func, ast.Name) and v.func.id == "isinstance" and len(v.args) == 2 and not v.keywords for v in vs):
        first = vs[0].args[0]  # type: ignore[attr-defined]
        if _pure(first) and all(ast.dump(v.args[0]) == ast.dump(first) for v in vs) and all(_pure(v.args[1]) for v in vs):  # type: ignore[attr-defined]
            classes: list[ast.expr] = []
            for v in vs:
                c = v.args[1]  # type: ignore[attr-defined]
                classes.extend(c.elts if isinstance(c, ast.Tuple) else [c])
            return ast.Call(ast.Name("isinstance", ast.Load()), [first, ast.Tuple(classes, ast.Load())], [])
    return None


def or_chain_expand(node: ast.expr) -> ast.expr | None:
    """the reverse of or_chain_compact"""
    if isinstance(node, ast.Compare) and len(node.ops) == 1 and isinstance(node.ops[0], ast.In) and isinstance(node.comparators[0], (ast.Tuple, ast.List)) \
            and len(node.comparators[0].elts) >= 2 and all(isinstance(e, ast.Constant) for e in node.comparators[0].elts) and _pure(node.left):
        return ast.BoolOp(ast.Or(), [ast.Compare(copy.deepcopy(node.left), [ast.Eq()], [e]) for e in node.comparators[0].elts])
    if isinstance(node, ast.Call) and isinstance(node.func, ast.Name) and node.func.id == "isinstance" and len(node.args) == 2 and isinstance(node.args[1], ast.Tuple) \
            and len(node.args[1].elts) >= 2 and _pure(node.args[0]):
        return ast.BoolOp(ast.Or(), [ast.Call(ast.Name("isinstance", ast.Load()), [copy.deepcopy(node.args[0]), e], []) for e in node.args[1].elts])
    return None


def callee_params(node: ast.Call, sig: dict[str, list[str]]) -> tuple[str, list[str]] | None:
    """(key, positional parameter names) of the callee when it is resolved by unique name: a package-level function / class, or a method
    name on which every defining class agrees"""
    if isinstance(node.func, ast.Name) and node.func.id in sig:
        return node.func.id, sig[node.func.id]
    if isinstance(node.func, ast.Attribute) and "." + node.func.attr in sig:
        return "." + node.func.attr, sig["." + node.func.attr]
    return None


class _Simplify(ast.NodeTransformer):
    """steps 1, 2, 5, 6, 7 (expression level and single statements)"""

    def __init__(self, signatures: dict[str, list[str]], de_morgan: bool = False) -> None:
        self.sig = signatures
        self.de_morgan = de_morgan

    def visit_FunctionDef(self, node: ast.FunctionDef) -> ast.AST:
        self.generic_visit(node)
        if node.body and isinstance(node.body[0], ast.Expr) and isinstance(node.body[0].value, ast.Constant) and isinstance(node.body[0].value.value, str):
            node.body = node.body[1:] or [ast.Pass()]
        node.returns = None
        for a in node.args.args + node.args.kwonlyargs + node.args.posonlyargs + ([node.args.vararg] if node.args.vararg else []) + ([node.args.kwarg] if node.args.kwarg else []):
            a.annotation = None
        node.type_comment = None
        return node

    def visit_AnnAssign(self, node: ast.AnnAssign) -> ast.AST | None:
        self.generic_visit(node)
        if node.value is None:
            return None
        return ast.Assign([node.target], node.value)

    def visit_UnaryOp(self, node: ast.UnaryOp) -> ast.AST:
        if self.de_morgan and isinstance(node.op, ast.Not) and isinstance(node.operand, ast.BoolOp):
            # not (a or b) -> not a and not b ; not (a and b) -> not a or not b   (after the if-statements have their polarity)
            inner = node.operand
            return self.visit(ast.BoolOp(ast.Or() if isinstance(inner.op, ast.And) else ast.And(), [ast.UnaryOp(ast.Not(), v) for v in inner.values]))
        self.generic_visit(node)
        if isinstance(node.op, ast.Not):
            o = node.operand
            if isinstance(o, ast.Compare) and len(o.ops) == 1 and type(o.ops[0]) in _NEG:
                return ast.Compare(o.left, [_NEG[type(o.ops[0])]()], o.comparators)
            if isinstance(o, ast.UnaryOp) and isinstance(o.op, ast.Not) and isinstance(o.operand, (ast.Compare, ast.BoolOp)):
                return o.operand  # not not <bool-valued>
        return node

    def visit_BoolOp(self, node: ast.BoolOp) -> ast.AST:
        self.generic_visit(node)
        flat: list[ast.expr] = []
        for v in node.values:
            flat.extend(v.values if isinstance(v, ast.BoolOp) and type(v.op) is type(node.op) else [v])
        node.values = flat
        compact = or_chain_compact(node)
        if compact is not None:
            return compact
        return node

    def visit_Compare(self, node: ast.Compare) -> ast.AST:
        self.generic_visit(node)
        if len(node.ops) > 1 and all(_pure(c) for c in node.comparators[:-1]):
            # a OP x OP2 b  ->  a OP x and x OP2 b   (x call-free: evaluating it twice cannot be observed)
            parts, left = [], node.left
            for op, right in zip(node.ops, node.comparators):
                parts.append(self.visit_Compare(ast.Compare(left, [op], [right])))
                left = copy.deepcopy(right)
            return ast.BoolOp(ast.And(), parts)
        if len(node.ops) == 1:
            op, l, r = node.ops[0], node.left, node.comparators[0]
            if isinstance(op, (ast.In, ast.NotIn)) and isinstance(r, ast.List):
                node.comparators = [ast.Tuple(r.elts, ast.Load())]
            swappable = (_pure(l) and _pure(r)) or isinstance(l, ast.Constant) or isinstance(r, ast.Constant)  # a literal has no evaluation to reorder
            if type(op) in _MIRROR and swappable:
                return ast.Compare(r, [_MIRROR[type(op)]()], [l])
            if isinstance(op, (ast.Eq, ast.NotEq)) and swappable:
                lc, rc = isinstance(l, ast.Constant), isinstance(r, ast.Constant)
                if (lc and not rc) or (lc == rc and _shape(l) > _shape(r)):
                    return ast.Compare(r, [op], [l])
        return node

    def visit_AugAssign(self, node: ast.AugAssign) -> ast.AST:
        self.generic_visit(node)
        if isinstance(node.target, ast.Name) and isinstance(node.op, (ast.Add, ast.Sub)) and isinstance(node.value, ast.Constant) and type(node.value.value) is int:
            return ast.Assign([ast.Name(node.target.id, ast.Store())], ast.BinOp(ast.Name(node.target.id, ast.Load()), node.op, node.value))
        return node

    def visit_Call(self, node: ast.Call) -> ast.AST:
        self.generic_visit(node)
        cp = callee_params(node, self.sig)
        if cp is not None and node.keywords and not any(isinstance(a, ast.Starred) for a in node.args):
            params = cp[1]
            args, kws = list(node.args), list(node.keywords)
            while kws and kws[0].arg is not None and len(args) < len(params) and params[len(args)] == kws[0].arg:
                args.append(kws.pop(0).value)
            node.args, node.keywords = args, kws
        return node


def _if_pass(block: list[ast.stmt], loop_body: bool = False) -> list[ast.stmt]:
    """step 3 on one block (nested blocks first)"""
    # return A if c else B  ->  if c: return A ; return B         x = A if c else B  ->  if c: x = A else: x = B
    pre: list[ast.stmt] = []
    for st in block:
        if isinstance(st, ast.Return) and isinstance(st.value, ast.IfExp):
            pre += [ast.If(st.value.test, [ast.Return(st.value.body)], []), ast.Return(st.value.orelse)]
        elif isinstance(st, ast.Assign) and isinstance(st.value, ast.IfExp) and len(st.targets) == 1 and isinstance(st.targets[0], ast.Name):
            pre.append(ast.If(st.value.test, [ast.Assign([st.targets[0]], st.value.body)], [ast.Assign([copy.deepcopy(st.targets[0])], st.value.orelse)]))
        else:
            pre.append(st)
    block = pre
    # in a loop body: `if c: continue` followed by the rest of the body  ->  if <not c>: rest
    if loop_body:
        for i, st in enumerate(block):
            if isinstance(st, ast.If) and not st.orelse and len(st.body) == 1 and isinstance(st.body[0], ast.Continue) and block[i + 1:]:
                block = block[:i] + [ast.If(negate(st.test), block[i + 1:], [])]
                break
    out: list[ast.stmt] = []
    for st in block:
        for f in ("body", "orelse", "finalbody"):
            v = getattr(st, f, None)
            if isinstance(v, list) and v and isinstance(v[0], ast.stmt):
                setattr(st, f, _if_pass(v, loop_body=isinstance(st, (ast.For, ast.While)) and f == "body"))
        if isinstance(st, ast.Try):
            for h in st.handlers:
                h.body = _if_pass(h.body)
        if isinstance(st, (ast.With, ast.AsyncWith)):
            pass
        if isinstance(st, ast.If):
            # if <negative X>: A else: B  ->  if <positive X>: B else: A
            if st.orelse and _is_negative(st.test):
                st.test, st.body, st.orelse = negate(st.test), st.orelse, st.body
            if st.orelse and _terminates(st.body):
                rest, st.orelse = st.orelse, []
                out.append(_merge(st))
                out.extend(rest)
                continue
            if st.orelse and _terminates(st.orelse):
                body, st.body, st.orelse, st.test = st.body, st.orelse, [], negate(st.test)
                out.append(_merge(st))
                out.extend(body)
                continue
            out.append(_merge(st))
            continue
        out.append(st)
    # both ways out leave the block: `if <negative>: A(term); rest(term)` -> `if <positive>: rest; A`
    for i, st in enumerate(out):
        if isinstance(st, ast.If) and not st.orelse and _terminates(st.body) and _is_negative(st.test) and i + 1 < len(out) and _terminates(out[i + 1:]) \
                and not any(isinstance(x, ast.If) and not x.orelse and _terminates(x.body) for x in out[i + 1:]):
            return out[:i] + [ast.If(negate(st.test), out[i + 1:], [])] + st.body
    return out


def _merge(st: ast.If) -> ast.If:
    """if a: (if b: X)  ->  if a and b: X"""
    while not st.orelse and len(st.body) == 1 and isinstance(st.body[0], ast.If) and not st.body[0].orelse:
        inner = st.body[0]
        vals = (st.test.values if isinstance(st.test, ast.BoolOp) and isinstance(st.test.op, ast.And) else [st.test]) + \
               (inner.test.values if isinstance(inner.test, ast.BoolOp) and isinstance(inner.test.op, ast.And) else [inner.test])
        st.test, st.body = ast.BoolOp(ast.And(), list(vals)), inner.body
    return st


def _header_exprs(st: ast.stmt) -> list[ast.expr]:
    """expressions of a statement that are evaluated exactly once, first, when the statement starts"""
    if isinstance(st, ast.Return) and st.value is not None:
        return [st.value]
    if isinstance(st, ast.If):
        return [st.test]
    if isinstance(st, ast.Assign):
        return [st.value]
    if isinstance(st, ast.Expr):
        return [st.value]
    if isinstance(st, ast.For):
        return [st.iter]
    if isinstance(st, ast.Raise) and st.exc is not None:
        return [st.exc]
    return []


def _evaluated_before(root: ast.expr, target: ast.Name) -> list[ast.AST] | None:
    """nodes of `root` whose evaluation completes before `target` is read (left-to-right order); None when the order is not the plain one"""
    before: list[ast.AST] = []
    found = False

    def walk(n: ast.AST) -> bool:
        nonlocal found
        if n is target:
            found = True
            return True
        if isinstance(n, (ast.Lambda, ast.ListComp, ast.SetComp, ast.DictComp, ast.GeneratorExp, ast.IfExp, ast.BoolOp, ast.NamedExpr, ast.Dict)):
            # conditional or deferred evaluation: only safe when the target is not inside
            if any(x is target for x in ast.walk(n)):
                raise ValueError
            before.append(n)
            return False
        for child in ast.iter_child_nodes(n):
            if walk(child):
                return True
        before.append(n)
        return False

    try:
        walk(root)
    except ValueError:
        return None
    return before if found else None


def _inline_temps(fn: ast.FunctionDef, only: set[str] | None = None, keep: set[str] | None = None) -> int:
    """step 4, to a fixed point.  only / keep: restrict to these names / leave these names alone.  Returns the number substituted."""
    done = 0
    params = {a.arg for a in fn.args.args + fn.args.kwonlyargs + fn.args.posonlyargs} | ({fn.args.vararg.arg} if fn.args.vararg else set()) | ({fn.args.kwarg.arg} if fn.args.kwarg else set())
    for _ in range(20):
        stores: dict[str, int] = {}
        loads: dict[str, int] = {}
        banned = set(params)
        for n in ast.walk(fn):
            if isinstance(n, ast.Name):
                if isinstance(n.ctx, ast.Store):
                    stores[n.id] = stores.get(n.id, 0) + 1
                elif isinstance(n.ctx, ast.Load):
                    loads[n.id] = loads.get(n.id, 0) + 1
                else:
                    banned.add(n.id)
            elif isinstance(n, (ast.Global, ast.Nonlocal)):
                banned |= set(n.names)
            elif n is not fn and isinstance(n, (ast.FunctionDef, ast.AsyncFunctionDef, ast.Lambda, ast.ClassDef)):
                banned |= {x.id for x in ast.walk(n) if isinstance(x, ast.Name)}
            elif isinstance(n, ast.ExceptHandler) and n.name:
                banned.add(n.name)
        changed = False

        def visit_block(block: list[ast.stmt]) -> None:
            nonlocal changed
            i = 0
            while i + 1 < len(block):
                st, nxt = block[i], block[i + 1]
                if isinstance(st, ast.Assign) and len(st.targets) == 1 and isinstance(st.targets[0], ast.Name):
                    x = st.targets[0].id
                    if x not in banned and stores.get(x) == 1 and loads.get(x) == 1 and (only is None or x in only) and (keep is None or x not in keep):
                        for he in _header_exprs(nxt):
                            uses = [n for n in ast.walk(he) if isinstance(n, ast.Name) and n.id == x and isinstance(n.ctx, ast.Load)]
                            if len(uses) == 1:
                                before = _evaluated_before(he, uses[0])
                                if before is not None and all(_pure(b) for b in before):
                                    _replace(nxt, uses[0], st.value)
                                    del block[i]
                                    changed = True
                                    stores[x] = 0
                                    break
                        else:
                            i += 1
                            continue
                        continue
                i += 1
            for st in block:
                for f in ("body", "orelse", "finalbody"):
                    v = getattr(st, f, None)
                    if isinstance(v, list) and v and isinstance(v[0], ast.stmt):
                        visit_block(v)
                if isinstance(st, ast.Try):
                    for h in st.handlers:
                        visit_block(h.body)

        visit_block(fn.body)
        if not changed:
            break
        done += 1
    return done


def _replace(root: ast.AST, target: ast.AST, new: ast.AST) -> None:
    for parent in ast.walk(root):
        for field, value in ast.iter_fields(parent):
            if value is target:
                setattr(parent, field, new)
                return
            if isinstance(value, list):
                for i, v in enumerate(value):
                    if v is target:
                        value[i] = new
                        return


def _alpha(fn: ast.FunctionDef) -> None:
    """step 8"""
    params = {a.arg for a in fn.args.args + fn.args.kwonlyargs + fn.args.posonlyargs} | ({fn.args.vararg.arg} if fn.args.vararg else set()) | ({fn.args.kwarg.arg} if fn.args.kwarg else set())
    banned = set(params)
    bound: set[str] = set()
    for n in ast.walk(fn):
        if isinstance(n, (ast.Global, ast.Nonlocal)):
            banned |= set(n.names)
        elif n is not fn and isinstance(n, (ast.FunctionDef, ast.AsyncFunctionDef, ast.Lambda)):
            a = n.args
            banned |= {x.arg for x in a.args + a.kwonlyargs + a.posonlyargs} | ({a.vararg.arg} if a.vararg else set()) | ({a.kwarg.arg} if a.kwarg else set())
            if hasattr(n, "name"):
                banned.add(n.name)
        elif n is not fn and isinstance(n, ast.ClassDef):
            banned |= {x.id for x in ast.walk(n) if isinstance(x, ast.Name)} | {n.name}
        elif isinstance(n, ast.Name) and isinstance(n.ctx, (ast.Store, ast.Del)):
            bound.add(n.id)
        elif isinstance(n, ast.ExceptHandler) and n.name:
            bound.add(n.name)
    names = bound - banned
    order: dict[str, str] = {}

    def see(name: str) -> str:
        if name in names and name not in order:
            order[name] = f"L{len(order)}__"
        return order.get(name, name)

    class _R(ast.NodeTransformer):
        def visit_Name(self, n: ast.Name) -> ast.AST:
            n.id = see(n.id)
            return n

        def visit_ExceptHandler(self, n: ast.ExceptHandler) -> ast.AST:
            if n.name:
                n.name = see(n.name)
            self.generic_visit(n)
            return n

    _R().visit(fn)


class _Orient(ast.NodeTransformer):
    """== / != of two call-free operands of the same shape: ordered by their text once the locals have canonical names"""

    def visit_Compare(self, node: ast.Compare) -> ast.AST:
        self.generic_visit(node)
        if len(node.ops) == 1 and isinstance(node.ops[0], (ast.Eq, ast.NotEq)):
            l, r = node.left, node.comparators[0]
            if _pure(l) and _pure(r) and not isinstance(l, ast.Constant) and not isinstance(r, ast.Constant) and _shape(l) == _shape(r) and ast.dump(l) > ast.dump(r):
                return ast.Compare(r, node.ops, [l])
        return node


def eliminate_param_copies(fn: ast.FunctionDef) -> int:
    """`v = p` at the top level of the body, p a parameter that is not mentioned again afterwards and v a local not mentioned before: v is p
    under another name (a parameter copied so that "the parameter is not reassigned"); v is renamed to p and the copy dropped"""
    params = _params_of(fn)
    done = 0
    i = 0
    while i < len(fn.body):
        st = fn.body[i]
        if isinstance(st, (ast.Assign, ast.AnnAssign)) and getattr(st, "value", None) is not None:
            tgt = st.targets[0] if isinstance(st, ast.Assign) and len(st.targets) == 1 else (st.target if isinstance(st, ast.AnnAssign) else None)
            if isinstance(tgt, ast.Name) and isinstance(st.value, ast.Name) and st.value.id in params and tgt.id not in params and st.value.id not in ("self", "cls"):
                v, p_ = tgt.id, st.value.id
                before = any(isinstance(n, ast.Name) and n.id == v for b in fn.body[:i] for n in ast.walk(b))
                after_p = any(isinstance(n, ast.Name) and n.id == p_ for b in fn.body[i + 1:] for n in ast.walk(b))
                nested = any(isinstance(n, (ast.FunctionDef, ast.Lambda, ast.ClassDef, ast.Global, ast.Nonlocal)) for n in ast.walk(fn) if n is not fn)
                if not before and not after_p and not nested:
                    for b in fn.body[i + 1:]:
                        for n in ast.walk(b):
                            if isinstance(n, ast.Name) and n.id == v:
                                n.id = p_
                    del fn.body[i]
                    done += 1
                    continue
        i += 1
    return done


def canonical_function(fn: ast.FunctionDef, signatures: dict[str, list[str]]) -> ast.FunctionDef:
    f = copy.deepcopy(fn)
    # a parameter or local called like a package-level callable shadows it
    own = {a.arg for a in f.args.args + f.args.kwonlyargs + f.args.posonlyargs} | {n.id for n in ast.walk(f) if isinstance(n, ast.Name) and isinstance(n.ctx, ast.Store)}
    signatures = {k: v for k, v in signatures.items() if k not in own}
    eliminate_param_copies(f)
    f = _Simplify(signatures).visit(f)
    f.body = _if_pass(f.body) or [ast.Pass()]
    _inline_temps(f)
    # temporaries may have uncovered new negations / nested ifs
    f = _Simplify(signatures).visit(f)
    f.body = _if_pass(f.body) or [ast.Pass()]
    f = _Simplify(signatures, de_morgan=True).visit(f)
    _alpha(f)
    f = _Orient().visit(f)
    return ast.fix_missing_locations(f)


def canonical_hash(fn: ast.FunctionDef, signatures: dict[str, list[str]]) -> str:
    return hashlib.sha256(ast.dump(canonical_function(fn, signatures)).encode()).hexdigest()[:20]


def signatures_of(trees: dict[str, ast.Module]) -> dict[str, list[str]]:
    """callable name -> positional parameter names, for names that denote exactly one module-level function or class constructor in the
    package (a name defined twice, a class without its own __init__, *args: left out)"""
    defs: dict[str, list[list[str] | None]] = {}
    for tree in trees.values():
        for st in tree.body:
            if isinstance(st, ast.FunctionDef):
                ok = not st.args.vararg and not st.args.posonlyargs and not st.decorator_list
                defs.setdefault(st.name, []).append([a.arg for a in st.args.args] if ok else None)
            elif isinstance(st, ast.ClassDef):
                init = [m for m in st.body if isinstance(m, ast.FunctionDef) and m.name == "__init__"]
                ok = bool(init) and not init[0].args.vararg and not init[0].args.posonlyargs
                defs.setdefault(st.name, []).append([a.arg for a in init[0].args.args[1:]] if ok else None)
    out = {k: v[0] for k, v in defs.items() if len(v) == 1 and v[0]}
    # methods, under the key ".name": every class of the package that defines a method of that name gives it the same positional parameters
    meth: dict[str, list[list[str] | None]] = {}
    for tree in trees.values():
        for cls in [n for n in ast.walk(tree) if isinstance(n, ast.ClassDef)]:
            for m in cls.body:
                if isinstance(m, ast.FunctionDef) and not m.name.startswith("__"):
                    ok = not m.args.vararg and not m.args.posonlyargs and not any(isinstance(d, ast.Name) and d.id in ("staticmethod", "classmethod", "property") for d in m.decorator_list)
                    meth.setdefault(m.name, []).append([a.arg for a in m.args.args[1:]] if ok else None)
    for k, v in meth.items():
        if v and all(x is not None and x == v[0] for x in v) and v[0] and k not in _BUILTIN_METHOD_NAMES:
            out["." + k] = v[0]  # type: ignore[assignment]
    return out


# method names that also exist on built-in containers / files / loggers: a receiver of unknown type may not be the package's class
_BUILTIN_METHOD_NAMES = {"get", "pop", "append", "extend", "insert", "remove", "update", "index", "count", "copy", "clear", "items", "keys", "values", "read", "write",
                         "seek", "close", "open", "format", "join", "split", "strip", "startswith", "endswith", "encode", "decode", "search", "match", "group", "sort",
                         "add", "discard", "setdefault", "find", "replace", "lower", "upper", "debug", "info", "warning", "error", "exception", "critical", "log", "emit",
                         "map", "next", "peek", "parse", "scan", "begin", "end"}


# --------------------------------------------------------------------------- a changed function: undo the syntactic noise around the change
def _u(node: ast.AST) -> str:
    return ast.unparse(ast.fix_missing_locations(node))


def _locals_of(fn: ast.FunctionDef) -> set[str]:
    out = {n.id for n in ast.walk(fn) if isinstance(n, ast.Name) and isinstance(n.ctx, ast.Store)}
    out |= {n.name for n in ast.walk(fn) if isinstance(n, ast.ExceptHandler) and n.name}
    return out


def _params_of(fn: ast.FunctionDef) -> set[str]:
    a = fn.args
    return {x.arg for x in a.args + a.kwonlyargs + a.posonlyargs} | ({a.vararg.arg} if a.vararg else set()) | ({a.kwarg.arg} if a.kwarg else set())


def _displays_to_appends(fn: ast.FunctionDef) -> int:
    done = 0
    counter = [0]

    def build(name: str, disp: ast.List, first: ast.stmt) -> list[ast.stmt]:
        out: list[ast.stmt] = [first]
        for e in disp.elts:
            if isinstance(e, ast.Starred):
                out.append(ast.AugAssign(ast.Name(name, ast.Store()), ast.Add(), e.value))
            else:
                out.append(ast.Expr(ast.Call(ast.Attribute(ast.Name(name, ast.Load()), "append", ast.Load()), [e], [])))
        return out

    def visit(block: list[ast.stmt]) -> list[ast.stmt]:
        nonlocal done
        out: list[ast.stmt] = []
        for st in block:
            for f in ("body", "orelse", "finalbody"):
                v = getattr(st, f, None)
                if isinstance(v, list) and v and isinstance(v[0], ast.stmt):
                    setattr(st, f, visit(v))
            if isinstance(st, ast.Try):
                for h in st.handlers:
                    h.body = visit(h.body)
            val = st.value if isinstance(st, (ast.Assign, ast.AnnAssign, ast.Return, ast.AugAssign)) else None
            if isinstance(st, ast.AugAssign):
                # xs += [A, *B, C]  ->  xs.append(A); xs += B; xs.append(C)   (B must not mention xs)
                if isinstance(st.op, ast.Add) and isinstance(st.target, ast.Name) and isinstance(val, ast.List) and any(isinstance(e, ast.Starred) for e in val.elts) \
                        and not any(isinstance(n, ast.Name) and n.id == st.target.id for n in ast.walk(val)):
                    out += build(st.target.id, val, ast.Pass())[1:]
                    done += 1
                    continue
                out.append(st)
                continue
            if isinstance(val, ast.List) and any(isinstance(e, ast.Starred) for e in val.elts):
                if isinstance(st, ast.Return):
                    counter[0] += 1
                    name = f"__list{counter[0]}"
                    out += build(name, val, ast.Assign([ast.Name(name, ast.Store())], ast.List([], ast.Load()))) + [ast.Return(ast.Name(name, ast.Load()))]
                    done += 1
                    continue
                tgt = st.targets[0] if isinstance(st, ast.Assign) and len(st.targets) == 1 else (st.target if isinstance(st, ast.AnnAssign) else None)
                # `xs = [*xs, D]` re-reads xs: only a fresh name is built in place
                if isinstance(tgt, ast.Name) and not any(isinstance(n, ast.Name) and n.id == tgt.id for n in ast.walk(val)):
                    first = copy.copy(st)
                    first.value = ast.List([], ast.Load())  # type: ignore[union-attr]
                    out += build(tgt.id, val, first)
                    done += 1
                    continue
            out.append(st)
        return out

    fn.body = visit(fn.body)
    if done:
        ast.fix_missing_locations(fn)
    return done


def _branch_out_nested_ifexp(fn: ast.FunctionDef) -> int:
    """S(... A if c else B ...)  ->  if c: S(... A ...) else: S(... B ...)   for a simple statement S holding one conditional expression whose test
    is call-free (evaluating such a test a little earlier cannot be observed) and that is evaluated unconditionally within S"""
    done = 0

    def split(st: ast.stmt) -> list[ast.stmt] | None:
        if not isinstance(st, (ast.Return, ast.Expr, ast.Assign, ast.AugAssign)):
            return None
        ifs = [n for n in ast.walk(st) if isinstance(n, ast.IfExp)]
        if len(ifs) != 1 or not _pure(ifs[0].test):
            return None
        ie = ifs[0]
        if isinstance(st, (ast.Return, ast.Assign)) and st.value is ie:
            return None  # the top-level forms have their own steps
        # not under a construct that evaluates it conditionally or repeatedly
        parents: dict[int, ast.AST] = {}
        for p_ in ast.walk(st):
            for c_ in ast.iter_child_nodes(p_):
                parents[id(c_)] = p_
        cur: ast.AST | None = parents.get(id(ie))
        while cur is not None and cur is not st:
            if isinstance(cur, (ast.BoolOp, ast.IfExp, ast.Lambda, ast.ListComp, ast.SetComp, ast.DictComp, ast.GeneratorExp)):
                return None
            cur = parents.get(id(cur))
        names_in_test = {n.id for n in ast.walk(ie.test) if isinstance(n, ast.Name)}
        if any(isinstance(n, ast.NamedExpr) for n in ast.walk(st)) or (isinstance(st, (ast.Assign, ast.AugAssign)) and names_in_test & {n.id for n in ast.walk(st) if isinstance(n, ast.Name) and isinstance(n.ctx, ast.Store)}):
            return None

        def variant(pick: str) -> ast.stmt:
            c = copy.deepcopy(st)
            target = [n for n in ast.walk(c) if isinstance(n, ast.IfExp)][0]
            _replace(c, target, getattr(target, pick))
            # `keyword=None` where None is what the conditional supplied as "nothing": kept as written
            return c

        return [ast.If(ie.test, [variant("body")], [variant("orelse")])]

    def visit(block: list[ast.stmt]) -> list[ast.stmt]:
        nonlocal done
        out: list[ast.stmt] = []
        for st in block:
            for f in ("body", "orelse", "finalbody"):
                v = getattr(st, f, None)
                if isinstance(v, list) and v and isinstance(v[0], ast.stmt):
                    setattr(st, f, visit(v))
            if isinstance(st, ast.Try):
                for h in st.handlers:
                    h.body = visit(h.body)
            new = split(st)
            if new is not None:
                done += 1
                out.extend(new)
            else:
                out.append(st)
        return out

    fn.body = visit(fn.body)
    if done:
        ast.fix_missing_locations(fn)
    return done


def _branch_out_ifexp(fn: ast.FunctionDef) -> int:
    stores: dict[str, int] = {}
    for n in ast.walk(fn):
        if isinstance(n, ast.Name) and isinstance(n.ctx, ast.Store):
            stores[n.id] = stores.get(n.id, 0) + 1
    done = 0

    def subst(stmts: list[ast.stmt], name: str, value: ast.expr) -> list[ast.stmt]:
        class _S(ast.NodeTransformer):
            def visit_Name(self, n: ast.Name) -> ast.AST:
                return copy.deepcopy(value) if n.id == name and isinstance(n.ctx, ast.Load) else n

        return [_S().visit(copy.deepcopy(st)) for st in stmts]

    def visit(block: list[ast.stmt], at_function_end: bool) -> list[ast.stmt]:
        nonlocal done
        for i, st in enumerate(block):
            # x = E + K if c else E   ->   x = E ; if c: x += K        (the conditional adjustment of one value)
            if isinstance(st, ast.Assign) and len(st.targets) == 1 and isinstance(st.targets[0], ast.Name) and isinstance(st.value, ast.IfExp) and _pure(st.value.test):
                ie = st.value
                for plus, base, neg in ((ie.body, ie.orelse, False), (ie.orelse, ie.body, True)):
                    if isinstance(plus, ast.BinOp) and isinstance(plus.op, (ast.Add, ast.Sub)) and isinstance(plus.right, ast.Constant) and ast.dump(plus.left) == ast.dump(base) and _pure(base):
                        x = st.targets[0].id
                        done += 1
                        adj = ast.If(negate(ie.test) if neg else ie.test, [ast.AugAssign(ast.Name(x, ast.Store()), plus.op, plus.right)], [])
                        return visit(block[:i] + [ast.Assign([ast.Name(x, ast.Store())], base), adj] + block[i + 1:], at_function_end)
            if isinstance(st, ast.Assign) and len(st.targets) == 1 and isinstance(st.targets[0], ast.Name) and isinstance(st.value, ast.IfExp) \
                    and stores.get(st.targets[0].id) == 1 and _pure(st.value.body) and _pure(st.value.orelse) and _pure(st.value.test):
                x, rest = st.targets[0].id, block[i + 1:]
                used_elsewhere = sum(1 for n in ast.walk(fn) if isinstance(n, ast.Name) and n.id == x and isinstance(n.ctx, ast.Load)) != \
                    sum(1 for r_ in rest for n in ast.walk(r_) if isinstance(n, ast.Name) and n.id == x and isinstance(n.ctx, ast.Load))
                # the copies must both leave the block the same way the original did: only when the rest ends the function / always leaves
                if 1 <= len(rest) <= 6 and not used_elsewhere and (at_function_end or not _falls_through(rest)):
                    done += 1
                    return block[:i] + [ast.If(st.value.test, subst(rest, x, st.value.body), subst(rest, x, st.value.orelse))]
        for st in block:
            for f in ("body", "orelse", "finalbody"):
                v = getattr(st, f, None)
                if isinstance(v, list) and v and isinstance(v[0], ast.stmt):
                    setattr(st, f, visit(v, False))
        return block

    fn.body = visit(fn.body, True)
    if done:
        ast.fix_missing_locations(fn)
    return done


def inline_new_temps(fn: ast.FunctionDef, ref: ast.FunctionDef) -> int:
    new_names = _locals_of(fn) - _locals_of(ref) - _params_of(fn)
    return _inline_temps(fn, only=new_names) if new_names else 0


def toward_reference(fn: ast.FunctionDef, ref: ast.FunctionDef, signatures: dict[str, list[str]], keep_kw: set | None = None) -> list[str]:
    """A known function that really changed (its canonical form differs from the reference's).  The parts the change did not touch may still
    be spelled differently; each rewrite below is one of the canonical steps, applied in place and only in the direction of the reference
    spelling (decided by what the reference function contains), so that the rules meet the change itself and not the noise around it.
    Returns a description of what was rewritten."""
    notes: list[str] = []
    ref_ifs: dict[str, list[ast.If]] = {}
    for n in ast.walk(ref):
        if isinstance(n, ast.If):
            ref_ifs.setdefault(ast.unparse(n.test), []).append(n)
    if any(isinstance(n, ast.If) and len(n.body) == 1 and isinstance(n.body[0], ast.Continue) for n in ast.walk(ref)):
        ref_ifs["<continue-guard>"] = [ast.If(ast.Constant(True), [], [])]  # the reference function skips with `if ...: continue` itself
    if any(isinstance(n, ast.Return) and isinstance(n.value, ast.IfExp) for n in ast.walk(ref)):
        ref_ifs["<ifexp-return>"] = [ast.If(ast.Constant(True), [], [])]
    ref_text = {ast.unparse(n) for n in ast.walk(ref) if isinstance(n, (ast.Compare, ast.AugAssign, ast.Assign))}
    ref_expr = {ast.unparse(n) for n in ast.walk(ref) if isinstance(n, (ast.BoolOp, ast.Compare, ast.Call))}
    ref_annotated = {ast.unparse(n.target) for n in ast.walk(ref) if isinstance(n, ast.AnnAssign)}
    ref_tests: set[str] = set()
    for n in ast.walk(ref):
        if isinstance(n, (ast.If, ast.While, ast.IfExp)):
            stack = [n.test]
            while stack:
                t_ = stack.pop()
                ref_tests.add(ast.unparse(t_))
                if isinstance(t_, ast.BoolOp):
                    stack.extend(t_.values)
                elif isinstance(t_, ast.UnaryOp) and isinstance(t_.op, ast.Not):
                    stack.append(t_.operand)
    ref_kw = {(n.func.id, k.arg) for n in ast.walk(ref) if isinstance(n, ast.Call) and isinstance(n.func, ast.Name) for k in n.keywords} | \
        {("." + n.func.attr, k.arg) for n in ast.walk(ref) if isinstance(n, ast.Call) and isinstance(n.func, ast.Attribute) for k in n.keywords} | (keep_kw or set())
    if eliminate_param_copies(fn):
        notes.append("parameter copy")
    # -- renamed locals: a new name takes the reference name under which most of its statements read as reference statements
    mine, theirs = _locals_of(fn) - _params_of(fn), _locals_of(ref) - _params_of(ref)
    added, gone = sorted(mine - theirs), sorted(theirs - mine)
    if added and gone:
        import re as _re

        def pieces(f: ast.FunctionDef) -> list[str]:
            out = []
            for n in ast.walk(f):
                if isinstance(n, (ast.Assign, ast.AugAssign, ast.Expr, ast.Return, ast.Raise)):
                    out.append(ast.unparse(n))
                elif isinstance(n, (ast.If, ast.While)):
                    out.append(ast.unparse(n.test))
                elif isinstance(n, ast.For):
                    out.append(ast.unparse(n.target) + " in " + ast.unparse(n.iter))
            return out

        ref_pieces = set(pieces(ref))
        used = {n.id for n in ast.walk(fn) if isinstance(n, ast.Name)}
        for a_ in added:
            mine_p = [p_ for p_ in pieces(fn) if _re.search(rf"\b{_re.escape(a_)}\b", p_)]
            score = {g_: sum(1 for p_ in mine_p if _re.sub(rf"\b{_re.escape(a_)}\b", g_, p_) in ref_pieces) for g_ in gone if g_ not in used}
            best = sorted(score.items(), key=lambda kv: -kv[1])
            if best and best[0][1] > 0 and (len(best) == 1 or best[0][1] > best[1][1]):
                g_ = best[0][0]
                for n in ast.walk(fn):
                    if isinstance(n, ast.Name) and n.id == a_:
                        n.id = g_
                    elif isinstance(n, ast.ExceptHandler) and n.name == a_:
                        n.name = g_
                used.add(g_)
                gone = [x for x in gone if x != g_]
                notes.append(f"local {a_} -> {g_}")
    own = _params_of(fn) | _locals_of(fn)
    sig = {k: v for k, v in signatures.items() if k not in own}

    # -- a list display with unpacking, `xs = [A, *B, C]` / `return [*xs, D]`, is the list built by appends in the same order, when the reference
    # builds its lists that way (no starred display of its own)
    if not any(isinstance(n, ast.Starred) for n in ast.walk(ref)):
        k_ = _displays_to_appends(fn)
        if k_:
            notes.append("starred list display -> appends")
    # -- `x = A if c else B` followed by the statements that use x: the two branches written out (x being A in one copy, B in the other), when the
    # reference has no conditional expression of its own; the rules then meet `if c:` with the statements under it, as in the reference
    if not any(isinstance(n, ast.IfExp) for n in ast.walk(ref)):
        k_ = _branch_out_ifexp(fn) + _branch_out_nested_ifexp(fn)
        if k_:
            notes.append("conditional expression -> branches")
            eliminate_param_copies(fn)
    # -- `x = A if c else B` as a statement of its own -> `if c: x = A else: x = B`, when the reference never assigns a conditional expression
    if not any(isinstance(n, (ast.Assign, ast.AnnAssign)) and isinstance(getattr(n, "value", None), ast.IfExp) for n in ast.walk(ref)):
        def stmt_form(block: list[ast.stmt]) -> list[ast.stmt]:
            out: list[ast.stmt] = []
            for st in block:
                for f in ("body", "orelse", "finalbody"):
                    v = getattr(st, f, None)
                    if isinstance(v, list) and v and isinstance(v[0], ast.stmt):
                        setattr(st, f, stmt_form(v))
                if isinstance(st, ast.Try):
                    for h in st.handlers:
                        h.body = stmt_form(h.body)
                if isinstance(st, ast.Assign) and len(st.targets) == 1 and isinstance(st.targets[0], ast.Name) and isinstance(st.value, ast.IfExp):
                    t_ = st.targets[0].id
                    if isinstance(st.value.orelse, ast.Constant) and st.value.orelse.value is None:
                        out += [ast.Assign([ast.Name(t_, ast.Store())], st.value.orelse), ast.If(st.value.test, [ast.Assign([ast.Name(t_, ast.Store())], st.value.body)], [])]
                    else:
                        out.append(ast.If(st.value.test, [ast.Assign([ast.Name(t_, ast.Store())], st.value.body)], [ast.Assign([ast.Name(t_, ast.Store())], st.value.orelse)]))
                    notes.append("conditional assignment -> if")
                    continue
                out.append(st)
            return out

        fn.body = stmt_form(fn.body)
        ast.fix_missing_locations(fn)
    # -- temporaries the reference does not have
    new_names = _locals_of(fn) - _locals_of(ref) - _params_of(fn)
    if new_names:
        k = _inline_temps(fn, only=new_names)
        if k:
            notes.append("hoisted temporaries")
    # -- if statements: the layout the reference has for the same test
    fn.body = _shape_blocks(fn.body, ref_ifs, notes, fn_top=True)
    # -- expressions
    class _E(ast.NodeTransformer):
        def visit_UnaryOp(self, node: ast.UnaryOp) -> ast.AST:
            self.generic_visit(node)
            if isinstance(node.op, ast.Not) and isinstance(node.operand, ast.Compare) and len(node.operand.ops) == 1 and type(node.operand.ops[0]) in _NEG \
                    and ast.unparse(node) not in {ast.unparse(x) for x in ast.walk(ref) if isinstance(x, ast.UnaryOp)}:
                o = node.operand
                return ast.Compare(o.left, [_NEG[type(o.ops[0])]()], o.comparators)
            return node

        def visit_Compare(self, node: ast.Compare) -> ast.AST:
            self.generic_visit(node)
            if ast.unparse(node) not in ref_expr:
                alt = or_chain_expand(node)
                if alt is not None and _u(alt) in ref_expr:
                    notes.append("membership -> or-chain")
                    return alt
            if len(node.ops) == 1 and ast.unparse(node) not in ref_text:
                op, l, r = node.ops[0], node.left, node.comparators[0]
                if isinstance(op, (ast.In, ast.NotIn)) and isinstance(r, (ast.List, ast.Tuple)):
                    for alt in (ast.Tuple(r.elts, ast.Load()), ast.List(r.elts, ast.Load())):
                        cand = ast.Compare(l, [op], [alt])
                        if _u(cand) in ref_text:
                            notes.append("membership literal")
                            return cand
                mir = {ast.Lt: ast.Gt, ast.Gt: ast.Lt, ast.LtE: ast.GtE, ast.GtE: ast.LtE, ast.Eq: ast.Eq, ast.NotEq: ast.NotEq}
                if type(op) in mir and ((_pure(l) and _pure(r)) or isinstance(l, ast.Constant) or isinstance(r, ast.Constant)):
                    cand = ast.Compare(r, [mir[type(op)]()], [l])
                    if _u(cand) in ref_text or (isinstance(l, ast.Constant) and not isinstance(r, ast.Constant)):
                        # the reference's orientation; for a comparison the reference does not have, the literal goes right as everywhere in it
                        notes.append("comparison orientation")
                        return cand
            return node

        def visit_BoolOp(self, node: ast.BoolOp) -> ast.AST:
            self.generic_visit(node)
            if ast.unparse(node) not in ref_expr:
                alt = or_chain_compact(node)
                if alt is not None and _u(alt) in ref_expr:
                    notes.append("or-chain -> membership")
                    return alt
            return node

        def visit_Assign(self, node: ast.Assign) -> ast.AST:
            self.generic_visit(node)
            v = node.value
            if len(node.targets) == 1 and isinstance(node.targets[0], ast.Name) and isinstance(v, ast.BinOp) and isinstance(v.op, (ast.Add, ast.Sub)) \
                    and isinstance(v.left, ast.Name) and v.left.id == node.targets[0].id and isinstance(v.right, ast.Constant) and type(v.right.value) is int:
                cand = ast.AugAssign(ast.Name(v.left.id, ast.Store()), v.op, v.right)
                if ast.unparse(node) not in ref_text:  # the reference's spelling, or for a statement it does not have the augmented one used throughout
                    notes.append("augmented assignment")
                    return cand
            return node

        def visit_AnnAssign(self, node: ast.AnnAssign) -> ast.AST:
            self.generic_visit(node)
            if node.value is not None and ast.unparse(node.target) not in ref_annotated:
                notes.append("annotation")
                return ast.Assign([node.target], node.value)
            return node

        def visit_AugAssign(self, node: ast.AugAssign) -> ast.AST:
            self.generic_visit(node)
            if isinstance(node.target, ast.Name) and isinstance(node.op, (ast.Add, ast.Sub)) and isinstance(node.value, ast.Constant) and type(node.value.value) is int:
                cand = ast.Assign([ast.Name(node.target.id, ast.Store())], ast.BinOp(ast.Name(node.target.id, ast.Load()), node.op, node.value))
                if _u(cand) in ref_text and ast.unparse(node) not in ref_text:
                    notes.append("augmented assignment")
                    return cand
            return node

        def visit_Call(self, node: ast.Call) -> ast.AST:
            self.generic_visit(node)
            if ast.unparse(node) not in ref_expr:
                alt = or_chain_expand(node)
                if alt is not None and _u(alt) in ref_expr:
                    notes.append("membership -> or-chain")
                    return alt
            cp = callee_params(node, sig)
            if cp is not None and node.keywords and not any(isinstance(a, ast.Starred) for a in node.args):
                params = cp[1]
                args, kws = list(node.args), list(node.keywords)
                while kws and kws[0].arg is not None and len(args) < len(params) and params[len(args)] == kws[0].arg and (cp[0], kws[0].arg) not in ref_kw:
                    args.append(kws.pop(0).value)
                    notes.append("keyword argument")
                node.args, node.keywords = args, kws
            return node

    _E().visit(fn)

    # -- truthiness of a sized object where the reference spells `len(X) > 0` (lists / bytes: the same test)
    def as_len_test(e: ast.expr) -> ast.expr:
        if isinstance(e, ast.BoolOp):
            e.values = [as_len_test(v) for v in e.values]
            return e
        if isinstance(e, ast.UnaryOp) and isinstance(e.op, ast.Not):
            e.operand = as_len_test(e.operand)
            return e
        if isinstance(e, (ast.Name, ast.Attribute)) and ast.unparse(e) not in ref_tests:
            for cand in (f"len({ast.unparse(e)}) > 0", f"len({ast.unparse(e)}) != 0"):
                if cand in ref_expr:
                    notes.append("truthiness -> len() test")
                    return ast.parse(cand, mode="eval").body
        return e

    for n in ast.walk(fn):
        if isinstance(n, (ast.If, ast.While, ast.IfExp)):
            n.test = as_len_test(n.test)

    ast.fix_missing_locations(fn)
    return notes


def _shape_blocks(block: list[ast.stmt], ref_ifs: dict[str, list[ast.If]], notes: list[str], elif_pos: bool = False, loop_body: bool = False,
                  fn_top: bool = False) -> list[ast.stmt]:
    """if statements get the layout the reference uses for the same test (unique match by test text): polarity, else vs guard clause"""
    # return A if c else B  ->  if c: return A ; return B      (unless the reference returns conditional expressions itself)
    if not ref_ifs.get("<ifexp-return>"):
        pre: list[ast.stmt] = []
        for st in block:
            if isinstance(st, ast.Return) and isinstance(st.value, ast.IfExp):
                pre += [ast.If(st.value.test, [ast.Return(st.value.body)], []), ast.Return(st.value.orelse)]
                notes.append("conditional return -> if")
            else:
                pre.append(st)
        block = pre
    # loop body: `if c: continue` + rest  <->  `if not c: rest`, whichever the reference has for that test
    if loop_body:
        for j, st in enumerate(block):
            if isinstance(st, ast.If) and not st.orelse and len(st.body) == 1 and isinstance(st.body[0], ast.Continue) and block[j + 1:] \
                    and ast.unparse(st.test) not in ref_ifs and _u(negate(st.test)) in ref_ifs:
                block = block[:j] + [ast.If(negate(st.test), block[j + 1:], [])]
                notes.append("continue guard -> if")
                break
        if block and isinstance(block[-1], ast.If) and not block[-1].orelse and ast.unparse(block[-1].test) not in ref_ifs:
            neg = _u(negate(block[-1].test))
            if len(ref_ifs.get(neg, [])) == 1 and len(ref_ifs[neg][0].body) == 1 and isinstance(ref_ifs[neg][0].body[0], ast.Continue):
                last = block[-1]
                block = block[:-1] + [ast.If(negate(last.test), [ast.Continue()], [])] + last.body
                notes.append("if -> continue guard")
    out: list[ast.stmt] = []
    i = 0
    while i < len(block):
        st = block[i]
        for f in ("body", "orelse", "finalbody"):
            v = getattr(st, f, None)
            if isinstance(v, list) and v and isinstance(v[0], ast.stmt):
                setattr(st, f, _shape_blocks(v, ref_ifs, notes, loop_body=isinstance(st, (ast.For, ast.While)) and f == "body", elif_pos=isinstance(st, ast.If) and f == "orelse" and len(v) == 1 and isinstance(v[0], ast.If)))
        if isinstance(st, ast.Try):
            for h in st.handlers:
                h.body = _shape_blocks(h.body, ref_ifs, notes)
        if isinstance(st, ast.If) and ast.unparse(st.test) not in ref_ifs:
            # `X in (c1, .., cn)` arm where the reference tests `X == ci` one by one: the arm is split, X being ci in the i-th copy
            t0 = st.test
            if isinstance(t0, ast.Compare) and len(t0.ops) == 1 and isinstance(t0.ops[0], ast.In) and isinstance(t0.comparators[0], (ast.Tuple, ast.List, ast.Set)) \
                    and len(t0.comparators[0].elts) >= 2 and all(isinstance(e, ast.Constant) for e in t0.comparators[0].elts) and _pure(t0.left) \
                    and all(_u(ast.Compare(copy.deepcopy(t0.left), [ast.Eq()], [e])) in ref_ifs for e in t0.comparators[0].elts) \
                    and not any(isinstance(x, ast.Name) and isinstance(x.ctx, ast.Store) and x.id in {y.id for y in ast.walk(t0.left) if isinstance(y, ast.Name)} for b in st.body for x in ast.walk(b)):
                left_text = ast.unparse(t0.left)

                class _Spec(ast.NodeTransformer):
                    def __init__(self, const: ast.Constant) -> None:
                        self.const = const

                    def generic_visit(self, node: ast.AST) -> ast.AST:
                        if isinstance(node, ast.expr) and not isinstance(node, ast.Constant) and ast.unparse(node) == left_text and isinstance(getattr(node, "ctx", ast.Load()), ast.Load):
                            return copy.deepcopy(self.const)
                        return super().generic_visit(node)

                tail = st.orelse
                for e in reversed(t0.comparators[0].elts):
                    body_i = [_Spec(e).visit(copy.deepcopy(b)) for b in st.body]
                    tail = [ast.If(ast.Compare(copy.deepcopy(t0.left), [ast.Eq()], [e]), body_i, tail)]
                st = tail[0]  # type: ignore[assignment]
                block = block[:i] + [st] + block[i + 1:]
                notes.append("membership arm -> one arm per value")
                ast.fix_missing_locations(st)
        if isinstance(st, ast.If):
            # if a: (if b: X)  <->  if a and b: X, whichever the reference has
            if not st.orelse and len(st.body) == 1 and isinstance(st.body[0], ast.If) and not st.body[0].orelse and ast.unparse(st.test) not in ref_ifs:
                both = ast.BoolOp(ast.And(), [st.test, st.body[0].test])
                if _u(both) in ref_ifs:
                    st.test, st.body = both, st.body[0].body
                    notes.append("nested if -> and")
            elif not st.orelse and isinstance(st.test, ast.BoolOp) and isinstance(st.test.op, ast.And) and len(st.test.values) == 2 and ast.unparse(st.test) not in ref_ifs:
                a_, b_ = st.test.values
                outer = ref_ifs.get(ast.unparse(a_), [])
                if len(outer) == 1 and not outer[0].orelse and len(outer[0].body) == 1 and isinstance(outer[0].body[0], ast.If) and not outer[0].body[0].orelse \
                        and ast.unparse(outer[0].body[0].test) == ast.unparse(b_):
                    st.test, st.body = a_, [ast.If(b_, st.body, [])]
                    notes.append("and -> nested if")
            t, tn = ast.unparse(st.test), _u(negate(st.test))
            if t not in ref_ifs and tn not in ref_ifs and st.orelse and isinstance(st.test, ast.UnaryOp) and isinstance(st.test.op, ast.Not):
                # a test the reference does not have at all (the change itself): positive polarity, as everywhere in the reference
                st.test, st.body, st.orelse = negate(st.test), st.orelse, st.body
                notes.append("if/else polarity")
                t, tn = ast.unparse(st.test), _u(negate(st.test))  # (a doubled negation has one more layer to go)
            if t not in ref_ifs and len(ref_ifs.get(tn, [])) == 1:
                if st.orelse:
                    st.test, st.body, st.orelse = negate(st.test), st.orelse, st.body
                    notes.append("if/else polarity")
                    t = tn
                elif _terminates(st.body) and block[i + 1:] and (_terminates(block[i + 1:]) or fn_top):
                    # if <not c>: A(term); rest(term)   ==   if c: rest(term); A(term)     (the end of the function body is a return)
                    a_body = st.body
                    rest_ = _shape_blocks(block[i + 1:], ref_ifs, notes)
                    if _falls_through(rest_):
                        rest_ = rest_ + [ast.Return(None)]
                    st.test, st.body = negate(st.test), rest_
                    notes.append("guard polarity")
                    block = block[:i] + [st] + a_body
                    t = tn
            if t not in ref_ifs and tn not in ref_ifs and st.orelse and _terminates(st.body) and not elif_pos and not (len(st.orelse) == 1 and isinstance(st.orelse[0], ast.If)):
                # a new early exit with the rest of the block under `else` (not an arm of an if/elif chain): the guard-clause layout, so that
                # what follows stays at the nesting level the reference has it
                rest, st.orelse = st.orelse, []
                out.append(st)
                block = block[:i + 1] + rest + block[i + 1:]
                notes.append("new if/else -> guard clause")
                i += 1
                continue
            if len(ref_ifs.get(t, [])) == 1:
                r = ref_ifs[t][0]
                if r.orelse and not st.orelse and _terminates(st.body) and len(block) - i - 1 >= len(r.orelse) \
                        and [type(x) for x in block[i + 1:i + 1 + len(r.orelse)]] == [type(x) for x in r.orelse]:
                    # as many of the following statements as the reference keeps under its else, when they are statements of the same kinds
                    # (any number is equivalent: the body leaves)
                    k = len(r.orelse)
                    st.orelse = _shape_blocks(block[i + 1:i + 1 + k], ref_ifs, notes, elif_pos=k == 1 and isinstance(block[i + 1], ast.If))
                    out.append(st)
                    notes.append("guard clause -> if/else")
                    block = block[:i + 1] + block[i + 1 + k:]
                    i += 1
                    continue
                if not r.orelse and st.orelse and _terminates(st.body):
                    rest, st.orelse = st.orelse, []
                    out.append(st)
                    out.extend(rest)
                    notes.append("if/else -> guard clause")
                    i += 1
                    continue
        out.append(st)
        i += 1
    return out


_LOG_METHODS = {"debug"}  # only what a user never sees by default: error / warning / info texts are output the properties speak about (C17, C14)
_LOG_ROOTS = ("logging.", "logger.", "self.logger.", "log.", "_logger.", "LOGGER.", "LOG.")
_PURE_CALLS = {"str", "repr", "len", "hex", "int", "type", "format", "id"}


def _is_log_statement(st: ast.stmt) -> bool:
    """`logging.getLogger(...).debug(...)`, `logger.info(...)`, `self.logger.error(...)` with arguments that only read"""
    if not (isinstance(st, ast.Expr) and isinstance(st.value, ast.Call) and isinstance(st.value.func, ast.Attribute) and st.value.func.attr in _LOG_METHODS):
        return False
    recv = st.value.func.value
    text = ast.unparse(recv) + "."
    if not (text.startswith(_LOG_ROOTS) or text.startswith("logging.getLogger(")):
        return False
    for a in list(st.value.args) + [k.value for k in st.value.keywords]:
        for n in ast.walk(a):
            if isinstance(n, (ast.NamedExpr, ast.Await, ast.Yield, ast.YieldFrom)):
                return False
            if isinstance(n, ast.Call) and not (isinstance(n.func, ast.Name) and n.func.id in _PURE_CALLS):
                return False
    return True


def drop_new_log_statements(fn: ast.FunctionDef, ref: ast.FunctionDef) -> int:
    """debug-level logging statements the reference function does not have are removed: a trace line is not part of any property
    (error, warning and info messages are: they stay, whether the reference has them or not)"""
    ref_logs = {ast.unparse(n) for n in ast.walk(ref) if isinstance(n, ast.Expr) and _is_log_statement(n)}
    n = 0

    def visit(block: list[ast.stmt]) -> list[ast.stmt]:
        nonlocal n
        out = []
        for st in block:
            for f in ("body", "orelse", "finalbody"):
                v = getattr(st, f, None)
                if isinstance(v, list) and v and isinstance(v[0], ast.stmt):
                    setattr(st, f, visit(v) or [ast.Pass()])
            if isinstance(st, ast.Try):
                for h in st.handlers:
                    h.body = visit(h.body) or [ast.Pass()]
            if _is_log_statement(st) and ast.unparse(st) not in ref_logs:
                n += 1
                continue
            out.append(st)
        return out

    fn.body = visit(fn.body) or [ast.Pass()]
    if n:
        ast.fix_missing_locations(fn)
    return n
