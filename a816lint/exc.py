"""Exception classes, hierarchy and handler classification."""
from __future__ import annotations

import ast

from .cfg import always_raises, handler_names
from .core import ClassInfo, FunctionInfo, Repo, call_name, dotted, unparse, walk_no_nested

BUILTIN_PARENTS = {
    "KeyError": "LookupError", "IndexError": "LookupError", "LookupError": "Exception", "ValueError": "Exception",
    "UnicodeDecodeError": "ValueError", "RuntimeError": "Exception", "RecursionError": "RuntimeError", "NotImplementedError": "RuntimeError",
    "OSError": "Exception", "FileNotFoundError": "OSError", "IOError": "OSError", "TypeError": "Exception", "AssertionError": "Exception",
    "AttributeError": "Exception", "SyntaxError": "Exception", "struct.error": "Exception", "error": "Exception", "StopIteration": "Exception",
    "Exception": "BaseException", "ZeroDivisionError": "ArithmeticError", "ArithmeticError": "Exception", "OverflowError": "ArithmeticError",
    "KeyboardInterrupt": "BaseException", "SystemExit": "BaseException",
}


def ancestors(repo: Repo, name: str) -> list[str]:
    out = [name]
    cur = name
    for _ in range(12):
        ci = repo.find_class(cur)
        if ci is not None:
            nxt = ci.base_names[0].split(".")[-1] if ci.base_names else "object"
        else:
            nxt = BUILTIN_PARENTS.get(cur)
        if not nxt or nxt == "object":
            break
        out.append(nxt)
        cur = nxt
    return out


def catches(repo: Repo, handler: ast.ExceptHandler, exc: str) -> bool:
    names = handler_names(handler)
    if names is None:
        return True
    anc = set(ancestors(repo, exc))
    norm = {"struct.error" if n in ("error", "struct.error") else n for n in names}
    return bool(anc & norm)


def raised_classes(fn: FunctionInfo) -> list[tuple[str, ast.Raise]]:
    out = []
    for n in walk_no_nested(fn.node):
        if isinstance(n, ast.Raise) and n.exc is not None:
            e = n.exc
            nm = call_name(e) if isinstance(e, ast.Call) else dotted(e)
            if nm:
                out.append((nm.split(".")[-1] if not nm.startswith("struct.") else nm, n))
    return out


def handler_disposition(fn: FunctionInfo, t: ast.Try, h: ast.ExceptHandler) -> str:
    """reraise | return-nonzero | sets-error | other"""
    if always_raises(h.body):
        return "reraise"
    last = h.body[-1] if h.body else None
    if isinstance(last, ast.Return) and last.value is not None:
        v = last.value
        if isinstance(v, ast.UnaryOp) and isinstance(v.op, ast.USub) and isinstance(v.operand, ast.Constant) and v.operand.value:
            return "return-nonzero"
        if isinstance(v, ast.Constant) and isinstance(v.value, int) and not isinstance(v.value, bool) and v.value != 0:
            return "return-nonzero"
    # a status flag: from the handler every way out of the function is `return <non-zero literal>` (or a raise)
    try:
        from .cfg import CFG, EXIT

        g = CFG(fn.node)
        reach = g.reachable_with_flags([g.node_of(h)], labels_excluded=["exc"])
        rets = [g.nodes[n].ast for n in reach if g.nodes[n].kind == "stmt" and isinstance(g.nodes[n].ast, ast.Return)]
        falls_off = any(m == EXIT and not isinstance(g.nodes[n].ast, (ast.Return, ast.Raise)) for n in reach for m, _l in g.succ[n])

        def nonzero(v: ast.AST | None) -> bool:
            if isinstance(v, ast.UnaryOp) and isinstance(v.op, ast.USub) and isinstance(v.operand, ast.Constant):
                return bool(v.operand.value)
            return isinstance(v, ast.Constant) and isinstance(v.value, int) and not isinstance(v.value, bool) and v.value != 0

        if rets and not falls_off and all(nonzero(r.value) for r in rets):  # type: ignore[union-attr]
            return "return-nonzero"
    except Exception:  # noqa: BLE001 - the classification stays "other"
        pass
    return "other"
