"""Statement-level control-flow graph for the statement kinds the repository uses.

Nodes are integers; node 0 = ENTRY, 1 = EXIT (normal return / fall off the end), 2 = RAISE
(exception leaves the function).  Every simple statement is one node; `if`/`while` tests and
`for` iterators are nodes whose out-edges carry the labels 'T'/'F' ('loop'/'exit' for `for`).
Statements inside a `try` body get an 'exc' edge to every handler of that try (and onwards to the
enclosing try / RAISE when no handler is a catch-all).
"""
from __future__ import annotations

import ast
from dataclasses import dataclass, field
from typing import Callable, Iterable

from .core import AnalysisError, unparse, walk_no_nested

ENTRY, EXIT, RAISE = 0, 1, 2


@dataclass
class Node:
    id: int
    kind: str  # entry exit raise stmt test for handler
    ast: ast.AST | None = None
    stmt: ast.stmt | None = None  # enclosing statement (for tests: the If/While)

    def text(self) -> str:
        if self.ast is None:
            return self.kind
        t = unparse(self.ast)
        if self.kind == "test":
            return f"<test {t}>"
        if self.kind == "for":
            return f"<for {t}>"
        return t.split("\n")[0]


def _can_raise(node: ast.AST) -> bool:
    for n in walk_no_nested(node):
        if isinstance(n, (ast.Call, ast.Subscript, ast.Raise, ast.Attribute, ast.BinOp, ast.Assert)):
            return True
    return False


_CATCH_ALL = {"Exception", "BaseException"}


class CFG:
    def __init__(self, fn: ast.FunctionDef | ast.Module) -> None:
        self.fn = fn
        self.nodes: dict[int, Node] = {ENTRY: Node(ENTRY, "entry"), EXIT: Node(EXIT, "exit"), RAISE: Node(RAISE, "raise")}
        self.succ: dict[int, list[tuple[int, str]]] = {ENTRY: [], EXIT: [], RAISE: []}
        self.pred: dict[int, list[tuple[int, str]]] = {ENTRY: [], EXIT: [], RAISE: []}
        self._next = 3
        self._of_ast: dict[int, int] = {}
        # stacks
        self._loops: list[tuple[int, list[int]]] = []  # (continue target, break sources)
        self._trys: list[list[tuple[int, ast.ExceptHandler]]] = []  # handler entry nodes per enclosing try
        self._finally: list[ast.Try] = []
        frontier = self._body(fn.body, [(ENTRY, "")])
        for n, lab in frontier:
            self._edge(n, EXIT, lab)

    # ---------------------------------------------------------------- building
    def _new(self, kind: str, a: ast.AST | None, stmt: ast.stmt | None = None) -> int:
        i = self._next
        self._next += 1
        self.nodes[i] = Node(i, kind, a, stmt)
        self.succ[i] = []
        self.pred[i] = []
        if a is not None:
            self._of_ast.setdefault(id(a), i)
        return i

    def _edge(self, a: int, b: int, label: str = "") -> None:
        if (b, label) not in self.succ[a]:
            self.succ[a].append((b, label))
            self.pred[b].append((a, label))

    def _connect(self, frontier: list[tuple[int, str]], target: int) -> None:
        for n, lab in frontier:
            self._edge(n, target, lab)

    def _exc_edges(self, n: int, explicit_types: set[str] | None = None) -> None:
        """edges taken when node n raises."""
        for handlers in reversed(self._trys):
            caught_all = False
            for hnode, h in handlers:
                self._edge(n, hnode, "exc")
                names = _handler_names(h)
                if names is None or names & _CATCH_ALL:
                    caught_all = True
            if caught_all:
                return
        self._edge(n, RAISE, "exc")

    def _body(self, body: list[ast.stmt], frontier: list[tuple[int, str]]) -> list[tuple[int, str]]:
        for st in body:
            frontier = self._stmt(st, frontier)
        return frontier

    def _stmt(self, st: ast.stmt, frontier: list[tuple[int, str]]) -> list[tuple[int, str]]:
        if isinstance(st, ast.If):
            t = self._new("test", st.test, st)
            self._connect(frontier, t)
            if self._trys and _can_raise(st.test):
                self._exc_edges(t)
            out = self._body(st.body, [(t, "T")])
            out += self._body(st.orelse, [(t, "F")]) if st.orelse else [(t, "F")]
            return out
        if isinstance(st, ast.While):
            t = self._new("test", st.test, st)
            self._connect(frontier, t)
            if self._trys and _can_raise(st.test):
                self._exc_edges(t)
            breaks: list[int] = []
            self._loops.append((t, breaks))
            body_out = self._body(st.body, [(t, "T")])
            self._loops.pop()
            self._connect(body_out, t)
            const_true = isinstance(st.test, ast.Constant) and bool(st.test.value)
            out: list[tuple[int, str]] = [] if const_true else [(t, "F")]
            if st.orelse and not const_true:
                out = self._body(st.orelse, out)
            out += [(b, "break") for b in breaks]
            return out
        if isinstance(st, ast.For):
            t = self._new("for", st, st)
            self._connect(frontier, t)
            if self._trys:
                self._exc_edges(t)
            breaks = []
            self._loops.append((t, breaks))
            body_out = self._body(st.body, [(t, "loop")])
            self._loops.pop()
            self._connect(body_out, t)
            out = [(t, "exit")]
            if st.orelse:
                out = self._body(st.orelse, out)
            out += [(b, "break") for b in breaks]
            return out
        if isinstance(st, ast.Try) and st.finalbody:
            # finally: one copy of the final body per way of leaving the protected region
            fin_exc = self._new("finally", None, st)
            pseudo = ast.ExceptHandler(type=None, name=None, body=[])
            self._trys.append([(fin_exc, pseudo)])
            self._finally.append(st)
            inner = ast.Try(body=st.body, handlers=st.handlers, orelse=st.orelse, finalbody=[])
            ast.copy_location(inner, st)
            if st.handlers:
                out = self._stmt(inner, frontier)
            else:
                out = self._body(st.body, frontier)
            self._finally.pop()
            self._trys.pop()
            # exceptional copy: run finalbody then keep propagating
            exc_out = self._body(st.finalbody, [(fin_exc, "")])
            for n, _lab in exc_out:
                self._exc_edges(n)
            if not self.pred[fin_exc]:
                pass
            # normal copy
            return self._body(st.finalbody, out)
        if isinstance(st, ast.Try):
            handler_nodes = [(self._new("handler", h, st), h) for h in st.handlers]
            self._trys.append(handler_nodes)
            body_out = self._body(st.body, frontier)
            self._trys.pop()
            if st.orelse:
                body_out = self._body(st.orelse, body_out)
            out = list(body_out)
            for hnode, h in handler_nodes:
                out += self._body(h.body, [(hnode, "")])
            return out
        if isinstance(st, ast.With):
            n = self._new("stmt", st, st)
            self._connect(frontier, n)
            if self._trys:
                self._exc_edges(n)
            return self._body(st.body, [(n, "")])
        if isinstance(st, ast.Return):
            n = self._new("stmt", st, st)
            self._connect(frontier, n)
            if self._trys and st.value is not None and _can_raise(st.value):
                self._exc_edges(n)
            if self._finally:
                # run the pending final bodies (innermost first) before leaving
                fr: list[tuple[int, str]] = [(n, "return")]
                saved_f, saved_t = self._finally, self._trys
                for k in range(len(saved_f) - 1, -1, -1):
                    self._finally = saved_f[:k]
                    fr = self._body(saved_f[k].finalbody, fr)
                self._finally, self._trys = saved_f, saved_t
                for m, lab in fr:
                    self._edge(m, EXIT, "return")
                return []
            self._edge(n, EXIT, "return")
            return []
        if isinstance(st, ast.Raise):
            n = self._new("stmt", st, st)
            self._connect(frontier, n)
            self._exc_edges(n)
            return []
        if isinstance(st, ast.Break):
            n = self._new("stmt", st, st)
            self._connect(frontier, n)
            if not self._loops:
                raise AnalysisError("cfg: break outside loop")
            if self._finally:
                raise AnalysisError("cfg: break inside try/finally not modelled")
            self._loops[-1][1].append(n)
            return []
        if isinstance(st, ast.Continue):
            n = self._new("stmt", st, st)
            self._connect(frontier, n)
            if not self._loops:
                raise AnalysisError("cfg: continue outside loop")
            self._edge(n, self._loops[-1][0], "continue")
            return []
        if isinstance(st, (ast.FunctionDef, ast.ClassDef, ast.Import, ast.ImportFrom, ast.Pass, ast.Global, ast.Nonlocal)):
            n = self._new("stmt", st, st)
            self._connect(frontier, n)
            return [(n, "")]
        if isinstance(st, (ast.Assign, ast.AugAssign, ast.AnnAssign, ast.Expr, ast.Assert, ast.Delete)):
            n = self._new("stmt", st, st)
            self._connect(frontier, n)
            if self._trys and _can_raise(st):
                self._exc_edges(n)
            return [(n, "")]
        raise AnalysisError(f"cfg: statement kind {type(st).__name__} not modelled (line {getattr(st, 'lineno', '?')})")

    # ---------------------------------------------------------------- queries
    def node_of(self, a: ast.AST) -> int:
        """CFG node of a statement / test expression; for sub-expressions, the node of the enclosing stmt."""
        if id(a) in self._of_ast:
            return self._of_ast[id(a)]
        raise AnalysisError(f"cfg: no node for {unparse(a)[:60]}")

    def node_containing(self, a: ast.AST) -> int:
        for nid, n in self.nodes.items():
            if n.ast is None:
                continue
            root = n.ast
            if n.kind == "for":
                roots = [root.target, root.iter]  # type: ignore[attr-defined]
            elif n.kind == "handler":
                roots = [root.type] if root.type is not None else []  # type: ignore[attr-defined]
            elif isinstance(root, ast.With):
                roots = list(root.items)
            else:
                roots = [root]
            for r in roots:
                for sub in walk_no_nested(r):
                    if sub is a:
                        return nid
        raise AnalysisError(f"cfg: expression not in any node: {unparse(a)[:60]}")

    def find(self, pred: Callable[[Node], bool]) -> list[int]:
        return [i for i, n in self.nodes.items() if pred(n)]

    def reachable(self, start: Iterable[int], blocked: Iterable[int] = (), blocked_edges: Iterable[tuple[int, int, str]] = (),
                  labels_excluded: Iterable[str] = ()) -> set[int]:
        blocked = set(blocked)
        be = set(blocked_edges)
        lx = set(labels_excluded)
        seen: set[int] = set()
        stack = [s for s in start if s not in blocked]
        while stack:
            n = stack.pop()
            if n in seen:
                continue
            seen.add(n)
            for m, lab in self.succ[n]:
                if m in blocked or lab in lx or (n, m, lab) in be:
                    continue
                if m not in seen:
                    stack.append(m)
        return seen

    def reachable_with_flags(self, start: Iterable[int], labels_excluded: Iterable[str] = (), blocked: Iterable[int] = ()) -> set[int]:
        """Like reachable(), but remembers locals that were last assigned a literal constant and takes only the feasible edge of a
        test that reads nothing but such a local (`if ok:`, `if not ok:`, `if err is None:`, `if status == 0:`).  Enough to follow
        a status flag set in an exception handler to the return it selects."""
        lx = set(labels_excluded)

        def truth(test: ast.AST, env: dict[str, object]) -> bool | None:
            if isinstance(test, ast.UnaryOp) and isinstance(test.op, ast.Not):
                r = truth(test.operand, env)
                return None if r is None else not r
            if isinstance(test, ast.Name) and test.id in env:
                return None if env[test.id] == "<not-None>" else bool(env[test.id])
            if isinstance(test, ast.Compare) and len(test.ops) == 1 and isinstance(test.left, ast.Name) and test.left.id in env \
                    and isinstance(test.comparators[0], ast.Constant):
                a, b = env[test.left.id], test.comparators[0].value
                op = test.ops[0]
                if a == "<not-None>":
                    if b is None and isinstance(op, (ast.Is, ast.Eq)):
                        return False
                    if b is None and isinstance(op, (ast.IsNot, ast.NotEq)):
                        return True
                    return None
                if isinstance(op, ast.Is):
                    return a is b if (a is None or b is None or isinstance(a, bool) or isinstance(b, bool)) else a == b
                if isinstance(op, ast.IsNot):
                    return not (a is b if (a is None or b is None or isinstance(a, bool) or isinstance(b, bool)) else a == b)
                if isinstance(op, ast.Eq):
                    return a == b
                if isinstance(op, ast.NotEq):
                    return a != b
            return None

        seen: set[tuple[int, tuple]] = set()
        out: set[int] = set()
        blk = set(blocked)
        stack: list[tuple[int, tuple]] = [(s_, ()) for s_ in start if s_ not in blk]
        while stack:
            n, envt = stack.pop()
            if (n, envt) in seen or n in blk:
                continue
            seen.add((n, envt))
            out.add(n)
            env = dict(envt)
            node = self.nodes[n]
            a = node.ast
            only: str | None = None
            if node.kind == "test" and a is not None:
                r = truth(a, env)
                if r is not None:
                    only = "T" if r else "F"
            elif node.kind == "stmt" and a is not None:
                if isinstance(a, ast.Assign) and len(a.targets) == 1 and isinstance(a.targets[0], ast.Name):
                    if isinstance(a.value, ast.Constant):
                        env[a.targets[0].id] = a.value.value
                    elif isinstance(a.value, ast.Name) and a.value.id in env:
                        env[a.targets[0].id] = env[a.value.id]
                    elif isinstance(a.value, ast.JoinedStr) or (isinstance(a.value, ast.Call) and isinstance(a.value.func, ast.Name) and a.value.func.id in ("str", "repr", "format")):
                        env[a.targets[0].id] = "<not-None>"  # a string built here: its truth is unknown, but it is not None
                    else:
                        env.pop(a.targets[0].id, None)
                elif isinstance(a, (ast.AugAssign, ast.AnnAssign)) and isinstance(a.target, ast.Name):
                    if isinstance(a, ast.AnnAssign) and isinstance(a.value, ast.Constant):
                        env[a.target.id] = a.value.value
                    else:
                        env.pop(a.target.id, None)
                else:
                    for x in ast.walk(a):
                        if isinstance(x, ast.Name) and isinstance(x.ctx, ast.Store):
                            env.pop(x.id, None)
            elif a is not None and node.kind in ("for", "handler"):
                for x in ast.walk(a.target if node.kind == "for" else a):  # type: ignore[attr-defined]
                    if isinstance(x, ast.Name) and isinstance(getattr(x, "ctx", None), ast.Store):
                        env.pop(x.id, None)
            nenv = tuple(sorted(env.items(), key=lambda kv: kv[0]))
            for m, lab in self.succ[n]:
                if lab in lx:
                    continue
                if only is not None and lab in ("T", "F") and lab != only:
                    continue
                stack.append((m, nenv))
        return out

    def values_at_returns(self, start: int, var: str, labels_excluded: Iterable[str] = ()) -> dict[int, set[ast.AST | None]]:
        """for every `return` reachable from `start`: the right-hand sides of the assignments to `var` that can be the last one
        executed on the way there (None = none since `start`)"""
        lx = set(labels_excluded)
        out: dict[int, set[ast.AST | None]] = {}
        seen: set[tuple[int, int]] = set()
        stack: list[tuple[int, ast.AST | None]] = [(start, None)]
        while stack:
            n, last = stack.pop()
            key = (n, id(last))
            if key in seen:
                continue
            seen.add(key)
            node = self.nodes[n]
            a = node.ast
            if node.kind == "stmt" and a is not None:
                if isinstance(a, ast.Assign) and any(isinstance(t, ast.Name) and t.id == var for t in a.targets):
                    last = a.value
                elif isinstance(a, ast.AnnAssign) and isinstance(a.target, ast.Name) and a.target.id == var and a.value is not None:
                    last = a.value
                elif isinstance(a, ast.Return):
                    out.setdefault(n, set()).add(last)
            for m, lab in self.succ[n]:
                if lab not in lx:
                    stack.append((m, last))
        return out

    def every_path_passes(self, src: int, dst: int, through: Iterable[int], labels_excluded: Iterable[str] = ()) -> bool:
        """True iff every path src -> dst contains a node of `through` (strictly between or equal to src)."""
        through = set(through)
        if src in through:
            return True
        return dst not in self.reachable([src], blocked=through, labels_excluded=labels_excluded)

    def dominated_by(self, target: int, doms: Iterable[int], labels_excluded: Iterable[str] = ()) -> bool:
        return self.every_path_passes(ENTRY, target, doms, labels_excluded)

    def dominated_by_edge(self, target: int, edge: tuple[int, str]) -> bool:
        """every ENTRY->target path takes out-edge `label` of node `edge[0]`."""
        n, lab = edge
        others = [(n, m, l) for m, l in self.succ[n] if l != lab]
        if not any(l == lab for _, l in self.succ[n]):
            return False
        # block all other out-edges of n, and require n itself to dominate
        if target in self.reachable([ENTRY], blocked=[n]):
            return False
        # reaching target after n only via `lab`
        starts = [m for m, l in self.succ[n] if l != lab]
        # target must not be reachable from the other edges without coming back through n's lab edge
        reach_other = self.reachable(starts, blocked=[n]) if starts else set()
        return target not in reach_other

    def path_conditions(self, target: int, fn: ast.FunctionDef | None = None, keep: Iterable[str] = ()) -> set[tuple[str, bool]]:
        """(canonical test text, truth value) for every test whose outcome is fixed on all paths from ENTRY to `target`.
        With `fn`, single-assignment locals in the tests are inlined first."""
        from .match import canon_test, inline, last_assignments

        env = {k: v for k, v in last_assignments(fn).items() if k not in set(keep)} if fn is not None else {}
        out: set[tuple[str, bool]] = set()
        for nid, node in self.nodes.items():
            if node.kind != "test" or nid == target:
                continue
            for lab, val in (("T", True), ("F", False)):
                if any(l == lab for _, l in self.succ[nid]) and self.dominated_by_edge(target, (nid, lab)):
                    test = inline(node.ast, env) if env else node.ast
                    parts = [test]
                    # a conjunction that is true makes each conjunct true; a disjunction that is false makes each disjunct false
                    if isinstance(test, ast.BoolOp) and ((isinstance(test.op, ast.And) and val) or (isinstance(test.op, ast.Or) and not val)):
                        parts = list(test.values)
                    for p in parts:
                        t, pol = canon_test(p)
                        out.add((t, val if pol else not val))
        return out

    def stmts_text(self, ids: Iterable[int]) -> list[str]:
        return [self.nodes[i].text() for i in ids]


def _handler_names(h: ast.ExceptHandler) -> set[str] | None:
    if h.type is None:
        return None
    elts = h.type.elts if isinstance(h.type, ast.Tuple) else [h.type]
    out = set()
    for e in elts:
        u = unparse(e)
        out.add(u.split(".")[-1] if not u.startswith("struct.") else u)
    return out


def handler_names(h: ast.ExceptHandler) -> set[str] | None:
    return _handler_names(h)


def always_raises(body: list[ast.stmt]) -> bool:
    """Syntactic: every path through `body` ends in `raise` (no fall-through, no return)."""
    if not body:
        return False
    last = body[-1]
    if isinstance(last, ast.Raise):
        return True
    if isinstance(last, ast.If):
        return bool(last.orelse) and always_raises(last.body) and always_raises(last.orelse)
    return False


def ends_in(body: list[ast.stmt], kinds: tuple[type, ...]) -> bool:
    if not body:
        return False
    last = body[-1]
    if isinstance(last, kinds):
        return True
    if isinstance(last, ast.If):
        return bool(last.orelse) and ends_in(last.body, kinds) and ends_in(last.orelse, kinds)
    return False
