"""Literal evaluator: folds dict/list/tuple/set displays, ints, strings, enum attributes and
constructor calls into plain data, without executing any repository code."""
from __future__ import annotations

import ast
import operator
from dataclasses import dataclass
from typing import Any

from .core import AnalysisError, ModuleInfo, Repo, dotted, unparse


@dataclass(frozen=True)
class EnumVal:
    enum: str
    member: str

    def __repr__(self) -> str:
        return f"{self.enum}.{self.member}"


@dataclass(frozen=True)
class CallVal:
    func: str
    args: tuple
    kwargs: tuple  # tuple of (name, value)

    def kw(self, name: str, default: Any = None) -> Any:
        for k, v in self.kwargs:
            if k == name:
                return v
        return default


@dataclass(frozen=True)
class NameRef:
    """A name that resolves to a repo function/class (kept symbolic)."""

    name: str


class NotConst(AnalysisError):
    pass


_BIN = {
    ast.Add: operator.add, ast.Sub: operator.sub, ast.Mult: operator.mul, ast.FloorDiv: operator.floordiv,
    ast.LShift: operator.lshift, ast.RShift: operator.rshift, ast.BitAnd: operator.and_,
    ast.BitOr: operator.or_, ast.BitXor: operator.xor, ast.Mod: operator.mod,
}


def freeze(v: Any) -> Any:
    if isinstance(v, dict):
        return tuple(sorted(((freeze(k), freeze(x)) for k, x in v.items()), key=repr))
    if isinstance(v, (list, tuple)):
        return tuple(freeze(x) for x in v)
    if isinstance(v, set):
        return tuple(sorted((freeze(x) for x in v), key=repr))
    return v


class ConstEval:
    def __init__(self, repo: Repo, module: ModuleInfo, local_env: dict[str, Any] | None = None) -> None:
        self.repo = repo
        self.module = module
        self.env = dict(local_env or {})
        self._busy: set[str] = set()

    def is_enum(self, cls_name: str) -> bool:
        r = self.repo.resolve_name(self.module, cls_name)
        if r and r[0] == "class":
            ci = r[1]
            return any(b.split(".")[-1] == "Enum" for b in ci.base_names)  # type: ignore[union-attr]
        return False

    def ev(self, node: ast.AST) -> Any:
        if isinstance(node, ast.Constant):
            return node.value
        if isinstance(node, ast.Tuple):
            return tuple(self.ev(e) for e in node.elts)
        if isinstance(node, ast.List):
            return [self.ev(e) for e in node.elts]
        if isinstance(node, ast.Set):
            return {freeze(self.ev(e)) for e in node.elts}
        if isinstance(node, ast.Dict):
            out = {}
            for k, v in zip(node.keys, node.values):
                if k is None:
                    raise NotConst(f"dict unpacking not modelled: {unparse(node)[:60]}")
                out[freeze(self.ev(k))] = self.ev(v)
            return out
        if isinstance(node, ast.UnaryOp):
            v = self.ev(node.operand)
            if isinstance(node.op, ast.USub):
                return -v
            if isinstance(node.op, ast.Invert):
                return ~v
            if isinstance(node.op, ast.Not):
                return not v
            if isinstance(node.op, ast.UAdd):
                return +v
        if isinstance(node, ast.BinOp) and type(node.op) in _BIN:
            left, right = self.ev(node.left), self.ev(node.right)
            if isinstance(left, (int, str, bytes, tuple, list)) and isinstance(right, (int, str, bytes, tuple, list)):
                try:
                    return _BIN[type(node.op)](left, right)
                except Exception as e:  # noqa: BLE001
                    raise NotConst(str(e)) from e
            raise NotConst(f"non-literal operands: {unparse(node)[:60]}")
        if isinstance(node, ast.Attribute):
            d = dotted(node)
            if d and d.count(".") == 1:
                base, member = d.split(".")
                if self.is_enum(base):
                    return EnumVal(base, member)
            raise NotConst(f"attribute not constant: {unparse(node)[:60]}")
        if isinstance(node, ast.Name):
            if node.id in self.env:
                return self.env[node.id]
            if node.id in ("True", "False", "None"):
                return {"True": True, "False": False, "None": None}[node.id]
            r = self.repo.resolve_name(self.module, node.id)
            if r is None:
                raise NotConst(f"unknown name {node.id}")
            if r[0] in ("func", "class"):
                return NameRef(r[1].name)  # type: ignore[union-attr]
            if r[0] == "global":
                mi, nm = r[1]  # type: ignore[misc]
                key = f"{mi.name}:{nm}"
                if key in self._busy:
                    raise NotConst(f"cyclic constant {key}")
                writes = [st for n, st in mi.assigns_all if n == nm]
                if len(writes) != 1:
                    raise NotConst(f"{key} is bound {len(writes)} times")
                self._busy.add(key)
                try:
                    return ConstEval(self.repo, mi).ev(mi.assigns[nm])
                finally:
                    self._busy.discard(key)
            raise NotConst(f"name {node.id} is not a constant")
        if isinstance(node, ast.Call):
            fn = dotted(node.func)
            if fn is None:
                raise NotConst(f"call not constant: {unparse(node)[:60]}")
            args = tuple(freeze(self.ev(a)) for a in node.args)
            kwargs = []
            for k in node.keywords:
                if k.arg is None:
                    raise NotConst("**kwargs not modelled")
                kwargs.append((k.arg, freeze(self.ev(k.value))))
            return CallVal(fn, args, tuple(kwargs))
        raise NotConst(f"not a literal: {type(node).__name__} {unparse(node)[:60]}")


def module_const(repo: Repo, module: str, name: str) -> Any:
    mi = repo.module(module)
    if name not in mi.assigns:
        raise AnalysisError(f"anchor missing: {module}:{name}")
    writes = [st for n, st in mi.assigns_all if n == name]
    if len(writes) != 1:
        raise AnalysisError(f"{module}:{name} is bound {len(writes)} times at module level; table not a single literal")
    try:
        return ConstEval(repo, mi).ev(mi.assigns[name])
    except NotConst as e:
        raise AnalysisError(f"{module}:{name} is not a literal display: {e}") from e
