"""Loader, program model and small AST helpers.

Everything here reads source text with `ast`; nothing imports or runs a816.
"""
from __future__ import annotations

import ast
import hashlib
import os
from dataclasses import dataclass, field
from typing import Callable, Iterable, Iterator


class AnalysisError(Exception):
    """The analysis cannot decide: anchor missing, idiom not modelled, parse failure."""


SCOPE_DIRS = ("a816", "script")


def unparse(node: ast.AST | None) -> str:
    if node is None:
        return "<none>"
    return ast.unparse(node)


def dotted(node: ast.AST) -> str | None:
    """a.b.c for Name/Attribute chains, else None."""
    parts: list[str] = []
    while isinstance(node, ast.Attribute):
        parts.append(node.attr)
        node = node.value
    if isinstance(node, ast.Name):
        parts.append(node.id)
        return ".".join(reversed(parts))
    if isinstance(node, ast.Call):
        inner = dotted(node.func)
        if inner is not None:
            parts.append(inner + "()")
            return ".".join(reversed(parts))
    return None


def call_name(node: ast.AST) -> str | None:
    if isinstance(node, ast.Call):
        return dotted(node.func)
    return None


def walk_no_nested(node: ast.AST, include_root: bool = True) -> Iterator[ast.AST]:
    """ast.walk that does not descend into nested function/class/lambda definitions."""
    stack = [node]
    first = True
    while stack:
        n = stack.pop()
        if not first and isinstance(n, (ast.FunctionDef, ast.AsyncFunctionDef, ast.ClassDef, ast.Lambda)):
            continue
        if not first or include_root:
            yield n
        first = False
        stack.extend(reversed(list(ast.iter_child_nodes(n))))


def calls_in(node: ast.AST, name: str | None = None, suffix: str | None = None) -> list[ast.Call]:
    out = []
    for n in walk_no_nested(node):
        if isinstance(n, ast.Call):
            cn = call_name(n)
            if name is not None and cn != name:
                continue
            if suffix is not None and not (cn is not None and (cn == suffix or cn.endswith("." + suffix))):
                continue
            out.append(n)
    return out


def names_in(node: ast.AST) -> set[str]:
    return {n.id for n in ast.walk(node) if isinstance(n, ast.Name)}


def const_str(node: ast.AST) -> str | None:
    if isinstance(node, ast.Constant) and isinstance(node.value, str):
        return node.value
    return None


@dataclass
class FunctionInfo:
    module: "ModuleInfo"
    node: ast.FunctionDef
    cls: "ClassInfo | None" = None

    @property
    def name(self) -> str:
        return self.node.name

    @property
    def qualname(self) -> str:
        return f"{self.cls.name}.{self.node.name}" if self.cls else self.node.name

    @property
    def fq(self) -> str:
        return f"{self.module.name}:{self.qualname}"

    @property
    def where(self) -> str:
        return f"{self.module.relpath}:{self.qualname}"

    def loc(self, node: ast.AST | None = None) -> str:
        ln = getattr(node, "lineno", None) if node is not None else self.node.lineno
        return f"{self.module.relpath}:{ln}:{self.qualname}"

    def params(self) -> list[str]:
        a = self.node.args
        return [x.arg for x in a.posonlyargs + a.args + a.kwonlyargs]

    def is_property(self) -> bool:
        return any(dotted(d) == "property" for d in self.node.decorator_list)

    def is_static(self) -> bool:
        return any(dotted(d) == "staticmethod" for d in self.node.decorator_list)


@dataclass
class ClassInfo:
    module: "ModuleInfo"
    node: ast.ClassDef
    methods: dict[str, FunctionInfo] = field(default_factory=dict)
    base_names: list[str] = field(default_factory=list)

    @property
    def name(self) -> str:
        return self.node.name

    @property
    def fq(self) -> str:
        return f"{self.module.name}:{self.name}"


@dataclass
class ModuleInfo:
    name: str
    relpath: str
    path: str
    source: str
    tree: ast.Module
    digest: str
    functions: dict[str, FunctionInfo] = field(default_factory=dict)
    classes: dict[str, ClassInfo] = field(default_factory=dict)
    # local name -> (module name, attribute or None for 'import x')
    imports: dict[str, tuple[str, str | None]] = field(default_factory=dict)
    # module level simple assignments  name -> value node (last one wins, all kept in assigns_all)
    assigns: dict[str, ast.AST] = field(default_factory=dict)
    assigns_all: list[tuple[str, ast.stmt]] = field(default_factory=list)


class Repo:
    def __init__(self, root: str, normalize: bool = True) -> None:
        self.root = os.path.abspath(root)
        self.modules: dict[str, ModuleInfo] = {}
        self.normalization: dict[str, object] = {}
        self._load()
        if normalize:
            from .normalize import normalize_repo

            self.normalization = normalize_repo(self)

    # ------------------------------------------------------------------ loading
    def _load(self) -> None:
        found = 0
        for top in SCOPE_DIRS:
            base = os.path.join(self.root, top)
            if not os.path.isdir(base):
                raise AnalysisError(f"anchor missing: directory {top}/ not found under {self.root}")
            for dirpath, dirnames, filenames in os.walk(base):
                dirnames[:] = sorted(d for d in dirnames if d != "__pycache__")
                for fn in sorted(filenames):
                    if not fn.endswith(".py"):
                        continue
                    path = os.path.join(dirpath, fn)
                    rel = os.path.relpath(path, self.root)
                    modname = rel[:-3].replace(os.sep, ".")
                    if modname.endswith(".__init__"):
                        modname = modname[: -len(".__init__")]
                    with open(path, "rb") as f:
                        raw = f.read()
                    try:
                        src = raw.decode("utf-8")
                        tree = ast.parse(src, filename=rel)
                    except (SyntaxError, UnicodeDecodeError) as e:
                        raise AnalysisError(f"cannot parse {rel}: {e}") from e
                    mi = ModuleInfo(modname, rel, path, src, tree, hashlib.sha256(raw).hexdigest())
                    self._index(mi)
                    self.modules[modname] = mi
                    found += 1
        if found == 0:
            raise AnalysisError("no python files found")

    def _index(self, mi: ModuleInfo) -> None:
        def scan_body(body: list[ast.stmt]) -> None:
            for st in body:
                if isinstance(st, ast.FunctionDef):
                    mi.functions[st.name] = FunctionInfo(mi, st)
                elif isinstance(st, ast.ClassDef):
                    ci = ClassInfo(mi, st)
                    for b in st.bases:
                        d = dotted(b)
                        if d:
                            ci.base_names.append(d)
                    for sub in st.body:
                        if isinstance(sub, ast.FunctionDef):
                            ci.methods[sub.name] = FunctionInfo(mi, sub, ci)
                    mi.classes[st.name] = ci
                elif isinstance(st, ast.Import):
                    for a in st.names:
                        mi.imports[a.asname or a.name.split(".")[0]] = (a.name if a.asname else a.name.split(".")[0], None)
                elif isinstance(st, ast.ImportFrom):
                    if st.module is None:
                        continue
                    for a in st.names:
                        mi.imports[a.asname or a.name] = (st.module, a.name)
                elif isinstance(st, ast.Assign):
                    for t in st.targets:
                        if isinstance(t, ast.Name):
                            mi.assigns[t.id] = st.value
                            mi.assigns_all.append((t.id, st))
                elif isinstance(st, ast.AnnAssign):
                    if isinstance(st.target, ast.Name) and st.value is not None:
                        mi.assigns[st.target.id] = st.value
                        mi.assigns_all.append((st.target.id, st))
                elif isinstance(st, ast.If):
                    # `if typing.TYPE_CHECKING:` imports are needed for annotation resolution
                    scan_body(st.body)
                    scan_body(st.orelse)

        scan_body(mi.tree.body)
        # function-local imports (used to break cycles) are also recorded for resolution
        for fn in ast.walk(mi.tree):
            if isinstance(fn, ast.FunctionDef):
                for st in ast.walk(fn):
                    if isinstance(st, ast.ImportFrom) and st.module:
                        for a in st.names:
                            mi.imports.setdefault(a.asname or a.name, (st.module, a.name))

    # ------------------------------------------------------------------ lookup
    def module(self, name: str) -> ModuleInfo:
        if name not in self.modules:
            raise AnalysisError(f"anchor missing: module {name}")
        return self.modules[name]

    def func(self, module: str, qualname: str) -> FunctionInfo:
        mi = self.module(module)
        if "." in qualname:
            cname, mname = qualname.split(".", 1)
            ci = mi.classes.get(cname)
            if ci is None or mname not in ci.methods:
                raise AnalysisError(f"anchor missing: {module}:{qualname}")
            return ci.methods[mname]
        if qualname not in mi.functions:
            raise AnalysisError(f"anchor missing: {module}:{qualname}")
        return mi.functions[qualname]

    def try_func(self, module: str, qualname: str) -> FunctionInfo | None:
        try:
            return self.func(module, qualname)
        except AnalysisError:
            return None

    def cls(self, module: str, name: str) -> ClassInfo:
        mi = self.module(module)
        if name not in mi.classes:
            raise AnalysisError(f"anchor missing: class {module}:{name}")
        return mi.classes[name]

    def all_functions(self) -> Iterator[FunctionInfo]:
        for mi in self.modules.values():
            yield from mi.functions.values()
            for ci in mi.classes.values():
                yield from ci.methods.values()

    def all_classes(self) -> Iterator[ClassInfo]:
        for mi in self.modules.values():
            yield from mi.classes.values()

    def resolve_name(self, mi: ModuleInfo, name: str, _depth: int = 0) -> tuple[str, object] | None:
        """Resolve a bare name used in module `mi` to ('class', ClassInfo) / ('func', FunctionInfo) /
        ('global', (ModuleInfo, name)) / ('module', modname) / None (builtin or unknown)."""
        if _depth > 5:
            return None
        if name in mi.classes:
            return ("class", mi.classes[name])
        if name in mi.functions:
            return ("func", mi.functions[name])
        if name in mi.assigns:
            return ("global", (mi, name))
        if name in mi.imports:
            mod, attr = mi.imports[name]
            if attr is None:
                return ("module", mod)
            if mod in self.modules:
                return self.resolve_name(self.modules[mod], attr, _depth + 1)
            # `from a816.parse import x` style: module attribute may be a submodule
            if f"{mod}.{attr}" in self.modules:
                return ("module", f"{mod}.{attr}")
            return ("external", f"{mod}.{attr}")
        return None

    def find_class(self, name: str) -> ClassInfo | None:
        """Unique class of that name anywhere in scope (class names are unique in this repo)."""
        hits = [c for c in self.all_classes() if c.name == name]
        return hits[0] if len(hits) == 1 else None

    def bases(self, ci: ClassInfo) -> list[ClassInfo]:
        out = []
        for b in ci.base_names:
            r = self.resolve_name(ci.module, b.split(".")[-1])
            if r and r[0] == "class":
                out.append(r[1])  # type: ignore[arg-type]
        return out

    def mro(self, ci: ClassInfo) -> list[ClassInfo]:
        seen: list[ClassInfo] = []

        def go(c: ClassInfo) -> None:
            if c in seen:
                return
            seen.append(c)
            for b in self.bases(c):
                go(b)

        go(ci)
        return seen

    def lookup_method(self, ci: ClassInfo, name: str) -> FunctionInfo | None:
        for c in self.mro(ci):
            if name in c.methods:
                return c.methods[name]
        return None

    def subclasses(self, ci: ClassInfo, strict: bool = True) -> list[ClassInfo]:
        out = []
        for c in self.all_classes():
            if c is ci and strict:
                continue
            if ci in self.mro(c):
                out.append(c)
        return out

    def digests(self) -> dict[str, str]:
        return {m.relpath: m.digest[:16] for m in self.modules.values()}


def method_body_is_stub(fn: FunctionInfo) -> bool:
    """Protocol stubs: body is only a docstring / pass / ellipsis."""
    for st in fn.node.body:
        if isinstance(st, ast.Expr) and isinstance(st.value, ast.Constant):
            continue
        if isinstance(st, ast.Pass):
            continue
        return False
    return True
