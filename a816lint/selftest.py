"""Self-test: apply registered single-site edits to a scratch copy of the sources and re-run the rules.

A *mutant* breaks the property's decided clause while still compiling; the rules must report it (a failure whose
rule id starts with `expect`).  A *neutral twin* is a behaviour-preserving edit; the rules must stay silent and must
not end in an analysis error.  Scratch copies live in a temp dir outside /repo and /verif and are removed at once.
"""
from __future__ import annotations

import ast
import os
import shutil
import tempfile
from typing import Any

from .core import SCOPE_DIRS


def _copy_sources(root: str) -> str:
    tmp = tempfile.mkdtemp(prefix="a816lint-selftest-")
    for d in SCOPE_DIRS:
        shutil.copytree(os.path.join(root, d), os.path.join(tmp, d), ignore=shutil.ignore_patterns("__pycache__"))
    return tmp


def apply_edit(tmp: str, m: dict[str, Any]) -> str | None:
    """Returns None when applied, else the reason it is inapplicable."""
    edits = m.get("edits") or [(m["file"], m["old"], m["new"])]
    for file, old, new in edits:
        p = os.path.join(tmp, file)
        if not os.path.exists(p):
            return f"{file} missing"
        s = open(p).read()
        if s.count(old) != 1:
            return f"anchor text occurs {s.count(old)} times in {file}"
        s = s.replace(old, new)
        try:
            ast.parse(s)
        except SyntaxError as e:
            return f"edit does not compile: {e}"
        with open(p, "w") as f:
            f.write(s)
    return None


def _apply_patch(tmp: str, patch: str) -> str | None:
    import subprocess

    r = subprocess.run(["patch", "-s", "-p1", "--no-backup-if-mismatch", "-i", patch], cwd=tmp, capture_output=True, text=True)
    return None if r.returncode == 0 else "patch does not apply to the current tree"


def _one(args: tuple[str, str, dict[str, Any], list[str]]) -> dict[str, Any]:
    from .engine import analyse

    prop, root, m, base_fail = args
    tmp = _copy_sources(root)
    try:
        why = _apply_patch(tmp, m["patch"]) if "patch" in m else apply_edit(tmp, m)
        if why is not None:
            return {"id": m["id"], "status": "inapplicable", "why": why}
        ctx = analyse(prop, tmp)
        new_fail = [o for o in ctx.failures if o.key not in base_fail]
        if m.get("neutral"):
            if new_fail or (ctx.errors and not m.get("errors_tolerated")):
                return {"id": m["id"], "status": "false_alarm", "why": f"{[o.key for o in new_fail][:3]} {ctx.errors[:2]}"}
            return {"id": m["id"], "status": "neutral_silent"}
        hits = [o for o in new_fail if o.rule.startswith(m["expect"])]
        if hits:
            return {"id": m["id"], "status": "detected", "reported": hits[0].key, "detail": hits[0].detail[:160]}
        return {"id": m["id"], "status": "missed",
                "why": f"expected {m['expect']}; got {[o.key for o in new_fail][:3]} errors={ctx.errors[:2]}"}
    finally:
        shutil.rmtree(tmp, ignore_errors=True)


def _corpus(prop: str) -> list[dict[str, Any]]:
    """sub-agent corpora kept under /verif: seeds this property's check reported (must still be reported) and every
    behaviour-preserving variant (this property's check must stay silent)."""
    import glob
    import json

    here = os.path.dirname(os.path.dirname(os.path.abspath(__file__)))
    out: list[dict[str, Any]] = []
    for mf in sorted(glob.glob(os.path.join(here, "seeded", "*", "meta.json"))):
        m = json.load(open(mf))
        if m.get("property") == prop and m.get("caught_by_own_property"):
            out.append({"prop": prop, "id": f"seeded/{os.path.basename(os.path.dirname(mf))}", "patch": os.path.join(os.path.dirname(mf), "patch.diff"),
                        "expect": prop, "neutral": False})
    for mf in sorted(glob.glob(os.path.join(here, "neutral", "*", "meta.json"))):
        m = json.load(open(mf))
        if m.get("result", {}).get("applies"):
            tolerated = prop in (m.get("result", {}).get("analysis_errors") or {})
            out.append({"prop": prop, "id": f"neutral/{os.path.basename(os.path.dirname(mf))}", "patch": os.path.join(os.path.dirname(mf), "patch.diff"),
                        "expect": prop, "neutral": True, "errors_tolerated": tolerated})
    return out


def run_selftest(prop: str, root: str) -> dict[str, Any]:
    from concurrent.futures import ProcessPoolExecutor

    from .engine import analyse
    from .mutants import MUTANTS

    mine = [m for m in MUTANTS if m["prop"] == prop] + _corpus(prop)
    res: dict[str, Any] = {"mutants": 0, "detected": 0, "neutral": 0, "neutral_silent": 0, "inapplicable": [],
                           "missed": [], "false_alarms": [], "detail": []}
    base = analyse(prop, root)
    base_fail = [o.key for o in base.failures]
    jobs = [(prop, root, m, base_fail) for m in mine]
    workers = min(16, max(1, len(jobs)))
    try:
        with ProcessPoolExecutor(max_workers=workers) as ex:
            outs = list(ex.map(_one, jobs))
    except (OSError, PermissionError):
        outs = [_one(j) for j in jobs]
    for m, o in zip(mine, outs):
        st = o["status"]
        if st == "inapplicable":
            res["inapplicable"].append(f"{o['id']}: {o['why']}")
            continue
        if m.get("neutral"):
            res["neutral"] += 1
            if st == "neutral_silent":
                res["neutral_silent"] += 1
            else:
                res["false_alarms"].append(f"{o['id']}: {o.get('why')}")
        else:
            res["mutants"] += 1
            if st == "detected":
                res["detected"] += 1
                res["detail"].append({"mutant": o["id"], "reported": o["reported"], "detail": o["detail"]})
            else:
                res["missed"].append(f"{o['id']} ({o.get('why')})")
    return res
