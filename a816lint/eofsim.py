"""Abstract evaluation of scanner / parser code under the single abstract state "the input is exhausted".

In that state every token is the EOF token, Scanner.next() returns None without advancing, Scanner.peek() returns the
EOF sentinel, accept(c) is decided by whether the sentinel is in `c`, accept_prefix(non-empty) is False and cursor
guards `pos < len(input)` are False.  The state never changes, so one abstract pass over a loop body (repeated until
the local environment is stable) decides whether the loop can go round forever at end of input.
"""
from __future__ import annotations

import ast
from dataclasses import dataclass
from typing import Any

from .core import AnalysisError, FunctionInfo, Repo, call_name, dotted, unparse

UNKNOWN = object()


class _Tok:
    def __repr__(self) -> str:
        return "<EOF token>"


TOK = _Tok()


@dataclass(frozen=True)
class Enum:
    name: str


EOF_CHAR = "\0"
STUCK = "stuck"


class EofSim:
    def __init__(self, repo: Repo, eof_char: str = EOF_CHAR, max_depth: int = 12) -> None:
        self.repo = repo
        self.eof_char = eof_char
        self.max_depth = max_depth
        self.memo: dict[str, set[str]] = {}
        self.stack: list[str] = []
        self.stuck_loops: list[tuple[FunctionInfo, ast.While]] = []
        self.visited_loops: set[int] = set()

    # ------------------------------------------------------------ expressions
    def ev(self, fn: FunctionInfo, node: ast.AST, env: dict[str, Any]) -> Any:
        if isinstance(node, ast.Constant):
            return node.value
        if isinstance(node, ast.Name):
            if node.id in env:
                return env[node.id]
            if node.id == "EOF":
                return self.eof_char
            if node.id in ("True", "False", "None"):
                return {"True": True, "False": False, "None": None}[node.id]
            # a module-level literal (tuple / list / frozenset of token types, a string of characters) bound exactly once
            r = self.repo.resolve_name(fn.module, node.id)
            if r and r[0] == "global":
                mi, nm = r[1]  # type: ignore[misc]
                writes = [st for n_, st in mi.assigns_all if n_ == nm]
                if len(writes) == 1:
                    v = mi.assigns[nm]
                    if isinstance(v, ast.Call) and call_name(v) in ("frozenset", "tuple", "set", "list") and len(v.args) == 1:
                        v = v.args[0]
                    if isinstance(v, (ast.List, ast.Tuple, ast.Set, ast.Constant)):
                        return self.ev(fn, v, {})
            return UNKNOWN
        if isinstance(node, (ast.List, ast.Tuple, ast.Set)):
            vals = [self.ev(fn, e, env) for e in node.elts]
            return UNKNOWN if any(v is UNKNOWN for v in vals) else tuple(vals)
        if isinstance(node, ast.Attribute):
            d = dotted(node)
            if d and d.startswith("TokenType."):
                return Enum(d.split(".")[1])
            base = self.ev(fn, node.value, env)
            if base is TOK:
                if node.attr == "type":
                    return Enum("EOF")
                if node.attr == "value":
                    return ""
            return UNKNOWN
        if isinstance(node, ast.UnaryOp) and isinstance(node.op, ast.Not):
            v = self.ev(fn, node.operand, env)
            return UNKNOWN if v is UNKNOWN else (not v)
        if isinstance(node, ast.BoolOp):
            vals = [self.ev(fn, v, env) for v in node.values]
            if isinstance(node.op, ast.And):
                if any(v is not UNKNOWN and not v for v in vals):
                    return False
                return UNKNOWN if any(v is UNKNOWN for v in vals) else True
            if any(v is not UNKNOWN and bool(v) for v in vals):
                return True
            return UNKNOWN if any(v is UNKNOWN for v in vals) else False
        if isinstance(node, ast.Compare) and len(node.ops) == 1:
            txt = unparse(node)
            if txt in ("s.pos < len(s.input)", "self.pos < len(self.input)"):
                return False
            a, b = self.ev(fn, node.left, env), self.ev(fn, node.comparators[0], env)
            if a is UNKNOWN or b is UNKNOWN:
                return UNKNOWN
            op = node.ops[0]
            try:
                if isinstance(op, ast.Eq): return a == b
                if isinstance(op, ast.NotEq): return a != b
                if isinstance(op, ast.Is): return a is b or (a == b and isinstance(a, (Enum, bool, type(None))))
                if isinstance(op, ast.IsNot): return not (a is b or (a == b and isinstance(a, (Enum, bool, type(None)))))
                if isinstance(op, ast.In): return a in b
                if isinstance(op, ast.NotIn): return a not in b
            except TypeError:
                return UNKNOWN
            return UNKNOWN
        if isinstance(node, ast.Call):
            return self.call(fn, node, env)
        return UNKNOWN

    def call(self, fn: FunctionInfo, node: ast.Call, env: dict[str, Any]) -> Any:
        cn = call_name(node) or ""
        recv, _, meth = cn.rpartition(".")
        args = node.args
        if recv in ("p", "s", "self") or recv.endswith(".p"):
            if meth in ("current", "peek") and (recv == "p" or (recv == "self" and fn.cls and fn.cls.name == "Parser")):
                return TOK
            if meth == "next" and (recv == "p" or (recv == "self" and fn.cls and fn.cls.name == "Parser")):
                return TOK
            if meth == "backup" and recv == "p":
                return TOK
            if recv == "s" or (recv == "self" and fn.cls and fn.cls.name == "Scanner"):
                if meth == "next":
                    return None
                if meth == "peek":
                    return self.eof_char
                if meth == "accept":
                    c = self.ev(fn, args[0], env) if args else UNKNOWN
                    neg = False
                    if len(args) > 1:
                        neg = self.ev(fn, args[1], env)
                    for k in node.keywords:
                        if k.arg == "negate":
                            neg = self.ev(fn, k.value, env)
                    if c is UNKNOWN or neg is UNKNOWN or not isinstance(c, str):
                        return UNKNOWN
                    return (self.eof_char in c) != bool(neg)
                if meth == "accept_prefix":
                    c = self.ev(fn, args[0], env) if args else UNKNOWN
                    return False if isinstance(c, str) and c else UNKNOWN
                if meth in ("accept_run", "ignore_run", "ignore", "emit", "backup"):
                    return None
                if meth in ("get_position", "current_token_text", "get_token"):
                    return UNKNOWN
        if cn in ("accept_token",) and len(args) == 2:
            a, b = self.ev(fn, args[0], env), self.ev(fn, args[1], env)
            if a is TOK and isinstance(b, Enum):
                return b.name == "EOF"
            return UNKNOWN
        if cn == "accept_tokens" and len(args) == 2:
            a, b = self.ev(fn, args[0], env), self.ev(fn, args[1], env)
            if a is TOK and isinstance(b, tuple):
                return Enum("EOF") in b
            return UNKNOWN
        if cn in ("len", "isinstance", "cast", "str", "int"):
            return UNKNOWN
        return UNKNOWN

    # ------------------------------------------------------------ statements
    def _raises_call(self, fn: FunctionInfo, node: ast.AST, env: dict[str, Any]) -> set[str]:
        """outcomes contributed by calls inside an expression: {'raise'} / {'ok'} / both; plus STUCK from callees"""
        out = {"ok"}
        for c in [n for n in ast.walk(node) if isinstance(n, ast.Call)]:
            cn = call_name(c) or ""
            if cn == "expect_token" and len(c.args) == 2:
                a, b = self.ev(fn, c.args[0], env), self.ev(fn, c.args[1], env)
                if a is TOK and isinstance(b, Enum):
                    return {"raise"} if b.name != "EOF" else out
                out.add("raise")
            elif cn == "expect_tokens" and len(c.args) == 2:
                a, b = self.ev(fn, c.args[0], env), self.ev(fn, c.args[1], env)
                if a is TOK and isinstance(b, tuple):
                    return {"raise"} if Enum("EOF") not in b else out
                out.add("raise")
            else:
                callee = None
                if "." not in cn and cn:
                    r = self.repo.resolve_name(fn.module, cn)
                    if r and r[0] == "func":
                        callee = r[1]
                if callee is not None and callee.params() and callee.params()[0] in ("p", "s") and any(unparse(a) in ("p", "s") for a in c.args):
                    res = self.run_function(callee)  # type: ignore[arg-type]
                    if res == {"raise"}:
                        return {"raise"}
                    if STUCK in res:
                        out.add(STUCK)
                    if "raise" in res:
                        out.add("raise")
        return out

    def run_function(self, fn: FunctionInfo) -> set[str]:
        """{'return','raise',STUCK} outcomes at end of input."""
        if fn.fq in self.memo:
            return self.memo[fn.fq]
        if fn.fq in self.stack or len(self.stack) > self.max_depth:
            return {"return", "raise"}  # recursion: bounded by the interpreter's recursion limit; assume either
        self.stack.append(fn.fq)
        try:
            env: dict[str, Any] = {}
            outs = self.block(fn, fn.node.body, env)
            res = set()
            for o in outs:
                res.add("return" if o in ("next", "return") else o)
            res.discard("break")
            res.discard("continue")
        finally:
            self.stack.pop()
        self.memo[fn.fq] = res
        return res

    def block(self, fn: FunctionInfo, body: list[ast.stmt], env: dict[str, Any]) -> set[str]:
        """possible outcomes: next / break / continue / return / raise / stuck"""
        live = True
        outs: set[str] = set()
        for st in body:
            o = self.stmt(fn, st, env)
            outs |= (o - {"next"})
            if "next" not in o:
                live = False
                break
        if live:
            outs.add("next")
        return outs

    def stmt(self, fn: FunctionInfo, st: ast.stmt, env: dict[str, Any]) -> set[str]:
        if isinstance(st, ast.Raise):
            return {"raise"}
        if isinstance(st, ast.Return):
            r = self._raises_call(fn, st.value, env) if st.value is not None else {"ok"}
            out = set()
            if "ok" in r: out.add("return")
            if "raise" in r: out.add("raise")
            if STUCK in r: out.add(STUCK)
            return out
        if isinstance(st, ast.Break):
            return {"break"}
        if isinstance(st, ast.Continue):
            return {"continue"}
        if isinstance(st, ast.Pass):
            return {"next"}
        if isinstance(st, (ast.Assign, ast.AnnAssign, ast.AugAssign, ast.Expr)):
            val = st.value if not isinstance(st, ast.AugAssign) else st.value
            out: set[str] = set()
            if val is not None:
                r = self._raises_call(fn, val, env)
                if "raise" in r: out.add("raise")
                if STUCK in r: out.add(STUCK)
                if "ok" in r: out.add("next")
                if isinstance(st, ast.Assign) and len(st.targets) == 1 and isinstance(st.targets[0], ast.Name):
                    env[st.targets[0].id] = self.ev(fn, val, env)
                elif isinstance(st, (ast.Assign, ast.AnnAssign, ast.AugAssign)):
                    for t in (st.targets if isinstance(st, ast.Assign) else [st.target]):
                        for n in ast.walk(t):
                            if isinstance(n, ast.Name):
                                env[n.id] = UNKNOWN
            else:
                out.add("next")
            return out
        if isinstance(st, ast.If):
            r = self._raises_call(fn, st.test, env)
            if r == {"raise"}:
                return {"raise"}
            v = self.ev(fn, st.test, env)
            out = set()
            if "raise" in r: out.add("raise")
            if v is UNKNOWN:
                e1, e2 = dict(env), dict(env)
                out |= self.block(fn, st.body, e1) | self.block(fn, st.orelse, e2)
                for k in set(e1) | set(e2):
                    a, b = e1.get(k, UNKNOWN), e2.get(k, UNKNOWN)
                    env[k] = a if (a is b or (a is not UNKNOWN and b is not UNKNOWN and type(a) is type(b) and a == b)) else UNKNOWN
            elif v:
                out |= self.block(fn, st.body, env)
            else:
                out |= self.block(fn, st.orelse, env)
            return out
        if isinstance(st, ast.While):
            return self.loop(fn, st, env)
        if isinstance(st, ast.For):
            e = dict(env)
            for n in ast.walk(st.target):
                if isinstance(n, ast.Name):
                    e[n.id] = UNKNOWN
            o = self.block(fn, st.body, e)
            env.update({k: UNKNOWN for k in e if e[k] is not env.get(k)})
            res = {"next"} | (o & {"return", "raise", STUCK})
            return res
        if isinstance(st, ast.Try):
            o = self.block(fn, st.body, env)
            out = set(o - {"raise"})
            if "raise" in o or True:
                for h in st.handlers:
                    out |= self.block(fn, h.body, env)
            if "raise" in o and not st.handlers:
                out.add("raise")
            if st.finalbody:
                out |= (self.block(fn, st.finalbody, env) - {"next"})
            return out
        if isinstance(st, ast.With):
            return self.block(fn, st.body, env)
        if isinstance(st, (ast.Import, ast.ImportFrom, ast.Assert, ast.FunctionDef, ast.Global, ast.Delete)):
            return {"next"}
        raise AnalysisError(f"eofsim: statement {type(st).__name__} not modelled in {fn.where}")

    def loop(self, fn: FunctionInfo, st: ast.While, env: dict[str, Any]) -> set[str]:
        self.visited_loops.add(id(st))
        out: set[str] = set()
        for _ in range(4):
            r = self._raises_call(fn, st.test, env)
            if r == {"raise"}:
                out.add("raise")
                return out
            v = self.ev(fn, st.test, env)
            if v is not UNKNOWN and not v:
                out.add("next")
                return out
            before = dict(env)
            o = self.block(fn, st.body, env)
            out |= o & {"return", "raise", STUCK}
            if "break" in o:
                out.add("next")
            if not (o & {"next", "continue"}):
                # body never completes an iteration
                if v is UNKNOWN:
                    out.add("next")
                return out
            if all(env.get(k, UNKNOWN) is before.get(k, UNKNOWN) or (env.get(k, UNKNOWN) is not UNKNOWN and before.get(k, UNKNOWN) is not UNKNOWN and env.get(k) == before.get(k)) for k in set(env) | set(before)):
                # stable environment and the body can complete: the loop goes round again in the same state
                if v is UNKNOWN:
                    out.add("next")
                    out.add("maybe-" + STUCK)
                else:
                    out.add(STUCK)
                    self.stuck_loops.append((fn, st))
                return out
        out.add("maybe-" + STUCK)
        return out
