"""Registered self-test edits. `old` must occur exactly once in `file`; otherwise the edit is reported inapplicable
(the tree changed) and skipped.  Mutants marked revert_of re-introduce a defect repaired by a `fix:` commit."""
from __future__ import annotations

from typing import Any

MUTANTS: list[dict[str, Any]] = []


def M(prop: str, id: str, file: str, old: str, new: str, expect: str = "", neutral: bool = False, **kw: Any) -> None:
    MUTANTS.append({"prop": prop, "id": f"{prop}/{id}", "file": file, "old": old, "new": new,
                    "expect": expect or prop, "neutral": neutral, **kw})


CPU = "a816/cpu/cpu_65c816.py"
NODES = "a816/parse/nodes.py"
PST = "a816/parse/parser_states.py"
SST = "a816/parse/scanner_states.py"
ASTN = "a816/parse/ast/nodes.py"

# ------------------------------------------------------------------ C01
M("C01", "revert-ora-imm-w", CPU, "Opcode([0x09, 0x09], is_a=True)", "Opcode([0x09, 0xA9], is_a=True)", "C01.R1")
M("C01", "swap-sta-long", CPU, '"sta": {\n        AddressingMode.direct: Opcode([0x85, 0x8D, 0x8F]),',
  '"sta": {\n        AddressingMode.direct: Opcode([0x85, 0x8F, 0x8D]),', "C01.R1")
M("C01", "lda-dp-y-undefined", CPU, '"y": Opcode([None, 0xB9, None], is_a=True),\n            "s": Opcode([0xA3]),',
  '"y": Opcode([0xB6, 0xB9, None], is_a=True),\n            "s": Opcode([0xA3]),', "C01.R1")
M("C01", "delete-tsb", CPU, '    "tsb": {AddressingMode.direct: Opcode([0x04, 0x0C])},\n', "", "C01.R2")
M("C01", "bank-byte-unmasked", CPU, 'return struct.pack("<HB", value & 0xFFFF, (value >> 16) & 0xFF)\n        return b""',
  'return struct.pack("<HB", value & 0xFFFF, value >> 16)\n        return b""', "C01.R3")
M("C01", "word-big-endian", CPU, 'return struct.pack("<H", value & 0xFFFF)', 'return struct.pack(">H", value & 0xFFFF)', "C01.R3")
M("C01", "word-mask-ff", CPU, 'return struct.pack("<H", value & 0xFFFF)', 'return struct.pack("<H", value & 0xFF)', "C01.R3")
M("C01", "threshold-lt-2", NODES, "if value_length <= 2:", "if value_length < 2:", "C01.R4")
M("C01", "threshold-neutral", NODES, "if value_length <= 2:", "if value_length < 3:", neutral=True)
M("C01", "swap-index-map", ASTN, "AddressingMode.indirect: AddressingMode.indirect_indexed,\n    AddressingMode.indirect_long: AddressingMode.indirect_indexed_long,",
  "AddressingMode.indirect: AddressingMode.indirect_indexed_long,\n    AddressingMode.indirect_long: AddressingMode.indirect_indexed,", "C01.R5")
M("C01", "revert-index-pair-check", PST, '        if inner_index is not None and (inner_index, index) != ("s", "y"):\n            raise ParserSyntaxError(f"Invalid index combination ({inner_index}),{index}", index_token)\n', "", "C01.R5")
M("C01", "index-pair-too-wide", PST, '(inner_index, index) != ("s", "y")', 'index != "y"', "C01.R5")
M("C01", "bracket-means-indirect", PST, "        expect_token(p.next(), TokenType.RBRAKET)\n        addressing_mode = AddressingMode.indirect_long",
  "        expect_token(p.next(), TokenType.RBRAKET)\n        addressing_mode = AddressingMode.indirect", "C01.R5")
M("C01", "none-slot-falls-through", CPU, "            if opcode_byte is None:\n                raise NoOpcodeForOperandSize()\n            return opcode_byte",
  "            if opcode_byte is None:\n                opcode_byte = self.opcode_def[0] or 0\n            return opcode_byte", "C01.R6")
M("C01", "emitter-default-index", NODES, "opcode_emitter = opcode_emitter[self.index]", "opcode_emitter = opcode_emitter.get(self.index, next(iter(opcode_emitter.values())))", "C01.R6")
M("C01", "reorder-entries-neutral", CPU, '    "nop": {AddressingMode.none: OpcodeWithoutOperand(0xEA)},\n    "rep": {AddressingMode.immediate: Opcode([0xC2])},\n',
  '    "rep": {AddressingMode.immediate: Opcode([0xC2])},\n    "nop": {AddressingMode.none: OpcodeWithoutOperand(0xEA)},\n', neutral=True)

# ------------------------------------------------------------------ C02
PROG = "a816/program.py"
M("C02", "wordnode-advance-3", NODES, "class WordNode(NodeProtocol):\n    def __init__(self, value_node: ValueNodeProtocol) -> None:\n        self.value_node = value_node\n\n    def emit(self, current_address: Address) -> bytes:\n        return struct.pack(\"<H\", self.value_node.get_value() & 0xFFFF)\n\n    def pc_after(self, current_pc: Address) -> Address:\n        return current_pc + 2",
  "class WordNode(NodeProtocol):\n    def __init__(self, value_node: ValueNodeProtocol) -> None:\n        self.value_node = value_node\n\n    def emit(self, current_address: Address) -> bytes:\n        return struct.pack(\"<H\", self.value_node.get_value() & 0xFFFF)\n\n    def pc_after(self, current_pc: Address) -> Address:\n        return current_pc + 3", "C02.R1")
M("C02", "pointer-emits-4", NODES, "    def emit(self, current_addr: Address) -> bytes:\n        value = self.value_node.get_value()\n        return struct.pack(\"<HB\", value & 0xFFFF, (value >> 16) & 0xFF)",
  "    def emit(self, current_addr: Address) -> bytes:\n        value = self.value_node.get_value()\n        return struct.pack(\"<HH\", value & 0xFFFF, (value >> 16) & 0xFF)", "C02.R1")
M("C02", "text-advance-by-text-len", NODES, "return current_pc + len(self.binary_text)", "return current_pc + len(self.text)", "C02.R1")
M("C02", "supposed-length-1-plus", CPU, "return 2 + self.size_opcode_map[value_size]", "return 1 + self.size_opcode_map[value_size]", "C02.R2")
M("C02", "relative-length-3", CPU, "    def supposed_length(self, value_node: \"ValueNodeProtocol | None\", size: ValueSize | None = None) -> int:\n        return 2\n",
  "    def supposed_length(self, value_node: \"ValueNodeProtocol | None\", size: ValueSize | None = None) -> int:\n        return 3\n", "C02.R2")
M("C02", "label-pass-skips-wordnode", PROG, "            if isinstance(node, SymbolNode):\n                continue", "            if isinstance(node, SymbolNode) or isinstance(node, CodePositionNode):\n                continue", "C02.R3")
M("C02", "drop-reloc-advance", PROG, "                self.resolver.reloc_address += len(node_bytes)\n", "", "C02.R3")
M("C02", "drop-reset-between", PROG, "            previous_pc = node.pc_after(previous_pc)\n\n        self.resolver_reset()\n\n        previous_pc", "            previous_pc = node.pc_after(previous_pc)\n\n        previous_pc", "C02.R3")
M("C02", "revert-length-guard", NODES, "            node_bytes = opcode_emitter.emit(self.value_node, self.resolver, self.size)\n            self._check_length(len(node_bytes))\n            return node_bytes",
  "            node_bytes = opcode_emitter.emit(self.value_node, self.resolver, self.size)\n            return node_bytes", "C02.R4")
M("C02", "guard-never-raises", NODES, "if self.predicted_length is not None and self.predicted_length != length:\n            raise NodeError(", "if self.predicted_length is not None and self.predicted_length != length:\n            logger.warning(", "C02.R4")
M("C02", "rename-local-neutral", NODES, "        length = opcode_emitter.supposed_length(self.value_node, self.size)\n        self._check_length(length)\n        self.predicted_length = length\n        return current_pc + length",
  "        n_bytes = opcode_emitter.supposed_length(self.value_node, self.size)\n        self._check_length(n_bytes)\n        self.predicted_length = n_bytes\n        return current_pc + n_bytes", neutral=True)

# ------------------------------------------------------------------ C07
CG = "a816/parse/codegen.py"
M("C07", "word-big-endian", NODES, 'return struct.pack("<H", self.value_node.get_value() & 0xFFFF)', 'return struct.pack(">H", self.value_node.get_value() & 0xFFFF)', "C07.R1")
M("C07", "byte-unmasked", NODES, 'return struct.pack("B", self.value_node.get_value() & 0xFF)', 'return struct.pack("B", self.value_node.get_value())', "C07.R1")
M("C07", "long-bank-from-bit-8", NODES, "class LongNode(NodeProtocol):\n    def __init__(self, value_node: ValueNodeProtocol) -> None:\n        self.value_node = value_node\n\n    def emit(self, current_address: Address) -> bytes:\n        value = self.value_node.get_value()\n        return struct.pack(\"<HB\", value & 0xFFFF, (value >> 16) & 0xFF)",
  "class LongNode(NodeProtocol):\n    def __init__(self, value_node: ValueNodeProtocol) -> None:\n        self.value_node = value_node\n\n    def emit(self, current_address: Address) -> bytes:\n        value = self.value_node.get_value()\n        return struct.pack(\"<HB\", value & 0xFFFF, (value >> 8) & 0xFF)", "C07.R1")
M("C07", "pointer-uses-dw", CG, '"pointer": generate_dl,', '"pointer": generate_dw,', "C07.R2")
M("C07", "dl-parsed-as-dw", PST, 'return DataNode("dl", expressions, keyword)', 'return DataNode("dw", expressions, keyword)', "C07.R2")
M("C07", "db-reversed", CG, "    code: GenNodes = []\n    for expr in node.data:\n        assert isinstance(expr, ExpressionAstNode)\n        code.append(ByteNode(",
  "    code: GenNodes = []\n    for expr in reversed(node.data):\n        assert isinstance(expr, ExpressionAstNode)\n        code.append(ByteNode(", "C07.R3")
M("C07", "dw-skips-zero", CG, "        code.append(WordNode(ExpressionNode(expr, resolver, file_info)))", "        if expr.tokens:\n            code.append(WordNode(ExpressionNode(expr, resolver, file_info)))", "C07.R3")
M("C07", "incbin-label-after", NODES, "self.resolver.current_scope.add_label(self.symbol_base, current_pc)", "self.resolver.current_scope.add_label(self.symbol_base, retval)", "C07.R4")
M("C07", "incbin-text-mode", NODES, 'with open(path, "rb") as binary_file:\n            self.binary_content = binary_file.read()', 'with open(path, "r") as binary_file:\n            self.binary_content = binary_file.read().encode()', "C07.R4")
M("C07", "incbin-size-plus-one", NODES, 'add_symbol(self.symbol_base + "__size", len(self.binary_content))', 'add_symbol(self.symbol_base + "__size", len(self.binary_content) + 1)', "C07.R4")
M("C07", "mask-as-modulo-neutral", NODES, 'return struct.pack("B", self.value_node.get_value() & 0xFF)', 'return struct.pack("B", self.value_node.get_value() % 256)', neutral=True)

# ------------------------------------------------------------------ C03
M("C03", "flush-on-reloc-too", PROG, "if isinstance(node, CodePositionNode):  # or isinstance(node, RelocationAddressNode):", "if isinstance(node, (CodePositionNode, RelocationAddressNode)):", "C03.R2",
  edits=[(PROG, "if isinstance(node, CodePositionNode):  # or isinstance(node, RelocationAddressNode):", "if isinstance(node, (CodePositionNode, RelocationAddressNode)):"),
         (PROG, "    IncludeIpsNode,\n", "    IncludeIpsNode,\n    RelocationAddressNode,\n")])
M("C03", "drop-final-flush", PROG, "\n        if len(current_block) > 0:\n            writer.write_block(current_block, current_block_addr)\n\n    def assemble_string_with_emitter", "\n    def assemble_string_with_emitter", "C03.R2")
M("C03", "prepend", PROG, "current_block += node_bytes", "current_block = node_bytes + current_block", "C03.R2")
M("C03", "flush-with-live-pc", PROG, "                if len(current_block) > 0:\n                    writer.write_block(current_block, current_block_addr)\n                current_block_addr",
  "                if len(current_block) > 0:\n                    writer.write_block(current_block, self.resolver.pc)\n                current_block_addr", "C03.R2")
M("C03", "address-before-flush", PROG, "                if len(current_block) > 0:\n                    writer.write_block(current_block, current_block_addr)\n                current_block_addr = self.resolver.pc\n",
  "                current_block_addr = self.resolver.pc\n                if len(current_block) > 0:\n                    writer.write_block(current_block, current_block_addr)\n", "C03.R2")
M("C03", "set-position-moves-pc-for-ram", "a816/symbols.py", "        if physical is not None:\n            self.pc = physical\n", "        self.pc = physical if physical is not None else pc & 0xFFFF\n", "C03.R3")
M("C03", "label-node-writes-pc", NODES, "        self.resolver.current_scope.add_label(self.symbol_name, current_pc)\n        return current_pc", "        self.resolver.current_scope.add_label(self.symbol_name, current_pc)\n        self.resolver.pc = self.resolver.pc\n        return current_pc", "C03.R1")
M("C03", "reloc-emit-other-target", NODES, "        self.resolver.set_position(self.pc_value_node.get_value())\n        # self", "        self.resolver.set_position(self.pc_value_node.get_value() & 0xFFFF)\n        # self", "C03.R3")
M("C03", "nonempty-test-neutral", PROG, "        if len(current_block) > 0:\n            writer.write_block(current_block, current_block_addr)\n\n    def assemble_string", "        if current_block:\n            writer.write_block(current_block, current_block_addr)\n\n    def assemble_string", neutral=True)

# ------------------------------------------------------------------ C11
WR = "a816/writers.py"
M("C11", "header-little-endian", WR, 'struct.pack(">BH", block_address >> 16, block_address & 0xFFFF)', 'struct.pack("<BH", block_address >> 16, block_address & 0xFFFF)', "C11.R1")
M("C11", "length-of-whole-block", WR, "            self.write_block_header(block_slice, block_address)", "            self.write_block_header(block, block_address)", "C11.R2")
M("C11", "slice-64k", WR, "slice_size = min(0xFFFF, len(block) - k)", "slice_size = min(0x10000, len(block) - k)", "C11.R2")
M("C11", "forget-address-advance", WR, "            block_address += slice_size\n", "", "C11.R2")
M("C11", "high-byte-masked", WR, "block_address >> 16, block_address & 0xFFFF", "(block_address >> 16) & 0xFF, block_address & 0xFFFF", "C11.R1")
M("C11", "copier-0x100", WR, "block_address += 0x200", "block_address += 0x100", "C11.R3")
M("C11", "copier-always", WR, "        if self._copier_header:\n            block_address += 0x200", "        if self._copier_header is not None:\n            block_address += 0x200", "C11.R3")
M("C11", "revert-eof-offset-check", WR, '        if block_address == 0x454F46:\n            raise ValueError("IPS cannot encode a record at offset 0x454F46 (reads as the EOF marker).")\n', "", "C11.R4")
M("C11", "eof-check-before-delta", WR, '        if self._copier_header:\n            block_address += 0x200\n        if block_address == 0x454F46:\n            raise ValueError("IPS cannot encode a record at offset 0x454F46 (reads as the EOF marker).")\n',
  '        if block_address == 0x454F46:\n            raise ValueError("IPS cannot encode a record at offset 0x454F46 (reads as the EOF marker).")\n        if self._copier_header:\n            block_address += 0x200\n', "C11.R4")
M("C11", "end-writes-eof-twice", WR, '        self.file.write(b"EOF")', '        self.file.write(b"EOF")\n        self.file.write(b"EOF")', "C11.R1")
M("C11", "guard-form-neutral", WR, "while block[k:]:", "while k < len(block):", neutral=True)

# ------------------------------------------------------------------ C13
M("C13", "revert-rle-arm", NODES, "                if block_size == 0:\n                    # run-length record: 2-byte count then the byte to repeat.\n                    rle_count, rle_value = struct.unpack(\">HB\", ips_file.read(3))\n                    block = bytes([rle_value]) * rle_count\n                else:\n                    block = ips_file.read(block_size)\n",
  "                block = ips_file.read(block_size)\n", "C13.R1")
M("C13", "rle-count-little-endian", NODES, 'rle_count, rle_value = struct.unpack(">HB", ips_file.read(3))', 'rle_count, rle_value = struct.unpack("<HB", ips_file.read(3))', "C13.R")
M("C13", "offset-little-endian", NODES, 'struct.unpack(">BH", record_header)', 'struct.unpack("<BH", record_header)', "C13.R2")
M("C13", "delta-subtracted", NODES, "block_addr += self.delta", "block_addr -= self.delta", "C13.R3")
M("C13", "emit-args-swapped", PROG, "writer.write_block(block, block_addr)", "writer.write_block(block_addr, block)", "C13.R3")
M("C13", "break-on-short-header", NODES, '                block_addr_bytes = struct.unpack(">BH", record_header)', '                if len(record_header) < 3:\n                    break\n                block_addr_bytes = struct.unpack(">BH", record_header)', "C13.R2")
M("C13", "revert-eof-trailer-peek", NODES, '            while (record_header := ips_file.read(3)) != b"EOF":\n                block_addr_bytes = struct.unpack(">BH", record_header)', '            while ips_file.peek(3)[:3] != b"EOF":\n                block_addr_bytes = struct.unpack(">BH", ips_file.read(3))', "C13.R2")
M("C13", "header-read-twice", NODES, 'block_addr_bytes = struct.unpack(">BH", record_header)', 'block_addr_bytes = struct.unpack(">BH", ips_file.read(3))', "C13.R2")
M("C13", "missing-magic-accepted", NODES, "                raise RuntimeError(f'{self.ips_file_path} is missing \"PATCH\" header')", "                logger.warning(f'{self.ips_file_path} is missing \"PATCH\" header')", "C13.R2")
M("C13", "ips-blocks-appended-to-block", PROG, "                for block_addr, block in node.blocks:\n                    writer.write_block(block, block_addr)", "                for block_addr, block in node.blocks:\n                    writer.write_block(block, block_addr)\n                    current_block_addr = block_addr", "C13.R3")
M("C13", "delta-dropped-in-codegen", CG, "return [IncludeIpsNode(node.file_path, resolver, node.expression)]", "return [IncludeIpsNode(node.file_path, resolver)]", "C13.R4")

# ------------------------------------------------------------------ C05
M("C05", "unsigned-format", CPU, 'struct.pack("b", delta)', 'struct.pack("B", delta & 0xFF)', "C05.R1")
M("C05", "delta-masked", CPU, "            delta -= 2\n", "            delta -= 2\n            delta = ((delta + 128) % 256) - 128\n", "C05.R1")
M("C05", "bias-3", CPU, "            delta -= 2\n", "            delta -= 3\n", "C05.R2")
M("C05", "bias-dropped", CPU, "            delta = physical_destination - pc\n            delta -= 2\n", "            delta = physical_destination - pc\n", "C05.R2")
M("C05", "swallow-range-error", CPU, "        except struct.error:\n            print(value_node)\n            raise", "        except struct.error:\n            print(value_node)\n            return super().emit(value_node, resolver, size) + b\"\\x00\"", "C05.R1")
M("C05", "revert-run-address-check", CPU, "if physical_destination is None or resolver.reloc_address.physical is None:", "if physical_destination is None:", "C05.R3")
M("C05", "target-check-dropped", CPU, "if physical_destination is None or resolver.reloc_address.physical is None:", "if resolver.reloc_address.physical is None:", "C05.R3",
  edits=[(CPU, "if physical_destination is None or resolver.reloc_address.physical is None:", "if resolver.reloc_address.physical is None:"),
         (CPU, "            delta = physical_destination - pc\n", "            delta = (physical_destination or 0) - pc\n")])
M("C05", "pc-advanced-before-emit", PROG, "            node_bytes = node.emit(self.resolver.reloc_address)\n\n            if node_bytes:\n                current_block += node_bytes\n                self.resolver.pc += len(node_bytes)\n",
  "            self.resolver.pc += 0\n            node_bytes = node.emit(self.resolver.reloc_address)\n\n            if node_bytes:\n                current_block += node_bytes\n                self.resolver.pc += len(node_bytes)\n", "C05.R2")
M("C05", "opcode-node-absorbs-struct-error", NODES, "        except SymbolNotDefined as e:\n            raise NodeError(\n                f\"{e} ({self.value_node}) is not defined in the current scope.\",\n                self.file_info,\n            ) from e\n\n    def pc_after",
  "        except SymbolNotDefined as e:\n            raise NodeError(\n                f\"{e} ({self.value_node}) is not defined in the current scope.\",\n                self.file_info,\n            ) from e\n        except struct.error:\n            return b\"\"\n\n    def pc_after", "C05.R1")
M("C05", "bias-as-sum-neutral", CPU, "            delta = physical_destination - pc\n            delta -= 2\n", "            delta = physical_destination - (pc + 2)\n", neutral=True)

# ------------------------------------------------------------------ C06
EXPRF = "a816/parse/ast/expression.py"
M("C06", "swap-and-or-precedence", EXPRF, '    "&": 8,\n    "^": 9,\n    "|": 10,', '    "&": 10,\n    "^": 9,\n    "|": 8,', "C06.R1")
M("C06", "shift-tighter-than-add", EXPRF, '    "<<": 5,\n    ">>": 5,', '    "<<": 3,\n    ">>": 3,', "C06.R1")
M("C06", "minus-looser-than-plus", EXPRF, '    "+": 4,\n    "-": 4,', '    "+": 4,\n    "-": 5,', "C06.R1")
M("C06", "right-associative", EXPRF, "operator_precedence(operator_stack[-1]) <= current_precedence", "operator_precedence(operator_stack[-1]) < current_precedence", "C06.R2")
M("C06", "revert-unary-rank-on-stack", EXPRF, "                and operator_precedence(operator_stack[-1]) <= current_precedence", "                and OPERATOR_PRECEDENCE[operator_stack[-1].token.value] <= current_precedence", "C06.R")
M("C06", "unary-looser-than-mult", EXPRF, "    if isinstance(expr, UnaryOp):\n        return 2\n", "    if isinstance(expr, UnaryOp):\n        return 4\n", "C06.R1")
M("C06", "revert-prefix-never-pops", EXPRF, "                isinstance(expr, BinOp)\n                and len(operator_stack) > 0", "                len(operator_stack) > 0", "C06.R2")
M("C06", "sub-operands-swapped", EXPRF, "r = v1 - v2", "r = v2 - v1", "C06.R3")
M("C06", "shr-is-shl", EXPRF, "r = v1 >> v2", "r = v1 << v2", "C06.R3")
M("C06", "pop-order-swapped", EXPRF, "            v2 = values_stack.pop()\n            v1 = values_stack.pop()\n", "            v1 = values_stack.pop()\n            v2 = values_stack.pop()\n", "C06.R3")
M("C06", "complement-16-under-8", EXPRF, "r = ctypes.c_uint8(~v1).value", "r = ctypes.c_uint16(~v1).value", "C06.R3")
M("C06", "unknown-binary-is-zero", EXPRF, '                raise RuntimeError("operator unknown")', "                r = 0", "C06.R3")
M("C06", "binary-base-8", EXPRF, '    elif number.startswith("0b"):\n        base = 2', '    elif number.startswith("0b"):\n        base = 8', "C06.R4")
M("C06", "renumber-neutral", EXPRF, '    "&": 8,\n    "^": 9,\n    "|": 10,', '    "&": 6,\n    "^": 7,\n    "|": 8,', neutral=True)
M("C06", "for-bounds-second-evaluator", CG, "    to_val = eval_expression(node.max_value, resolver)", "    to_val = int(node.max_value.tokens[0].token.value, 0)", "C06.R5")

# ------------------------------------------------------------------ C04
SYM = "a816/symbols.py"
MAP = "a816/cpu/mapping.py"
M("C04", "lorom-mask-64k", SYM, 'low_rom_bus.map("1", (0x00, 0x6F), (0x8000, 0xFFFF), mask=0x8000,', 'low_rom_bus.map("1", (0x00, 0x6F), (0x8000, 0xFFFF), mask=0x1_0000,', "C04.R1")
M("C04", "lorom-mirror-short", SYM, "mirror_bank_range=(0x80, 0xCF))", "mirror_bank_range=(0x80, 0xBF))", "C04.R1")
M("C04", "hirom-ram-before-rom", SYM, 'high_rom_bus.map("1", (0x40, 0x7F), (0, 0xFFFF), mask=0x1_0000, mirror_bank_range=(0xC0, 0xFF))\nhigh_rom_bus.map("2", (0x7E, 0x7F), (0, 0xFFFF), mask=0x1_0000, writeable=True)',
  'high_rom_bus.map("2", (0x7E, 0x7F), (0, 0xFFFF), mask=0x1_0000, writeable=True)\nhigh_rom_bus.map("1", (0x40, 0x7F), (0, 0xFFFF), mask=0x1_0000, mirror_bank_range=(0xC0, 0xFF))', "C04.R1")
M("C04", "mirror-lookup-exclusive", MAP, "for bank in range(mirror_bank_range[0], mirror_bank_range[1] + 1):", "for bank in range(mirror_bank_range[0], mirror_bank_range[1]):", "C04.R2")
M("C04", "mirror-uses-primary-banks", MAP, "self.mappings[mirror_identifier] = Mapping(mirror_bank_range, address_range, mask, writeable)", "self.mappings[mirror_identifier] = Mapping(bank_range, address_range, mask, writeable)", "C04.R2")
M("C04", "mapping-args-swapped", MAP, "self.mappings[identifier] = Mapping(bank_range, address_range, mask, writeable)", "self.mappings[identifier] = Mapping(address_range, bank_range, mask, writeable)", "C04.R")
M("C04", "map-key-typo", CG, 'attributes["addr_range"],', 'attributes["bank_range"],', "C04.R3")
M("C04", "unmapped-bank-defaults", MAP, "return self.mappings[self.lookup[bank]]", "return self.mappings[self.lookup.get(bank, next(iter(self.lookup.values())))]", "C04.R4")
M("C04", "ram-gets-offset", MAP, "        else:\n            return None\n\n    def logical_address", "        else:\n            return value & 0x1FFFF\n\n    def logical_address", "C04.R4")
M("C04", "offset-uses-last-bank", MAP, "return (bank - self.bank_range[0]) * self.mask + (value & ~self.mask & 0xFFFF)", "return (bank - self.bank_range[1]) * self.mask + (value & ~self.mask & 0xFFFF)", "C04.R5")
M("C04", "inverse-drops-window-start", MAP, "return (bank + self.bank_range[0]) << 16 | (self.mask & 0xFFFF) + value % self.mask", "return (bank + self.bank_range[0]) << 16 | value % self.mask", "C04.R5")
M("C04", "advance-from-logical", MAP, "logical_address = mapping.logical_address(physical_address + other)", "logical_address = mapping.logical_address(physical_address) + other", "C04.R5")
M("C04", "formula-rewritten-neutral", MAP, "return (bank - self.bank_range[0]) * self.mask + (value & ~self.mask & 0xFFFF)", "return self.mask * (bank - self.bank_range[0]) + (value & 0xFFFF & ~self.mask)", neutral=True)

# ------------------------------------------------------------------ C08
M("C08", "compound-drops-pop", CG, "    code += generate_block(node, resolver, macro_definitions, file_info)\n    code.append(PopScopeNode(resolver))\n", "    code += generate_block(node, resolver, macro_definitions, file_info)\n", "C08.R1")
M("C08", "for-misses-restore", CG, "        code.append(PopScopeNode(resolver))\n        resolver.restore_scope()\n    return code\n\n\ndef generate_if", "        code.append(PopScopeNode(resolver))\n    return code\n\n\ndef generate_if", "C08.R1")
M("C08", "scope-body-before-scopenode", CG, "    code: list[NodeProtocol] = [ScopeNode(resolver)]\n\n    code += _code_gen(node.body.body, resolver, macro_definitions)\n", "    code: list[NodeProtocol] = _code_gen(node.body.body, resolver, macro_definitions)\n    code.insert(0, ScopeNode(resolver))\n", "C08.R1")
M("C08", "if-emits-scope-node", CG, "    if condition:\n        code += _code_gen(if_branch_true.body, resolver, macro_definitions)", "    if condition:\n        code.append(ScopeNode(resolver))\n        code += _code_gen(if_branch_true.body, resolver, macro_definitions)", "C08.R1")
M("C08", "popscope-emit-exports-not-pcafter", NODES, "        self.resolver.restore_scope(exports=True)\n        return current_pc", "        self.resolver.restore_scope()\n        return current_pc", "C08.R2")
M("C08", "scopenode-emit-skips", NODES, "    def emit(self, current_addr: Address) -> bytes:\n        self.resolver.use_next_scope()\n        return b\"\"", "    def emit(self, current_addr: Address) -> bytes:\n        return b\"\"", "C08.R2")
M("C08", "parent-first", SYM, "            if symbol in self.symbols or symbol in self.code_symbols:\n                return self[symbol]\n            else:\n                return self.parent.value_for(symbol)",
  "            try:\n                return self.parent.value_for(symbol)\n            except SymbolNotDefined:\n                return self[symbol]", "C08.R3")
M("C08", "export-without-prefix", SYM, 'scope.parent.symbols |= {f"{scope.name}.{k}": v for k, v in scope.symbols.items()}', 'scope.parent.symbols |= {f"{k}": v for k, v in scope.symbols.items()}', "C08.R4")
M("C08", "internal-scope-parent-root", SYM, "scope = InternalScope(self, self.current_scope)", "scope = InternalScope(self, self.scopes[0])", "C08.R2")
M("C08", "label-node-switches-scope", NODES, "        self.resolver.current_scope.add_label(self.symbol_name, current_pc)\n        return current_pc", "        self.resolver.current_scope = self.resolver.scopes[0]\n        self.resolver.current_scope.add_label(self.symbol_name, current_pc)\n        return current_pc", "C08.R5")
M("C08", "get-table-ignores-parent", SYM, "            if self.parent:\n                return self.parent.get_table()\n            else:\n                return None", "            return None", "C08.R3")

# ------------------------------------------------------------------ C09
M("C09", "revert-eager-eval-in-callee", CG, "    resolver.append_scope()\n    resolver.use_next_scope()\n    code.append(ScopeNode(resolver))\n    for index, arg in enumerate(macro_args):\n        evaluated = evaluated_args[index]\n        if evaluated is not None:",
  "    resolver.append_scope()\n    resolver.use_next_scope()\n    code.append(ScopeNode(resolver))\n    for index, arg in enumerate(macro_args):\n        evaluated = evaluated_args[index]\n        if evaluated is None and not isinstance(macro_args_values[index], BlockAstNode):\n            try:\n                evaluated = eval_expression(macro_args_values[index], resolver)\n            except SymbolNotDefined:\n                pass\n        if evaluated is not None:", "C09.R1")
M("C09", "deferred-in-callee-scope", CG, "code.append(SymbolNode(arg, macro_args_values[index], resolver, in_parent_scope=True))", "code.append(SymbolNode(arg, macro_args_values[index], resolver))", "C09.R1")
M("C09", "symbolnode-ignores-flag", NODES, "        if self.in_parent_scope and scope.parent is not None:\n            self.resolver.current_scope = scope.parent\n", "", "C09.R1")
M("C09", "all-params-get-first-arg", CG, "        evaluated = evaluated_args[index]\n", "        evaluated = evaluated_args[0]\n", "C09.R2")
M("C09", "undefined-macro-is-empty", CG, "    macro_def: MacroAstNode = macro_definitions[node.name]\n", "    macro_def: MacroAstNode = macro_definitions.get(node.name) or MacroAstNode(node.name, [], BlockAstNode([], file_info), file_info)\n", "C09.R2")
M("C09", "missing-arg-swallowed", CG, "        except SymbolNotDefined:\n            evaluated_args.append(None)", "        except (SymbolNotDefined, IndexError):\n            evaluated_args.append(None)", "C09.R")
M("C09", "defer-drops-argument", CG, "        except SymbolNotDefined:\n            evaluated_args.append(None)", "        except SymbolNotDefined:\n            pass", "C09.R")
M("C09", "reuses-enclosing-scope", CG, "            evaluated_args.append(None)\n    resolver.append_scope()\n    resolver.use_next_scope()\n    code.append(ScopeNode(resolver))\n", "            evaluated_args.append(None)\n", "C09.R3",
  edits=[(CG, "            evaluated_args.append(None)\n    resolver.append_scope()\n    resolver.use_next_scope()\n    code.append(ScopeNode(resolver))\n", "            evaluated_args.append(None)\n"),
         (CG, "    code += _code_gen(macro_code.body, resolver, macro_definitions)\n    code.append(PopScopeNode(resolver))\n    resolver.restore_scope()\n    return code", "    code += _code_gen(macro_code.body, resolver, macro_definitions)\n    return code")])
M("C09", "code-lookup-root-scope", CG, "    value = resolver.current_scope.value_for(node.symbol)\n\n    if isinstance(value, BlockAstNode):", "    value = resolver.scopes[0].value_for(node.symbol)\n\n    if isinstance(value, BlockAstNode):", "C09.R3")

# ------------------------------------------------------------------ C10
M("C10", "for-inclusive", CG, "for k in range(from_val, to_val):", "for k in range(from_val, to_val + 1):", "C10.R2")
M("C10", "for-bounds-swapped", CG, "    from_val = eval_expression(node.min_value, resolver)\n    to_val = eval_expression(node.max_value, resolver)", "    from_val = eval_expression(node.max_value, resolver)\n    to_val = eval_expression(node.min_value, resolver)", "C10.R2")
M("C10", "for-reversed", CG, "for k in range(from_val, to_val):", "for k in reversed(range(from_val, to_val)):", "C10.R2")
M("C10", "for-binds-k-plus-1", CG, "resolver.current_scope.add_symbol(node.symbol, k)", "resolver.current_scope.add_symbol(node.symbol, k + 1)", "C10.R2")
M("C10", "revert-for-binding-deferred", CG, "        resolver.current_scope.add_symbol(node.symbol, k)\n        code.append(ScopeNode(resolver))\n", "        code.append(ScopeNode(resolver))\n        code.append(SymbolNode(node.symbol, ExpressionAstNode([Term(Token(TokenType.NUMBER, str(k)))]), resolver))\n", "C10.R2",
  edits=[(CG, "        resolver.current_scope.add_symbol(node.symbol, k)\n        code.append(ScopeNode(resolver))\n", "        code.append(ScopeNode(resolver))\n        code.append(SymbolNode(node.symbol, ExpressionAstNode([Term(Token(TokenType.NUMBER, str(k)))]), resolver))\n"),
         (CG, "    TableAstNode,\n    TextAstNode,\n", "    TableAstNode,\n    Term,\n    TextAstNode,\n"), (CG, "from a816.parse.tokens import Token\n", "from a816.parse.tokens import Token, TokenType\n")])
M("C10", "for-binds-after-expansion", CG, "        resolver.current_scope.add_symbol(node.symbol, k)\n        code.append(ScopeNode(resolver))\n        code += _code_gen(node.body.body, resolver, macro_definitions)\n", "        code.append(ScopeNode(resolver))\n        code += _code_gen(node.body.body, resolver, macro_definitions)\n        resolver.current_scope.add_symbol(node.symbol, k)\n", "C10.R2")
M("C10", "else-expands-then", CG, "        code += _code_gen(if_branch_false.body, resolver, macro_definitions)", "        code += _code_gen(if_branch_true.body, resolver, macro_definitions)", "C10.R1")
M("C10", "if-catches-everything", CG, "    except (KeyError, SymbolNotDefined):\n        condition = False", "    except Exception:\n        condition = False", "C10.R1")
M("C10", "if-negated", CG, "    if condition:\n        code += _code_gen(if_branch_true.body", "    if not condition:\n        code += _code_gen(if_branch_true.body", "C10.R1")
M("C10", "if-positive-only", CG, "    if condition:\n        code += _code_gen(if_branch_true.body", "    if condition > 0:\n        code += _code_gen(if_branch_true.body", "C10.R1")
M("C10", "parse-for-swaps", PST, "    return ForAstNode(variable.value, start, end, block, current)", "    return ForAstNode(variable.value, end, start, block, current)", "C10.R3")
M("C10", "ifast-swaps-blocks", ASTN, "        self.block = block\n        self.else_block = else_bock", "        self.block = else_bock or block\n        self.else_block = block if else_bock else None", "C10.R3")
M("C10", "undefined-true", CG, "    except (KeyError, SymbolNotDefined):\n        condition = False", "    except (KeyError, SymbolNotDefined):\n        condition = True", "C10.R1")

# ------------------------------------------------------------------ C14
M("C14", "revert-nodeerror-status", PROG, "                except NodeError as e:\n                    logger.error(str(e))\n                    return -1\n", "                except NodeError as e:\n                    logger.error(str(e))\n", "C14.R")
M("C14", "revert-error-string-check", PROG, "                if error is not None:\n                    logger.error(error)\n                    return -1\n", "", "C14.R")
M("C14", "error-string-discarded", PROG, "                    error = self.assemble_string_with_emitter(input_program, asm_file, emitter)\n", "                    error = None\n                    self.assemble_string_with_emitter(input_program, asm_file, emitter)\n", "C14.R3")
M("C14", "cli-exit-zero", "a816/cli.py", "    sys.exit(exit_code)", "    sys.exit(0 if exit_code is None else 0)", "C14.R2")
M("C14", "emit-swallows", PROG, "            node_bytes = node.emit(self.resolver.reloc_address)\n", "            try:\n                node_bytes = node.emit(self.resolver.reloc_address)\n            except Exception:\n                continue\n", "C14.R1")
M("C14", "parse-drops-ast-error", "a816/parse/mzparser.py", "        return ast.error, code_gen(ast.nodes, self.resolver)", "        return None, code_gen(ast.nodes, self.resolver)", "C14.R3")
M("C14", "runtime-error-logged-only", PROG, "        except RuntimeError as e:\n            self.logger.error(e)\n            return -1\n", "        except RuntimeError as e:\n            self.logger.error(e)\n", "C14.R")
M("C14", "as-patch-returns-zero", PROG, "            ips_emitter.end()\n            return exit_code", "            ips_emitter.end()\n            return 0", "C14.R2")
M("C14", "get-value-swallows-undefined", NODES, "        except SymbolNotDefined as e:\n            raise NodeError(f\"{e} ({self}) is not defined in the current scope.\", self.file_info) from e", "        except SymbolNotDefined:\n            return 0", "C14.R1")
M("C14", "generate-if-broad", CG, "    except (KeyError, SymbolNotDefined):\n        condition = False", "    except Exception:\n        condition = False", "C14.R1")
M("C14", "skip-emit-on-dump", PROG, "        if self.dump_symbols:\n            self.resolver.dump_symbol_map()\n\n        self.emit(nodes, emitter)\n\n        return None", "        if self.dump_symbols:\n            self.resolver.dump_symbol_map()\n            return None\n\n        self.emit(nodes, emitter)\n\n        return None", "C14.R4")
M("C14", "parse-error-cleared-early", "a816/parse/mzparser.py", "        error: str | None\n\n        try:\n            tokens = scanner.scan(filename, program)", "        error: str | None\n\n        try:\n            error = None\n            tokens = scanner.scan(filename, program)", "C14.R1",
  edits=[("a816/parse/mzparser.py", "        error: str | None\n\n        try:\n            tokens = scanner.scan(filename, program)", "        error: str | None\n\n        try:\n            error = None\n            tokens = scanner.scan(filename, program)"),
         ("a816/parse/mzparser.py", "        except ParserSyntaxError as e:\n            error = e.token.trace()", "        except ParserSyntaxError as e:\n            e.token.trace()")])
M("C14", "log-level-neutral", PROG, "                    logger.error(str(e))\n                    return -1", "                    logger.error(\"assembly failed: %s\", e)\n                    return 1", neutral=True)

# ------------------------------------------------------------------ C19
M("C19", "lorom-not-frozen", SYM, "low_rom_bus.editable = False\n", "", "C19.R3")
M("C19", "generate-map-on-shared-bus", CG, "    resolver.bus.map(\n", "    resolver.get_bus().map(\n", "C19.R3")
M("C19", "guard-after-write", MAP, "        if self.editable is not True:\n            raise RuntimeError(\"Bus cannot be edited.\")\n\n        self.mappings[identifier] = Mapping(bank_range, address_range, mask, writeable)\n",
  "        self.mappings[identifier] = Mapping(bank_range, address_range, mask, writeable)\n\n        if self.editable is not True:\n            raise RuntimeError(\"Bus cannot be edited.\")\n", "C19.R3")
M("C19", "macro-defs-module-level", CG, "def code_gen(ast_nodes: list[AstNode], resolver: Resolver) -> GenNodes:\n    macro_definitions: MacroDefinitions = {}\n    return", "_MACROS: MacroDefinitions = {}\n\n\ndef code_gen(ast_nodes: list[AstNode], resolver: Resolver) -> GenNodes:\n    macro_definitions = _MACROS\n    return", "C19.R")
M("C19", "macro-defs-default-arg", CG, "def code_gen(ast_nodes: list[AstNode], resolver: Resolver) -> GenNodes:\n    macro_definitions: MacroDefinitions = {}\n", "def code_gen(ast_nodes: list[AstNode], resolver: Resolver, macro_definitions: MacroDefinitions = {}) -> GenNodes:\n", "C19.R")
M("C19", "table-patched-at-runtime", NODES, "        self.opcode = opcode.lower()\n", "        self.opcode = opcode.lower()\n        snes_opcode_table.setdefault(self.opcode, {})\n", "C19.R2")
M("C19", "scanner-class-token-list", "a816/parse/scanner.py", "    filename: str | None = None\n", "    filename: str | None = None\n    errors: list[str] = []\n", "C19.R1")
M("C19", "resolver-shares-root-scope", SYM, "        self.bus = Bus()\n", "        self.bus = BUS_MAPPING[RomType.low_rom]\n", "C19.R4")
M("C19", "opcode-caches-width", CPU, "        value_size = guess_value_size(value_node, size)\n        opcode_byte = self.get_opcode_byte(value_size)\n", "        value_size = guess_value_size(value_node, size)\n        self.last_size = value_size\n        opcode_byte = self.get_opcode_byte(value_size)\n", "C19.R2")
M("C19", "thaw-shared-bus", CG, "    attributes = node.args\n\n    resolver.bus.map(", "    attributes = node.args\n    resolver.get_bus().editable = True\n\n    resolver.bus.map(", "C19.R3")
M("C19", "rom-type-on-class", PROG, "            self.resolver.rom_type = address_mapping[mapping]", "            Resolver.rom_type = address_mapping[mapping]", "C19.R2")
M("C19", "alias-of-bus-mapping-mutated", SYM, "            bus = BUS_MAPPING[self.rom_type]\n", "            bus = BUS_MAPPING[self.rom_type]\n            bus.internal_id += 1\n", "C19.R2")
M("C19", "lru-cache-on-eval-expression", EXPRF, "def eval_expression(expression: ExpressionAstNode, resolver: Resolver) -> int:", "@functools.lru_cache(maxsize=None)\ndef eval_expression(expression: ExpressionAstNode, resolver: Resolver) -> int:", "C19.R2",
  edits=[(EXPRF, "def eval_expression(expression: ExpressionAstNode, resolver: Resolver) -> int:", "@functools.lru_cache(maxsize=None)\ndef eval_expression(expression: ExpressionAstNode, resolver: Resolver) -> int:"), (EXPRF, "import ctypes\n", "import ctypes\nimport functools\n")])
M("C06", "lru-cache-on-eval-expression", EXPRF, "def eval_expression(expression: ExpressionAstNode, resolver: Resolver) -> int:", "@functools.lru_cache(maxsize=None)\ndef eval_expression(expression: ExpressionAstNode, resolver: Resolver) -> int:", "C06.RM",
  edits=[(EXPRF, "def eval_expression(expression: ExpressionAstNode, resolver: Resolver) -> int:", "@functools.lru_cache(maxsize=None)\ndef eval_expression(expression: ExpressionAstNode, resolver: Resolver) -> int:"), (EXPRF, "import ctypes\n", "import ctypes\nimport functools\n")])
M("C19", "local-dict-neutral", CG, "    macro_definitions: MacroDefinitions = {}\n    return _code_gen", "    macro_definitions: MacroDefinitions = {}\n    macro_definitions.clear()\n    return _code_gen", neutral=True)

# ------------------------------------------------------------------ C15
SCN = "a816/parse/scanner.py"
M("C15", "revert-comment-eof", SST, "        while not s.accept_prefix(\"*/\"):\n            if s.next() is None:\n                raise ScannerException(\"Unterminated Comment\", position)\n", "        while not s.accept_prefix(\"*/\"):\n            s.next()\n", "C15.R2")
M("C15", "revert-scan-progress-guard", SCN, "                    if self.pos == previous_pos:\n                        self.start = self.pos\n                        raise ScannerException(f\"Invalid Input {self.input[self.pos:]}\", self.get_position())\n", "", "C15.R1")
M("C15", "negated-run-without-sentinel", SST, '            s.accept_run("\\n\\0", negate=True)\n\n        if s.peek() == "\\n"', '            s.accept_run("\\n", negate=True)\n\n        if s.peek() == "\\n"', "C15.R3")
M("C15", "quoted-string-no-none-test", SST, '        if c == "\\n" or c is None:\n            raise ScannerException("Unterminated String", position)', '        if c == "\\n":\n            raise ScannerException("Unterminated String", position)', "C15.R2")
M("C15", "line-comment-no-none", SST, 'while s.next() not in ["\\n", None]:', 'while s.next() != "\\n":', "C15.R2")
M("C15", "parse-block-skips-without-next", PST, "        if p.current().type == TokenType.RBRACE:\n            break\n        statement = parse_decl(p)\n        if statement is not None:\n            decl.append(statement)\n\n    expect_token(p.next(), TokenType.RBRACE)",
  "        if p.current().type == TokenType.RBRACE:\n            break\n        if p.current().type == TokenType.COMMENT:\n            continue\n        statement = parse_decl(p)\n        if statement is not None:\n            decl.append(statement)\n\n    expect_token(p.next(), TokenType.RBRACE)", "C15.R1")
M("C15", "struct-comment-no-next", PST, "        if p.current().type == TokenType.COMMENT:\n            p.next()\n            continue", "        if p.current().type == TokenType.COMMENT:\n            continue", "C15.R1")
M("C15", "lex-initial-final-arm-silent", SST, "        if s.next() is not None:\n            raise ScannerException(f\"Invalid Input {s.input[s.start:]}\", s.get_position())", "        if s.peek() == EOF:\n            s.next()", "C15.R1",
  edits=[(SST, "        if s.next() is not None:\n            raise ScannerException(f\"Invalid Input {s.input[s.start:]}\", s.get_position())", "        if s.peek() == EOF:\n            s.next()"),
         (SCN, "                    if self.pos == previous_pos:\n                        self.start = self.pos\n                        raise ScannerException(f\"Invalid Input {self.input[self.pos:]}\", self.get_position())\n", "")])
M("C15", "macro-args-accept-eof", PST, "            expect_tokens(token, [TokenType.COMMA, TokenType.RPAREN, TokenType.IDENTIFIER])\n\n            if accept_token(token, TokenType.RPAREN):", "            expect_tokens(token, [TokenType.COMMA, TokenType.RPAREN, TokenType.IDENTIFIER, TokenType.EOF])\n\n            if accept_token(token, TokenType.RPAREN):", "C15.R2",
  edits=[(PST, "            expect_tokens(token, [TokenType.COMMA, TokenType.RPAREN, TokenType.IDENTIFIER])\n\n            if accept_token(token, TokenType.RPAREN):", "            expect_tokens(token, [TokenType.COMMA, TokenType.RPAREN, TokenType.IDENTIFIER, TokenType.EOF])\n\n            if accept_token(token, TokenType.RPAREN):"),
         (PST, "            else:\n                expect_token(token, TokenType.IDENTIFIER)\n                args.append(token.value)", "            elif accept_token(token, TokenType.IDENTIFIER):\n                args.append(token.value)")])
M("C15", "table-unknown-char-no-advance", "script/__init__.py", "            else:\n                current_position += 1\n\n        return bytes(binary_text)", "            else:\n                current_position += 0\n\n        return bytes(binary_text)", "C15.R1")
M("C15", "ips-slice-can-be-zero", WR, "slice_size = min(0xFFFF, len(block) - k)", "slice_size = min(0xFFFF, len(block) - k - 1)", "C15.R1")
M("C15", "shunting-yard-peek-instead-of-pop", EXPRF, "            while len(operator_stack) > lparen_index + 1:\n                op = operator_stack.pop()", "            while len(operator_stack) > lparen_index + 1:\n                op = operator_stack[-1]", "C15.R1")
M("C15", "scope-reparented", SYM, "        if self.current_scope.parent is not None:\n            self.current_scope = self.current_scope.parent", "        if self.current_scope.parent is not None:\n            self.current_scope.parent.parent = self.current_scope.parent.parent\n            self.current_scope = self.current_scope.parent", "C15.R4")
M("C15", "expr-list-comma-loop", PST, "        if accept_tokens(p.current(), [TokenType.COMMA]):\n            p.next()\n        else:\n            break\n\n    return expressions", "        if accept_tokens(p.current(), [TokenType.COMMA, TokenType.EOF]):\n            p.next()\n        else:\n            break\n\n    return expressions", "C15.R", neutral=True)

# ------------------------------------------------------------------ C12
CLI = "a816/cli.py"
M("C12", "revert-sfc-ignores-mapping", CLI, "exit_code = program.assemble(args.input_file, args.output_file, args.mapping)", "exit_code = program.assemble(args.input_file, args.output_file)", "C12.R1")
M("C12", "copier-header-dropped", CLI, "args.input_file, args.output_file, args.mapping, args.copier_header)", "args.input_file, args.output_file, args.mapping)", "C12.R1")
M("C12", "high-maps-to-low", PROG, '"high": RomType.high_rom,', '"high": RomType.low_rom,', "C12.R2")
M("C12", "revert-low2-bus", SYM, "BUS_MAPPING = {RomType.low_rom: low_rom_bus, RomType.low_rom_2: low_rom_2_bus, RomType.high_rom: high_rom_bus}", "BUS_MAPPING = {RomType.low_rom: low_rom_bus, RomType.high_rom: high_rom_bus}", "C12.R2")
M("C12", "revert-define-string", CLI, "add_symbol(key, eval_expression_str(value, program.resolver))", "add_symbol(key, value)", "C12.R3")
M("C12", "sfc-no-seek", WR, "        self.file.seek(block_address)\n        self.file.write(block)", "        self.file.write(block)", "C12.R4")
M("C12", "ips-end-before-assembly", PROG, "            ips_emitter.begin()\n            exit_code = self.assemble_with_emitter(asm_file, ips_emitter)\n            ips_emitter.end()", "            ips_emitter.begin()\n            ips_emitter.end()\n            exit_code = self.assemble_with_emitter(asm_file, ips_emitter)", "C12.R4")
M("C12", "labels-skip-named-scopes", SYM, "            if not isinstance(scope, InternalScope):\n                labels += scope.get_labels()", "            if not isinstance(scope, (InternalScope, NamedScope)):\n                labels += scope.get_labels()", "C12.R5")
M("C12", "symbol-bank-unshifted", PROG, "bank = value >> 16 & 0xFF", "bank = value >> 8 & 0xFF", "C12.R5")
M("C12", "mapping-applied-after", PROG, "        self.set_mapping(mapping)\n        with open(sfc_file, \"wb\") as f:\n            sfc_emitter = SFCWriter(f)\n            return self.assemble_with_emitter(asm_file, sfc_emitter)",
  "        with open(sfc_file, \"wb\") as f:\n            sfc_emitter = SFCWriter(f)\n            status = self.assemble_with_emitter(asm_file, sfc_emitter)\n        self.set_mapping(mapping)\n        return status", "C12.R1")
M("C12", "patch-written-text-mode", PROG, '        with open(ips_file, "wb") as f:', '        with open(ips_file, "w") as f:', "C12.R4")

# ------------------------------------------------------------------ C16
M("C16", "revert-inner-index-fold", PST, "inner_index = p.current().value.lower()", "inner_index = p.current().value", "C16.R1")
M("C16", "size-not-folded", PST, "size = p.current().value.lower()", "size = p.current().value", "C16.R1")
M("C16", "outer-index-not-folded", PST, "index = index_token.value.lower()", "index = index_token.value", "C16.R1")
M("C16", "opcode-node-no-lower", NODES, "self.opcode = opcode.lower()", "self.opcode = opcode", "C16.R1")
M("C16", "index-lowercase-only", SST, 'if s.accept("xXyYsS"):', 'if s.accept("xys"):', "C16.R1")
M("C16", "decl-keeps-comments", PST, "    if accept_token(current_token, TokenType.COMMENT):\n        return None\n    elif accept_token(current_token, TokenType.DOUBLE_LBRACE):", "    if accept_token(current_token, TokenType.DOUBLE_LBRACE):", "C16.R2")
M("C16", "no-tab-skip", SST, 's.ignore_run(" \\t\\n")', 's.ignore_run(" \\n")', "C16.R2")
M("C16", "include-opens-scope", PST, "        return BlockAstNode(sub_ast, keyword)", "        return CompoundAstNode(sub_ast, keyword)", "C16.R3")
M("C16", "expression-no-space-skip", SST, "    while s.pos < len(s.input):\n        s.ignore_run(\" \")\n        if s.accept(\"0123456789\"):", "    while s.pos < len(s.input):\n        if s.accept(\"0123456789\"):", "C16.R2")

# ------------------------------------------------------------------ C17
M("C17", "revert-string-position", SST, "            raise ScannerException(\"Unterminated String\", position)", "            raise ScannerException(\"Unterminated String\", s.get_position())", "C17.R2")
M("C17", "revert-size-position", SST, "        position = s.get_position()\n        s.next()\n        raise ScannerException(\"Invalid Size Specifier\", position)", "        s.next()\n        raise ScannerException(\"Invalid Size Specifier\", s.get_position())", "C17.R2")
M("C17", "revert-comment-position", SST, "                raise ScannerException(\"Unterminated Comment\", position)", "                raise ScannerException(\"Unterminated Comment\", s.get_position())", "C17.R2")
M("C17", "nodeerror-without-location", CG, '        raise NodeError(f"{node.symbol} is not a code block ({value})", file_info)', '        raise NodeError(f"{node.symbol} is not a code block ({value})", None)  # type: ignore', "C17.R1")
M("C17", "opcode-ast-uses-current-token", PST, "        index=index or inner_index,\n        file_info=opcode,", "        index=index or inner_index,\n        file_info=p.current(),", "C17.R1")
M("C17", "generator-gets-first-node-token", CG, "        file_info = _get_file_info(node)\n", "        file_info = _get_file_info(ast_nodes[0])\n", "C17.R1")
M("C17", "include-scanned-under-parent-name", PST, "            tokens = scanner.scan(filename, source)", "            tokens = scanner.scan(keyword.position.file.filename if keyword.position else filename, source)", "C17.R1")
M("C17", "nodeerror-omits-line-text", NODES, '{self.file_info.position.file.filename}:{self.file_info.position.line} {self.file_info.position.get_line()}"', '{self.file_info.position.file.filename}:{self.file_info.position.line}"', "C17.R1")
M("C17", "handle-line-from-accept-prefix", SCN, "            self.pos += len(prefix)\n            return True", "            self.pos += len(prefix)\n            self._handle_line()\n            return True", "C17.R3")
M("C17", "data-node-uses-late-token", PST, '        return DataNode("db", expressions, keyword)', '        return DataNode("db", expressions, p.current())', "C17.R1")

# ------------------------------------------------------------------ C18
SCR = "script/__init__.py"
M("C18", "ascending-candidates", SCR, "            for i in range(min(len(text), self.max_text_length), 0, -1):", "            for i in range(1, min(len(text), self.max_text_length) + 1):", "C18.R1")
M("C18", "single-char-only", SCR, "            for i in range(min(len(text), self.max_text_length), 0, -1):", "            for i in range(1, 0, -1):", "C18.R1")
M("C18", "hit-without-break", SCR, "                    binary_text += decoded\n                    current_position += i\n                    break", "                    binary_text += decoded\n                    current_position += i", "C18.R1",
  edits=[(SCR, "                    binary_text += decoded\n                    current_position += i\n                    break", "                    binary_text += decoded\n                    current_position += i\n                    i = 0")])
M("C18", "unknown-emits-question-mark", SCR, "            else:\n                current_position += 1\n\n        return bytes(binary_text)", "            else:\n                binary_text += b\"?\"\n                current_position += 1\n\n        return bytes(binary_text)", "C18.R1")
M("C18", "escape-base-10", SCR, "binary_text += bytes([int(matches.group(\"byte\"), 16)])", "binary_text += bytes([int(matches.group(\"byte\"), 10)])", "C18.R1")
M("C18", "escape-after-table", SCR, "            if matches:\n                binary_text += bytes([int(matches.group(\"byte\"), 16)])\n                current_position += len(matches.group())\n                continue\n", "", "C18.R1")
M("C18", "max-text-length-of-values", SCR, "self.max_text_length = len(max(self.lookup.keys(), key=len))", "self.max_text_length = len(max(self.lookup.values(), key=len))", "C18.R1")
M("C18", "text-uses-root-table", NODES, "self.table = self.resolver.current_scope.get_table()", "self.table = self.resolver.scopes[0].get_table()", "C18.R2")
M("C18", "table-loaded-into-root", NODES, "resolver.current_scope.table = Table(self.table_path)", "resolver.scopes[0].table = Table(self.table_path)", "C18.R2")
M("C18", "pair-hex-one-at-a-time", SCR, "zip(*[iter(value)] * 2, strict=True)", "zip(*[iter(value)] * 1, strict=True)", "C18.R3")
M("C18", "to-text-ascending", SCR, "            for i in range(min(len(remainder), self.max_bytes_length), 0, -1):", "            for i in range(1, min(len(remainder), self.max_bytes_length) + 1):", "C18.R1")

# ------------------------------------------------------------------ shared binding-agreement rule (RB)
M("C11", "header-args-swapped", WR, "self.write_block_header(block_slice, block_address)", "self.write_block_header(block_address, block_slice)", "C11.R")
M("C10", "for-ast-fields-swapped", ASTN, "        self.min_value = min_value\n        self.max_value = max_value", "        self.min_value = max_value\n        self.max_value = min_value", "C10.R")
M("C03", "write-block-args-swapped", PROG, "        if len(current_block) > 0:\n            writer.write_block(current_block, current_block_addr)\n\n    def assemble_string", "        if len(current_block) > 0:\n            writer.write_block(current_block_addr, current_block)\n\n    def assemble_string", "C03.R")
M("C09", "macro-ast-fields-swapped", ASTN, "        self.name = name\n        self.args = args\n        self.block = block", "        self.name = name\n        self.args = block\n        self.block = args", "C09.RB")
M("C13", "ips-ast-fields-swapped", ASTN, "        self.file_path = file_path\n        self.expression = expression", "        self.file_path = expression\n        self.expression = file_path", "C13.R")
M("C19", "shared-macro-table-passed-down", CG, "    macro_definitions: MacroDefinitions = {}\n    return _code_gen(ast_nodes, resolver, macro_definitions)", "    return _code_gen(ast_nodes, resolver, _SHARED)", "C19.R5",
  edits=[(CG, "    macro_definitions: MacroDefinitions = {}\n    return _code_gen(ast_nodes, resolver, macro_definitions)", "    return _code_gen(ast_nodes, resolver, _SHARED)"),
         (CG, "def code_gen(ast_nodes: list[AstNode], resolver: Resolver) -> GenNodes:", "_SHARED: MacroDefinitions = {}\n\n\ndef code_gen(ast_nodes: list[AstNode], resolver: Resolver) -> GenNodes:")])
M("C16", "revert-space-before-closing-bracket", SST, "    if s.accept(\",\"):\n        lex_opcode_index(s)\n        s.ignore_run(\" \")\n\n    p = s.peek()\n\n    if p == \")\":", "    if s.accept(\",\"):\n        lex_opcode_index(s)\n\n    p = s.peek()\n\n    if p == \")\":", "C16.R2")
M("C16", "revert-mnemonic-then-semicolon", SST, "        \".\",\n        \";\",\n        EOF,\n    ):", "        \".\",\n        EOF,\n    ):", "C16.R2")
# ------------------------------------------------------------------ process-lifetime results (shared rule RM, caches.py)
M("C06", "memo-pure-eval-number-neutral", EXPRF, "import ctypes\n", "import ctypes\nimport functools\n", neutral=True,
  edits=[(EXPRF, "import ctypes\n", "import ctypes\nimport functools\n"), (EXPRF, "def eval_number(number: str) -> int:", "@functools.lru_cache(maxsize=None)\ndef eval_number(number: str) -> int:")])
M("C19", "memo-pure-eval-number-neutral", EXPRF, "import ctypes\n", "import ctypes\nimport functools\n", neutral=True,
  edits=[(EXPRF, "import ctypes\n", "import ctypes\nimport functools\n"), (EXPRF, "def eval_number(number: str) -> int:", "@functools.lru_cache(maxsize=None)\ndef eval_number(number: str) -> int:")])
M("C06", "memo-operator-precedence-coarse-key", EXPRF, "def operator_precedence(expr: ExprNode) -> int:", "@functools.lru_cache(maxsize=256)\ndef operator_precedence(expr: ExprNode) -> int:", "C06.RM",
  edits=[(EXPRF, "import ctypes\n", "import ctypes\nimport functools\n"), (EXPRF, "def operator_precedence(expr: ExprNode) -> int:", "@functools.lru_cache(maxsize=256)\ndef operator_precedence(expr: ExprNode) -> int:"),
         (ASTN, "        return self.token == other.token\n", "        return self.token == other.token\n\n    def __hash__(self) -> int:\n        return hash(self.token)\n")])
M("C06", "expression-node-value-memo", NODES, '        try:\n            return eval_expression(self.expression, self.resolver)\n        except SymbolNotDefined as e:\n            raise NodeError(f"{e} ({self}) is not defined in the current scope.", self.file_info) from e\n', '        if self._value is None:\n            try:\n                self._value = eval_expression(self.expression, self.resolver)\n            except SymbolNotDefined as e:\n                raise NodeError(f"{e} ({self}) is not defined in the current scope.", self.file_info) from e\n        return self._value\n', "C06.RM", edits=[(NODES, '        self.resolver = resolver\n        self.file_info = file_info\n\n    def get_value(self) -> int:\n', '        self.resolver = resolver\n        self.file_info = file_info\n        self._value: int | None = None\n\n    def get_value(self) -> int:\n'), (NODES, '        try:\n            return eval_expression(self.expression, self.resolver)\n        except SymbolNotDefined as e:\n            raise NodeError(f"{e} ({self}) is not defined in the current scope.", self.file_info) from e\n', '        if self._value is None:\n            try:\n                self._value = eval_expression(self.expression, self.resolver)\n            except SymbolNotDefined as e:\n                raise NodeError(f"{e} ({self}) is not defined in the current scope.", self.file_info) from e\n        return self._value\n')])
M("C08", "expression-node-value-memo", NODES, '        try:\n            return eval_expression(self.expression, self.resolver)\n        except SymbolNotDefined as e:\n            raise NodeError(f"{e} ({self}) is not defined in the current scope.", self.file_info) from e\n', '        if self._value is None:\n            try:\n                self._value = eval_expression(self.expression, self.resolver)\n            except SymbolNotDefined as e:\n                raise NodeError(f"{e} ({self}) is not defined in the current scope.", self.file_info) from e\n        return self._value\n', "C08.RM", edits=[(NODES, '        self.resolver = resolver\n        self.file_info = file_info\n\n    def get_value(self) -> int:\n', '        self.resolver = resolver\n        self.file_info = file_info\n        self._value: int | None = None\n\n    def get_value(self) -> int:\n'), (NODES, '        try:\n            return eval_expression(self.expression, self.resolver)\n        except SymbolNotDefined as e:\n            raise NodeError(f"{e} ({self}) is not defined in the current scope.", self.file_info) from e\n', '        if self._value is None:\n            try:\n                self._value = eval_expression(self.expression, self.resolver)\n            except SymbolNotDefined as e:\n                raise NodeError(f"{e} ({self}) is not defined in the current scope.", self.file_info) from e\n        return self._value\n')])
M("C01", "expression-node-value-memo", NODES, '        try:\n            return eval_expression(self.expression, self.resolver)\n        except SymbolNotDefined as e:\n            raise NodeError(f"{e} ({self}) is not defined in the current scope.", self.file_info) from e\n', '        if self._value is None:\n            try:\n                self._value = eval_expression(self.expression, self.resolver)\n            except SymbolNotDefined as e:\n                raise NodeError(f"{e} ({self}) is not defined in the current scope.", self.file_info) from e\n        return self._value\n', "C01.RM", edits=[(NODES, '        self.resolver = resolver\n        self.file_info = file_info\n\n    def get_value(self) -> int:\n', '        self.resolver = resolver\n        self.file_info = file_info\n        self._value: int | None = None\n\n    def get_value(self) -> int:\n'), (NODES, '        try:\n            return eval_expression(self.expression, self.resolver)\n        except SymbolNotDefined as e:\n            raise NodeError(f"{e} ({self}) is not defined in the current scope.", self.file_info) from e\n', '        if self._value is None:\n            try:\n                self._value = eval_expression(self.expression, self.resolver)\n            except SymbolNotDefined as e:\n                raise NodeError(f"{e} ({self}) is not defined in the current scope.", self.file_info) from e\n        return self._value\n')])
M("C01", "index-map-get-default", PST, "        addressing_mode = index_map[addressing_mode]\n", "        addressing_mode = index_map.get(addressing_mode, addressing_mode)\n", "C01.R5")
M("C01", "index-map-checked-get-neutral", PST, "        addressing_mode = index_map[addressing_mode]\n",
  "        if addressing_mode not in index_map:\n            raise ParserSyntaxError(f\"{addressing_mode.name} takes no index\", index_token)\n        addressing_mode = index_map.get(addressing_mode, addressing_mode)\n", neutral=True)
M("C04", "map-number-read-as-hex", PST, "                args[map_key] = ast.literal_eval(number1.value)\n", "                args[map_key] = int(number1.value, 16)\n", "C04.R3")
M("C04", "map-number-base-aware-int-neutral", PST, "                args[map_key] = ast.literal_eval(number1.value)\n", "                args[map_key] = int(number1.value, 0)\n", neutral=True)
M("C06", "symbols-stored-unsigned-32", SYM, "            self.symbols[symbol] = value\n", "            self.symbols[symbol] = value & 0xFFFFFFFF\n", "C06.R6")
M("C08", "symbols-stored-unsigned-32", SYM, "            self.symbols[symbol] = value\n", "            self.symbols[symbol] = value & 0xFFFFFFFF\n", "C08.R7")
M("C11", "skip-slice-equal-to-last", "a816/writers.py", "            self.write_block_header(block_slice, block_address)\n            self.file.write(block_slice)\n", "            if block_slice != getattr(self, \"_last\", None):\n                self.write_block_header(block_slice, block_address)\n                self.file.write(block_slice)\n            self._last = block_slice\n", "C11.R2")
M("C16", "block-expands-against-copied-macro-table", CG, "    return _code_gen(node.body, resolver, macro_definitions)\n", "    return _code_gen(node.body, resolver, dict(macro_definitions))\n", "C16.R3")
M("C17", "backslash-escapes-any-character", SST, "        if c == \"\\\\\" and s.peek() == \"'\":\n            s.next()\n", "        if c == \"\\\\\":\n            s.next()\n", "C17.R4")
M("C16", "lookahead-by-find-slice-checked-neutral", SST, "        saved_pos = s.pos\n\n        s.accept_run(\" \\t\")\n", "        saved_pos = s.pos\n        _eol = s.input.find(\"\\n\", s.pos)\n        _rest = s.input[s.pos :] if _eol == -1 else s.input[s.pos : _eol]\n\n        s.accept_run(\" \\t\")\n", neutral=True)
M("C15", "table-line-regex-nested-repeat", "script/__init__.py", '(?P<byte>[0-9a-fA-F]+)(?::', '(?P<byte>[0-9a-fA-F]+(?: ?[0-9a-fA-F]+)*)(?::', "C15.R6")
M("C15", "table-line-regex-grouped-bytes-neutral", "script/__init__.py", '(?P<byte>[0-9a-fA-F]+)(?::', '(?P<byte>[0-9a-fA-F]+(?: [0-9a-fA-F]+)*)(?::', neutral=True)
M("C05", "same-bank-test-on-next-address", CPU, "            delta = physical_destination - pc\n", "            if (resolver.reloc_address + 2).logical_value >> 16 != value >> 16:\n                raise RuntimeError(\"not in the current bank\")\n            delta = physical_destination - pc\n", "C05.R3")
M("C09", "limit-on-scope-log", CG, "    macro_def: MacroAstNode = macro_definitions[node.name]\n", "    if len(resolver.scopes) > 200:\n        raise NodeError(\"nested too deeply\", file_info)\n    macro_def: MacroAstNode = macro_definitions[node.name]\n", "C09.R7")
M("C06", "complement-mask-loop-strict", EXPRF, "                if v1.bit_length() <= 8:\n                    r = ctypes.c_uint8(~v1).value\n                elif v1.bit_length() <= 16:\n                    r = ctypes.c_uint16(~v1).value\n                elif v1.bit_length() <= 32:\n                    r = ctypes.c_uint32(~v1).value\n                else:\n", "                for mask in (0xFF, 0xFFFF, 0xFFFFFFFF):\n                    if abs(v1) < mask:\n                        r = ~v1 & mask\n                        break\n                else:\n", "C06.R3")
M("C06", "complement-mask-loop-neutral", EXPRF, "                if v1.bit_length() <= 8:\n                    r = ctypes.c_uint8(~v1).value\n                elif v1.bit_length() <= 16:\n                    r = ctypes.c_uint16(~v1).value\n                elif v1.bit_length() <= 32:\n                    r = ctypes.c_uint32(~v1).value\n                else:\n", "                for mask in (0xFF, 0xFFFF, 0xFFFFFFFF):\n                    if abs(v1) <= mask:\n                        r = ~v1 & mask\n                        break\n                else:\n", neutral=True)
M("C12", "format-selection-inverted", "a816/cli.py", 'if args.format == "ips":', 'if args.format != "ips":', "C12.R1")
M("C06", "open-paren-left-on-stack", EXPRF, "                output_queue.append(op)\n            operator_stack.pop()\n", "                output_queue.append(op)\n", "C06.R2")
M("C14", "error-string-returns-minus-zero", "a816/program.py", "                    logger.error(error)\n                    return -1", "                    logger.error(error)\n                    return -0", "C14.R2")
M("C16", "no-space-skip-after-size-suffix", SST, "        s.emit(TokenType.OPCODE_SIZE)\n        s.ignore_run(\" \")\n", "        s.emit(TokenType.OPCODE_SIZE)\n", "C16.R2")
M("C16", "lookahead-keeps-blanks", SST, "        saved_pos = s.pos\n\n        s.accept_run(\" \\t\")\n", "        saved_pos = s.pos\n\n", "C16.R2")
M("C16", "lookahead-comment-not-skipped", SST, "            s.accept_run(\"\\n\\0\", negate=True)\n\n        if s.peek()", "            pass\n\n        if s.peek()", "C16.R2")
M("C16", "lookahead-not-restored", SST, "        else:\n            s.pos = saved_pos\n            s.emit(TokenType.OPCODE)", "        else:\n            s.emit(TokenType.OPCODE)", "C16.R2")
M("C16", "block-comment-loop-inverted", SST, "while not s.accept_prefix(\"*/\"):", "while s.accept_prefix(\"*/\"):", "C16.R2")
M("C01", "backtrack-without-restore", PST, "            p.pos = saved_position\n            operand = parse_expression(p)\n", "            operand = parse_expression(p)\n", "C01.R5")
M("C12", "defines-guard-inverted", "a816/cli.py", "    if args.defines:\n", "    if not args.defines:\n", "C12.R3")
M("C16", "include-source-never-read", PST, "            source = fd.read()\n", "            pass\n", "C16.RU")
M("C13", "ips-open-arguments-swapped", NODES, 'with open(self.ips_file_path, "rb") as ips_file:', 'with open("rb", self.ips_file_path) as ips_file:', "C13.R2")
M("C07", "binary-node-resolver-not-stored", NODES, "        self.symbol_base = path.replace(\"/\", \"_\").replace(\".\", \"_\")\n        self.resolver = resolver\n", "        self.symbol_base = path.replace(\"/\", \"_\").replace(\".\", \"_\")\n", "C07.RU")
M("C12", "cli-arguments-never-parsed", "a816/cli.py", "    args = parser.parse_args()\n", "", "C12.RU")
M("C03", "block-not-cleared-after-flush", PROG, "                current_block_addr = self.resolver.pc\n                current_block = b\"\"\n", "                current_block_addr = self.resolver.pc\n", "C03.R2")
M("C07", "db-returns-inside-loop", CG, "        code.append(ByteNode(ExpressionNode(expr, resolver, file_info)))\n    return code", "        code.append(ByteNode(ExpressionNode(expr, resolver, file_info)))\n        return code", "C07.R3")
M("C06", "redefinition-keeps-old-value", SYM, "                logger.warning(f\"Symbol already defined ({symbol})\")\n            self.symbols[symbol] = value\n", "                logger.warning(f\"Symbol already defined ({symbol})\")\n            else:\n                self.symbols[symbol] = value\n", "C06.R6")
M("C18", "joker-lower-case-only", "script/__init__.py", 'joker_regex = re.compile(r"^\\[0x(?P<byte>[0-9a-fA-F]+)]")', 'joker_regex = re.compile(r"^\\[0x(?P<byte>[0-9a-f]+)]")', "C18.R3")
M("C01", "implied-instruction-not-appended", CG, "        code.append(OpcodeNode(opcode, addressing_mode=mode, file_info=file_info, resolver=resolver))\n", "        pass\n", "C01.R7")
M("C13", "magic-check-inverted", NODES, 'if ips_file.read(5) != b"PATCH":', 'if ips_file.read(5) == b"PATCH":', "C13.R2")
M("C13", "delta-guard-inverted", NODES, "                if self.delta is not None:\n                    block_addr += self.delta", "                if self.delta is None:\n                    block_addr += self.delta", "C13.R3")
M("C17", "empty-lines-not-counted", "a816/parse/scanner.py", "if self.line_offset <= self.pos:", "if self.line_offset < self.pos:", "C17.R3")
M("C03", "pending-block-never-initialised", PROG, "        current_block = b\"\"\n        current_block_addr = self.resolver.pc\n        for node in program:", "        current_block_addr = self.resolver.pc\n        for node in program:", "C03.RU")
M("C12", "mapping-applied-when-absent", PROG, "        if mapping is not None:\n", "        if mapping is None:\n", "C12.R2")
M("C13", "record-loop-guard-inverted", NODES, '(record_header := ips_file.read(3)) != b"EOF"', '(record_header := ips_file.read(3)) == b"EOF"', "C13.R2")
M("C06", "paren-search-skips-top", EXPRF, "range(len(items) - 1, -1, -1)", "range(len(items) - 2, -1, -1)", "C06.R2")
M("C03", "reset-offset-one", PROG, "        self.resolver.pc = 0x000000\n        self.resolver.last_used_scope = 0\n        self.resolver.current_scope = self.resolver.scopes[0]", "        self.resolver.pc = 0x000001\n        self.resolver.last_used_scope = 0\n        self.resolver.current_scope = self.resolver.scopes[0]", "C03.R2")
M("C14", "success-returns-one", PROG, "        self.logger.info(\"Success !\")\n        return 0", "        self.logger.info(\"Success !\")\n        return 1", "C14.R2")
M("C02", "incbin-advances-backwards", NODES, "retval = current_pc + len(self.binary_content)", "retval = current_pc - len(self.binary_content)", "C02.R1")
M("C13", "trailer-read-two-bytes", NODES, "(record_header := ips_file.read(3))", "(record_header := ips_file.read(2))", "C13.R2")
# ------------------------------------------------------------------ rules added after seeds round 5
M("C03", "at-eq-builds-position-node", CG, "    return [RelocationAddressNode(ExpressionNode(node.expression, resolver, file_info), resolver)]", "    return [CodePositionNode(ExpressionNode(node.expression, resolver, file_info), resolver)]", "C03.R3")
M("C04", "duplicate-mapping-key", SYM, 'low_rom_2_bus.map("2", (0x7E, 0x7F)', 'low_rom_2_bus.map("1", (0x7E, 0x7F)', "C04.R1")
M("C06", "statement-shift-right-lost", SST, '    elif s.accept_prefix(">>"):\n        s.emit(TokenType.OPERATOR)\n    elif s.accept_prefix("<<"):', '    elif s.accept_prefix("<<"):\n        s.emit(TokenType.OPERATOR)\n    elif s.accept_prefix("<<"):', "C06.R5")
M("C14", "invalid-expression-names-next-token", PST, 'raise ParserSyntaxError("Invalid expression", token=current_token)', 'raise ParserSyntaxError("Invalid expression", token=p.current())', "C14.R9")
M("C17", "invalid-expression-names-next-token", PST, 'raise ParserSyntaxError("Invalid expression", token=current_token)', 'raise ParserSyntaxError("Invalid expression", token=p.peek())', "C17.R6")
M("C14", "unclosed-paren-accepted", PST, "            expect_token(p.current(), TokenType.RPAREN)\n\n", "", "C14.R10")
M("C17", "line-stored-twice", "a816/parse/tokens.py", "        self.lines.append(line)\n", "        self.lines.append(line)\n        self.lines.append(line)\n", "C17.R3")
M("C18", "decode-advance-one", SCR, "                    if isinstance(decoded, tuple):\n                        current_position += i", "                    if isinstance(decoded, tuple):\n                        current_position += 1", "C18.R1")
M("C18", "blanks-after-equals-dropped", SCR, r'\s*=(?P<text>[^\n]+)', r'=\s*(?P<text>[^\n]+)', "C18.R3")
M("C16", "include-keyword-misspelt", SST, '    "include",\n', '    "inlcude",\n', "C16.R3")
M("C09", "second-pass-left-at-first-label", PROG, "            if isinstance(node, LabelNode) or isinstance(node, BinaryNode):\n                continue", "            if isinstance(node, LabelNode) or isinstance(node, BinaryNode):\n                break", "C09.R11")
M("C02", "second-pass-left-at-first-label", PROG, "            if isinstance(node, LabelNode) or isinstance(node, BinaryNode):\n                continue", "            if isinstance(node, LabelNode) or isinstance(node, BinaryNode):\n                break", "C02.R3")
M("C09", "splice-closer-not-consumed", PST, "    expect_token(p.next(), TokenType.DOUBLE_RBRACE)", "    expect_token(p.current(), TokenType.DOUBLE_RBRACE)", "C09.R10")
M("C09", "double-rbrace-lexed-as-lbrace", SST, "            s.emit(TokenType.DOUBLE_RBRACE)", "            s.emit(TokenType.DOUBLE_LBRACE)", "C09.R10")
# round 7
M("C13", "stop-on-exhausted-file", NODES, 'ips_file.read(3)) != b"EOF":', 'ips_file.read(3)) not in (b"EOF", b""):', "C13.R2")
M("C13", "marker-in-one-element-list-neutral", NODES, 'ips_file.read(3)) != b"EOF":', 'ips_file.read(3)) not in (b"EOF",):', neutral=True)
M("C04", "stride-is-window-size", MAP, "return (bank - self.bank_range[0]) * self.mask + (value & ~self.mask & 0xFFFF)", "return (bank - self.bank_range[0]) * (self.address_range[1] - self.address_range[0] + 1) + (value & ~self.mask & 0xFFFF)", "C04.R5")
M("C03", "stride-is-window-size", MAP, "return (bank - self.bank_range[0]) * self.mask + (value & ~self.mask & 0xFFFF)", "return (bank - self.bank_range[0]) * (self.address_range[1] - self.address_range[0] + 1) + (value & ~self.mask & 0xFFFF)", "C03.R5")
M("C01", "suffix-case-kept", PST, "        size = p.current().value.lower()\n        p.next()\n", "        size = p.next().value\n", "C01.R12")
M("C04", "physical-address-spelled-out-neutral", MAP, "            return (bank - self.bank_range[0]) * self.mask + (value & ~self.mask & 0xFFFF)", "            low = self.address_range[0]\n            in_bank = value & ~self.mask & 0xFFFF\n            return bank * self.mask - self.bank_range[0] * self.mask + in_bank + low - self.address_range[0]", neutral=True)
