"""Registered self-test edits. `old` must occur exactly once in `file`; otherwise the edit is reported inapplicable
(the tree changed) and skipped.  Mutants marked revert_of re-introduce a defect repaired by a `fix:` commit."""
from __future__ import annotations

from typing import Any

MUTANTS: list[dict[str, Any]] = []


def M(prop: str, id: str, file: str, old: str, new: str, expect: str = "", neutral: bool = False, **kw: Any) -> None:
    MUTANTS.append({"prop": prop, "id": f"{prop}/{id}", "file": file, "old": old, "new": new,
                    "expect": expect or prop, "neutral": neutral, **kw})


CPU = "a816/cpu/cpu_65c816.py"
NODES = "a816/parse/nodes.py"
PST = "a816/parse/parser_states.py"
SST = "a816/parse/scanner_states.py"
ASTN = "a816/parse/ast/nodes.py"

# ------------------------------------------------------------------ C01
M("C01", "revert-ora-imm-w", CPU, "Opcode([0x09, 0x09], is_a=True)", "Opcode([0x09, 0xA9], is_a=True)", "C01.R1")
M("C01", "swap-sta-long", CPU, '"sta": {\n        AddressingMode.direct: Opcode([0x85, 0x8D, 0x8F]),',
  '"sta": {\n        AddressingMode.direct: Opcode([0x85, 0x8F, 0x8D]),', "C01.R1")
M("C01", "lda-dp-y-undefined", CPU, '"y": Opcode([None, 0xB9, None], is_a=True),\n            "s": Opcode([0xA3]),',
  '"y": Opcode([0xB6, 0xB9, None], is_a=True),\n            "s": Opcode([0xA3]),', "C01.R1")
M("C01", "delete-tsb", CPU, '    "tsb": {AddressingMode.direct: Opcode([0x04, 0x0C])},\n', "", "C01.R2")
M("C01", "bank-byte-unmasked", CPU, 'return struct.pack("<HB", value & 0xFFFF, (value >> 16) & 0xFF)\n        return b""',
  'return struct.pack("<HB", value & 0xFFFF, value >> 16)\n        return b""', "C01.R3")
M("C01", "word-big-endian", CPU, 'return struct.pack("<H", value & 0xFFFF)', 'return struct.pack(">H", value & 0xFFFF)', "C01.R3")
M("C01", "word-mask-ff", CPU, 'return struct.pack("<H", value & 0xFFFF)', 'return struct.pack("<H", value & 0xFF)', "C01.R3")
M("C01", "threshold-lt-2", NODES, "if value_length <= 2:", "if value_length < 2:", "C01.R4")
M("C01", "threshold-neutral", NODES, "if value_length <= 2:", "if value_length < 3:", neutral=True)
M("C01", "swap-index-map", ASTN, "AddressingMode.indirect: AddressingMode.indirect_indexed,\n    AddressingMode.indirect_long: AddressingMode.indirect_indexed_long,",
  "AddressingMode.indirect: AddressingMode.indirect_indexed_long,\n    AddressingMode.indirect_long: AddressingMode.indirect_indexed,", "C01.R5")
M("C01", "revert-index-pair-check", PST, '        if inner_index is not None and (inner_index, index) != ("s", "y"):\n            raise ParserSyntaxError(f"Invalid index combination ({inner_index}),{index}", index_token)\n', "", "C01.R5")
M("C01", "index-pair-too-wide", PST, '(inner_index, index) != ("s", "y")', 'index != "y"', "C01.R5")
M("C01", "bracket-means-indirect", PST, "        expect_token(p.next(), TokenType.RBRAKET)\n        addressing_mode = AddressingMode.indirect_long",
  "        expect_token(p.next(), TokenType.RBRAKET)\n        addressing_mode = AddressingMode.indirect", "C01.R5")
M("C01", "none-slot-falls-through", CPU, "            if opcode_byte is None:\n                raise NoOpcodeForOperandSize()\n            return opcode_byte",
  "            if opcode_byte is None:\n                opcode_byte = self.opcode_def[0] or 0\n            return opcode_byte", "C01.R6")
M("C01", "emitter-default-index", NODES, "opcode_emitter = opcode_emitter[self.index]", "opcode_emitter = opcode_emitter.get(self.index, next(iter(opcode_emitter.values())))", "C01.R6")
M("C01", "reorder-entries-neutral", CPU, '    "nop": {AddressingMode.none: OpcodeWithoutOperand(0xEA)},\n    "rep": {AddressingMode.immediate: Opcode([0xC2])},\n',
  '    "rep": {AddressingMode.immediate: Opcode([0xC2])},\n    "nop": {AddressingMode.none: OpcodeWithoutOperand(0xEA)},\n', neutral=True)
