"""Registered self-test edits. `old` must occur exactly once in `file`; otherwise the edit is reported inapplicable
(the tree changed) and skipped.  Mutants marked revert_of re-introduce a defect repaired by a `fix:` commit."""
from __future__ import annotations

from typing import Any

MUTANTS: list[dict[str, Any]] = []


def M(prop: str, id: str, file: str, old: str, new: str, expect: str = "", neutral: bool = False, **kw: Any) -> None:
    MUTANTS.append({"prop": prop, "id": f"{prop}/{id}", "file": file, "old": old, "new": new,
                    "expect": expect or prop, "neutral": neutral, **kw})


CPU = "a816/cpu/cpu_65c816.py"
NODES = "a816/parse/nodes.py"
PST = "a816/parse/parser_states.py"
SST = "a816/parse/scanner_states.py"
ASTN = "a816/parse/ast/nodes.py"

# ------------------------------------------------------------------ C01
M("C01", "revert-ora-imm-w", CPU, "Opcode([0x09, 0x09], is_a=True)", "Opcode([0x09, 0xA9], is_a=True)", "C01.R1")
M("C01", "swap-sta-long", CPU, '"sta": {\n        AddressingMode.direct: Opcode([0x85, 0x8D, 0x8F]),',
  '"sta": {\n        AddressingMode.direct: Opcode([0x85, 0x8F, 0x8D]),', "C01.R1")
M("C01", "lda-dp-y-undefined", CPU, '"y": Opcode([None, 0xB9, None], is_a=True),\n            "s": Opcode([0xA3]),',
  '"y": Opcode([0xB6, 0xB9, None], is_a=True),\n            "s": Opcode([0xA3]),', "C01.R1")
M("C01", "delete-tsb", CPU, '    "tsb": {AddressingMode.direct: Opcode([0x04, 0x0C])},\n', "", "C01.R2")
M("C01", "bank-byte-unmasked", CPU, 'return struct.pack("<HB", value & 0xFFFF, (value >> 16) & 0xFF)\n        return b""',
  'return struct.pack("<HB", value & 0xFFFF, value >> 16)\n        return b""', "C01.R3")
M("C01", "word-big-endian", CPU, 'return struct.pack("<H", value & 0xFFFF)', 'return struct.pack(">H", value & 0xFFFF)', "C01.R3")
M("C01", "word-mask-ff", CPU, 'return struct.pack("<H", value & 0xFFFF)', 'return struct.pack("<H", value & 0xFF)', "C01.R3")
M("C01", "threshold-lt-2", NODES, "if value_length <= 2:", "if value_length < 2:", "C01.R4")
M("C01", "threshold-neutral", NODES, "if value_length <= 2:", "if value_length < 3:", neutral=True)
M("C01", "swap-index-map", ASTN, "AddressingMode.indirect: AddressingMode.indirect_indexed,\n    AddressingMode.indirect_long: AddressingMode.indirect_indexed_long,",
  "AddressingMode.indirect: AddressingMode.indirect_indexed_long,\n    AddressingMode.indirect_long: AddressingMode.indirect_indexed,", "C01.R5")
M("C01", "revert-index-pair-check", PST, '        if inner_index is not None and (inner_index, index) != ("s", "y"):\n            raise ParserSyntaxError(f"Invalid index combination ({inner_index}),{index}", index_token)\n', "", "C01.R5")
M("C01", "index-pair-too-wide", PST, '(inner_index, index) != ("s", "y")', 'index != "y"', "C01.R5")
M("C01", "bracket-means-indirect", PST, "        expect_token(p.next(), TokenType.RBRAKET)\n        addressing_mode = AddressingMode.indirect_long",
  "        expect_token(p.next(), TokenType.RBRAKET)\n        addressing_mode = AddressingMode.indirect", "C01.R5")
M("C01", "none-slot-falls-through", CPU, "            if opcode_byte is None:\n                raise NoOpcodeForOperandSize()\n            return opcode_byte",
  "            if opcode_byte is None:\n                opcode_byte = self.opcode_def[0] or 0\n            return opcode_byte", "C01.R6")
M("C01", "emitter-default-index", NODES, "opcode_emitter = opcode_emitter[self.index]", "opcode_emitter = opcode_emitter.get(self.index, next(iter(opcode_emitter.values())))", "C01.R6")
M("C01", "reorder-entries-neutral", CPU, '    "nop": {AddressingMode.none: OpcodeWithoutOperand(0xEA)},\n    "rep": {AddressingMode.immediate: Opcode([0xC2])},\n',
  '    "rep": {AddressingMode.immediate: Opcode([0xC2])},\n    "nop": {AddressingMode.none: OpcodeWithoutOperand(0xEA)},\n', neutral=True)

# ------------------------------------------------------------------ C02
PROG = "a816/program.py"
M("C02", "wordnode-advance-3", NODES, "class WordNode(NodeProtocol):\n    def __init__(self, value_node: ValueNodeProtocol) -> None:\n        self.value_node = value_node\n\n    def emit(self, current_address: Address) -> bytes:\n        return struct.pack(\"<H\", self.value_node.get_value() & 0xFFFF)\n\n    def pc_after(self, current_pc: Address) -> Address:\n        return current_pc + 2",
  "class WordNode(NodeProtocol):\n    def __init__(self, value_node: ValueNodeProtocol) -> None:\n        self.value_node = value_node\n\n    def emit(self, current_address: Address) -> bytes:\n        return struct.pack(\"<H\", self.value_node.get_value() & 0xFFFF)\n\n    def pc_after(self, current_pc: Address) -> Address:\n        return current_pc + 3", "C02.R1")
M("C02", "pointer-emits-4", NODES, "    def emit(self, current_addr: Address) -> bytes:\n        value = self.value_node.get_value()\n        return struct.pack(\"<HB\", value & 0xFFFF, (value >> 16) & 0xFF)",
  "    def emit(self, current_addr: Address) -> bytes:\n        value = self.value_node.get_value()\n        return struct.pack(\"<HH\", value & 0xFFFF, (value >> 16) & 0xFF)", "C02.R1")
M("C02", "text-advance-by-text-len", NODES, "return current_pc + len(self.binary_text)", "return current_pc + len(self.text)", "C02.R1")
M("C02", "supposed-length-1-plus", CPU, "return 2 + self.size_opcode_map[value_size]", "return 1 + self.size_opcode_map[value_size]", "C02.R2")
M("C02", "relative-length-3", CPU, "    def supposed_length(self, value_node: \"ValueNodeProtocol | None\", size: ValueSize | None = None) -> int:\n        return 2\n",
  "    def supposed_length(self, value_node: \"ValueNodeProtocol | None\", size: ValueSize | None = None) -> int:\n        return 3\n", "C02.R2")
M("C02", "label-pass-skips-wordnode", PROG, "            if isinstance(node, SymbolNode):\n                continue", "            if isinstance(node, SymbolNode) or isinstance(node, CodePositionNode):\n                continue", "C02.R3")
M("C02", "drop-reloc-advance", PROG, "                self.resolver.reloc_address += len(node_bytes)\n", "", "C02.R3")
M("C02", "drop-reset-between", PROG, "            previous_pc = node.pc_after(previous_pc)\n\n        self.resolver_reset()\n\n        previous_pc", "            previous_pc = node.pc_after(previous_pc)\n\n        previous_pc", "C02.R3")
M("C02", "revert-length-guard", NODES, "            node_bytes = opcode_emitter.emit(self.value_node, self.resolver, self.size)\n            self._check_length(len(node_bytes))\n            return node_bytes",
  "            node_bytes = opcode_emitter.emit(self.value_node, self.resolver, self.size)\n            return node_bytes", "C02.R4")
M("C02", "guard-never-raises", NODES, "if self.predicted_length is not None and self.predicted_length != length:\n            raise NodeError(", "if self.predicted_length is not None and self.predicted_length != length:\n            logger.warning(", "C02.R4")
M("C02", "rename-local-neutral", NODES, "        length = opcode_emitter.supposed_length(self.value_node, self.size)\n        self._check_length(length)\n        self.predicted_length = length\n        return current_pc + length",
  "        n_bytes = opcode_emitter.supposed_length(self.value_node, self.size)\n        self._check_length(n_bytes)\n        self.predicted_length = n_bytes\n        return current_pc + n_bytes", neutral=True)
