"""Process-lifetime state that a computation is keyed or stored by: memoising decorators, hand-rolled module-level caches,
mutable default arguments, and per-object value memos.

Each finding names the function that owns the cached computation and says why a later call can see a result that belongs to an
earlier context (an earlier assembly, an earlier pass, another object that merely compares equal).  Findings are attributed to a
property only when the cached computation IS that property's mechanism: the memoised function (or the function holding the store),
one of its direct callers, or one of its direct callees is owned by the property (ownership.OWNERS) or listed in STATE_SCOPE.

A memoised function whose parameters are all immutable primitives and whose transitive callees neither read files nor touch
module-level mutable objects is pure: memoising it does not change behaviour and nothing is reported."""
from __future__ import annotations

import ast
import fnmatch
from dataclasses import dataclass, field

from .core import AnalysisError, ClassInfo, FunctionInfo, Repo, call_name, dotted, unparse, walk_no_nested
from .ownership import owned
from .report import Ctx
from .resolve import get_resolver

MEMO_DECORATORS = {"cache", "lru_cache", "cached_property"}
PRIMITIVE_ANN = {"int", "str", "bytes", "bool", "float", "None", "complex"}
IO_CALLS = {"open", "io.open", "os.open"}
IO_ATTRS = {"read_text", "read_bytes", "open", "stat", "exists", "is_file", "getmtime", "listdir"}

# property -> extra "module:qualname" patterns that make a cached computation that property's business
STATE_SCOPE: dict[str, list[str]] = {
    # a cached scan/parse result no longer fails when the file went missing or became invalid, and keeps stale positions
    "C14": ["a816.parse.scanner:Scanner.scan", "a816.parse.parser:Parser.parse", "a816.parse.mzparser:*"],
    "C16": ["a816.parse.scanner:Scanner.scan", "a816.parse.parser:Parser.parse", "a816.parse.parser_states:parse_keyword"],
    "C17": ["a816.parse.scanner:Scanner.scan", "a816.parse.scanner:Scanner.*", "a816.parse.parser:Parser.parse"],
    "C03": ["a816.symbols:Resolver.__init__"],
    "C04": ["a816.symbols:Resolver.__init__"],
}


@dataclass
class Finding:
    fn: FunctionInfo
    construct: str
    detail: str
    kind: str  # stale-io | coarse-key | shared-store | mutable-default | rebinding
    touched: set[str] = field(default_factory=set)  # fq of fn, its direct callers and direct callees
    io: bool = False


def _decorator_name(dec: ast.AST) -> str:
    return (dotted(dec if not isinstance(dec, ast.Call) else dec.func) or "").split(".")[-1]


def _callers(rs, fq: str) -> set[str]:
    return {c for c, sites in rs.sites.items() for s in sites for t in s.targets if t.fq == fq}


def _transitive(rs, fq: str, limit: int = 400) -> set[str]:
    return rs.reachable_from([fq])


def _does_io(repo: Repo, rs, fq: str) -> str | None:
    for f in sorted(_transitive(rs, fq)):
        fn = rs.by_fq.get(f)
        if fn is None:
            continue
        for c in ast.walk(fn.node):
            if isinstance(c, ast.Call):
                cn = call_name(c) or ""
                if cn in IO_CALLS or (isinstance(c.func, ast.Attribute) and c.func.attr in IO_ATTRS):
                    return f"{fn.qualname}: {unparse(c)[:40]}"
    return None


def _ann_kind(repo: Repo, fn: FunctionInfo, ann: ast.AST | None) -> tuple[str, ClassInfo | None]:
    """primitive | class | unknown"""
    if ann is None:
        return "unknown", None
    if isinstance(ann, ast.Constant) and isinstance(ann.value, str):
        try:
            ann = ast.parse(ann.value, mode="eval").body
        except SyntaxError:
            return "unknown", None
    if isinstance(ann, ast.Constant) and ann.value is None:
        return "primitive", None
    if isinstance(ann, ast.BinOp) and isinstance(ann.op, ast.BitOr):
        l, r = _ann_kind(repo, fn, ann.left), _ann_kind(repo, fn, ann.right)
        if l[0] == r[0] == "primitive":
            return "primitive", None
        return ("class", l[1] or r[1]) if "unknown" not in (l[0], r[0]) else ("unknown", None)
    if isinstance(ann, ast.Subscript) and (dotted(ann.value) or "").split(".")[-1] in ("tuple", "Tuple", "frozenset", "Optional", "Literal"):
        if (dotted(ann.value) or "").split(".")[-1] == "Literal":
            return "primitive", None
        inner = ann.slice.elts if isinstance(ann.slice, ast.Tuple) else [ann.slice]
        kinds = [_ann_kind(repo, fn, e) for e in inner if not (isinstance(e, ast.Constant) and e.value is Ellipsis)]
        if all(k[0] == "primitive" for k in kinds):
            return "primitive", None
        cls = next((k[1] for k in kinds if k[1] is not None), None)
        return ("class", cls) if all(k[0] != "unknown" for k in kinds) else ("unknown", None)
    d = dotted(ann) or ""
    if d in PRIMITIVE_ANN:
        return "primitive", None
    r = repo.resolve_name(fn.module, d.split(".")[0]) if d else None
    if r and r[0] == "class":
        ci: ClassInfo = r[1]  # type: ignore[assignment]
        if any(b.split(".")[-1] in ("Enum", "IntEnum", "StrEnum", "Flag") for c in repo.mro(ci) for b in c.base_names):
            return "primitive", None
        return "class", ci
    return "unknown", None


def _eq_attrs(repo: Repo, ci: ClassInfo) -> tuple[FunctionInfo | None, set[str], bool]:
    """(__eq__ found through the MRO, attributes it compares, whether it compares the concrete class)"""
    eq = next((c.methods["__eq__"] for c in repo.mro(ci) if "__eq__" in c.methods), None)
    if eq is None:
        return None, set(), True
    other = eq.params()[1] if len(eq.params()) > 1 else "other"
    attrs = {n.attr for n in ast.walk(eq.node) if isinstance(n, ast.Attribute) and isinstance(n.value, ast.Name) and n.value.id == other}
    src = unparse(eq.node)
    cmp_class = any(k in src for k in ("type(self)", "self.__class__", "__class__ is", "type(other)"))
    return eq, attrs - {"__class__"}, cmp_class


def _memo_findings(ctx: Ctx) -> list[Finding]:
    repo, rs = ctx.repo, get_resolver(ctx.repo)
    out: list[Finding] = []
    # `cached = lru_cache(...)(f)` / `cached = functools.cache(f)` at module level memoises f under another name
    wrapped: dict[str, str] = {}
    for mi in repo.modules.values():
        for name, st in mi.assigns_all:
            v = getattr(st, "value", None)
            inner = None
            if isinstance(v, ast.Call) and len(v.args) == 1 and isinstance(v.args[0], ast.Name):
                f0 = v.func
                if isinstance(f0, ast.Call):
                    f0 = f0.func
                if (dotted(f0) or "").split(".")[-1] in MEMO_DECORATORS:
                    inner = v.args[0].id
            if inner and inner in mi.functions:
                wrapped[mi.functions[inner].fq] = name
    for fn in repo.all_functions():
        decs = [_decorator_name(d) for d in fn.node.decorator_list]
        memo = [d for d in decs if d in MEMO_DECORATORS]
        if not memo and fn.fq in wrapped:
            memo = [f"lru_cache (as {wrapped[fn.fq]})"]
        if not memo:
            continue
        touched = {fn.fq} | _callers(rs, fn.fq) | {t.fq for t in rs.callees(fn.fq)}
        if fn.fq in wrapped:  # called under the alias
            touched |= {g_.fq for g_ in repo.all_functions() if g_.module is fn.module and any(isinstance(x, ast.Name) and x.id == wrapped[fn.fq] for x in ast.walk(g_.node))}
        construct = f"{fn.where}:@{memo[0]}"
        io = _does_io(repo, rs, fn.fq)
        if io:
            out.append(Finding(fn, construct, f"the result is kept for the life of the process, keyed by the arguments only, but depends on a file ({io}): "
                               "a later call sees the contents (or the success) of the first one", "stale-io", touched, io=True))
            continue
        args = fn.node.args
        params = list(args.posonlyargs) + list(args.args) + list(args.kwonlyargs)
        verdict: Finding | None = None
        unknown: list[str] = []
        for i, a in enumerate(params):
            if i == 0 and fn.cls is not None and not fn.is_static() and a.arg in ("self", "cls"):
                kind, ci = "class", fn.cls
            else:
                kind, ci = _ann_kind(repo, fn, a.annotation)
            if kind == "primitive":
                continue
            if kind == "unknown" or ci is None:
                unknown.append(a.arg)
                continue
            eq, attrs, cmp_class = _eq_attrs(repo, ci)
            if eq is None:
                # keyed by object identity: stale when the function reads state of the object that changes after construction
                mutable_attrs: set[str] = set()
                for c in [ci] + repo.subclasses(ci):
                    for m in c.methods.values():
                        if m.name == "__init__":
                            continue
                        for n in walk_no_nested(m.node):
                            tl = n.targets if isinstance(n, ast.Assign) else ([n.target] if isinstance(n, (ast.AugAssign, ast.AnnAssign)) else [])
                            for t in tl:
                                if isinstance(t, ast.Attribute) and unparse(t.value) == "self":
                                    mutable_attrs.add(t.attr)
                                if isinstance(t, ast.Subscript) and isinstance(t.value, ast.Attribute) and unparse(t.value.value) == "self":
                                    mutable_attrs.add(t.value.attr)
                            if isinstance(n, ast.Call) and isinstance(n.func, ast.Attribute) and isinstance(n.func.value, ast.Attribute) and unparse(n.func.value.value) == "self" \
                                    and n.func.attr in ("append", "extend", "update", "pop", "clear", "add", "insert", "remove", "setdefault"):
                                mutable_attrs.add(n.func.value.attr)
                reads = sorted({n.attr for n in walk_no_nested(fn.node) if isinstance(n, ast.Attribute) and isinstance(n.value, ast.Name) and n.value.id == a.arg
                                and isinstance(n.ctx, ast.Load) and n.attr in mutable_attrs})
                if reads:
                    verdict = Finding(fn, construct, f"the cache is keyed by the identity of `{a.arg}` ({ci.name}) but the function reads `{a.arg}.{reads[0]}`, which {ci.name}'s own methods "
                                      "change after construction: a later call with the same object gets the result computed for its earlier state", "stale-state", touched)
                    break
                unknown.append(f"{a.arg} (keyed by object identity)")
                continue
            # the function tells apart what the key does not
            subs = {c.name for c in repo.subclasses(ci)}
            beyond: list[str] = []
            for n in walk_no_nested(fn.node):
                if isinstance(n, ast.Call) and call_name(n) == "isinstance" and len(n.args) == 2 and unparse(n.args[0]) == a.arg and not cmp_class:
                    tys = n.args[1].elts if isinstance(n.args[1], ast.Tuple) else [n.args[1]]
                    beyond += [f"isinstance({a.arg}, {unparse(t)})" for t in tys if (dotted(t) or "").split(".")[-1] in subs]
                if isinstance(n, ast.Attribute) and isinstance(n.value, ast.Name) and n.value.id == a.arg and isinstance(n.ctx, ast.Load):
                    own_methods = {m for c in repo.mro(ci) for m in c.methods}
                    if n.attr not in attrs and n.attr not in own_methods:
                        beyond.append(f"{a.arg}.{n.attr}")
                if isinstance(n, ast.Call) and any(isinstance(x, ast.Name) and x.id == a.arg for x in n.args) and call_name(n) not in ("isinstance", "type", "len", "hash", "id"):
                    beyond.append(f"{a.arg} handed to {call_name(n) or unparse(n.func)[:30]}(...)")
            if beyond:
                verdict = Finding(fn, construct, f"the cache key compares `{a.arg}` with {ci.name}.__eq__ ({eq.where}; attributes {sorted(attrs) or 'none'}"
                                  f"{'' if cmp_class else ', not the class'}) but the function depends on {sorted(set(beyond))[:3]}: two different arguments share one entry, "
                                  "whichever is seen first decides the result for the rest of the process", "coarse-key", touched)
                break
            unknown.append(f"{a.arg}: {ci.name} with custom __eq__")
        if verdict is not None:
            out.append(verdict)
        elif unknown:
            raise AnalysisError(f"{construct}: memoised on {unknown}; whether the key determines the result is not modelled")
        else:
            ctx.note(f"{construct}: pure function of immutable arguments, memoisation does not change behaviour")
    return out


def _store_findings(ctx: Ctx) -> list[Finding]:
    from .rules.c19 import MUTATORS, _shared_roots, census

    repo, rs = ctx.repo, get_resolver(ctx.repo)
    cens = census(ctx)
    out: list[Finding] = []
    for fn in repo.all_functions():
        info = _shared_roots(ctx, fn, cens)
        root_of = info.pop("__fn__")  # type: ignore[arg-type]
        env = None

        def add(construct: str, detail: str, kind: str, value: ast.AST | None = None) -> None:
            # what is kept: the function holding the store and whatever computed the stored value
            nonlocal env
            touched = {fn.fq}
            if value is not None:
                from .match import inline, last_assignments

                if env is None:
                    env = last_assignments(fn.node)
                v = value
                for _ in range(3):
                    v = inline(v, env)
                for site in rs.sites.get(fn.fq, []):
                    if any(site.node is c or unparse(site.node) == unparse(c) for c in ast.walk(v) if isinstance(c, ast.Call)):
                        touched |= {t.fq for t in site.targets}
            out.append(Finding(fn, f"{fn.where}:{construct}", detail, kind, touched))

        for n in walk_no_nested(fn.node):
            if isinstance(n, ast.Global):
                add(f"global {','.join(n.names)}", "rebinds module state, which the next assembly in the process sees", "rebinding")
            targets: list[ast.AST] = []
            if isinstance(n, ast.Assign):
                targets = list(n.targets)
            elif isinstance(n, (ast.AugAssign, ast.AnnAssign)):
                targets = [n.target]
            elif isinstance(n, ast.Delete):
                targets = list(n.targets)
            for t in targets:
                for sub in ([t] if not isinstance(t, ast.Tuple) else t.elts):
                    if isinstance(sub, (ast.Subscript, ast.Attribute)):
                        r = root_of(sub.value)  # type: ignore[operator]
                        if r:
                            add(unparse(n)[:50], f"stores into the process-lifetime object {r}: what one assembly leaves there is found by the next", "shared-store",
                                getattr(n, "value", None))
            if isinstance(n, ast.Call) and isinstance(n.func, ast.Attribute) and n.func.attr in MUTATORS:
                r = root_of(n.func.value)  # type: ignore[operator]
                if r:
                    add(unparse(n)[:50], f"mutates the process-lifetime object {r}: what one assembly leaves there is found by the next", "shared-store",
                        ast.Tuple(list(n.args), ast.Load()))
        a = fn.node.args
        for d in list(a.defaults) + [k for k in a.kw_defaults if k is not None]:
            if isinstance(d, (ast.Dict, ast.List, ast.Set)) or (isinstance(d, ast.Call) and call_name(d) not in ("frozenset", "tuple")):
                add(f"default {unparse(d)[:30]}", "a mutable default argument is created once per process and shared by every call that omits it", "mutable-default", d)
    return out


STATE_READERS = ("a816.symbols:Scope.value_for", "a816.symbols:Scope.__getitem__", "a816.symbols:Scope.get_table", "a816.symbols:Resolver.get_bus",
                 "a816.parse.ast.expression:eval_expression")


def _value_memo_findings(ctx: Ctx) -> list[Finding]:
    """`if self.x is None: self.x = <evaluation>` ... `return self.x` in an object that outlives one pass: the first evaluation is
    kept although the symbol tables / scopes it was evaluated against change between the passes."""
    repo, rs = ctx.repo, get_resolver(ctx.repo)
    out: list[Finding] = []
    n = 0
    for ci in repo.all_classes():
        if not ci.module.name.startswith("a816"):
            continue
        for m in ci.methods.values():
            if m.name == "__init__":
                continue
            n += 1
            for iff in [x for x in walk_no_nested(m.node) if isinstance(x, ast.If)]:
                tested = {f"self.{a.attr}" for a in ast.walk(iff.test) if isinstance(a, ast.Attribute) and unparse(a.value) == "self"}
                tested |= {f"self.{c.args[1].value}" for c in ast.walk(iff.test) if isinstance(c, ast.Call) and call_name(c) == "hasattr" and len(c.args) == 2
                           and unparse(c.args[0]) == "self" and isinstance(c.args[1], ast.Constant)}
                for st in [x for b in iff.body for x in ast.walk(b)]:
                    if not (isinstance(st, ast.Assign) and len(st.targets) == 1 and unparse(st.targets[0]) in tested):
                        continue
                    attr = unparse(st.targets[0])
                    used_later = any(isinstance(r, ast.Return) and r.value is not None and attr in unparse(r.value) for r in walk_no_nested(m.node))
                    if not used_later:
                        continue
                    reached: set[str] = set()
                    for site in rs.sites.get(m.fq, []):
                        if any(site.node is c for c in ast.walk(st.value)):
                            for t in site.targets:
                                reached |= rs.reachable_from([t.fq])
                    readers = sorted(r for r in STATE_READERS if r in reached)
                    if readers:
                        out.append(Finding(m, f"{m.where}:{attr}", f"`{unparse(st)[:60]}` keeps the first evaluation in the object, but the evaluation reads resolver state "
                                           f"({readers[0].split(':')[1]}) that differs between the label passes and the emit pass (scopes, `=` symbols, loop variables): "
                                           "later passes see the value of the first", "value-memo", {m.fq} | set(readers)))
    ctx.repo._value_memo_methods = n  # type: ignore[attr-defined]
    return out


def findings(ctx: Ctx) -> list[Finding]:
    cached = getattr(ctx.repo, "_state_findings", None)
    if cached is None:
        cached = _memo_findings(ctx) + _store_findings(ctx) + _value_memo_findings(ctx)
        ctx.repo._state_findings = cached  # type: ignore[attr-defined]
    return cached


def relevant(prop: str, f: Finding) -> bool:
    pats = STATE_SCOPE.get(prop, [])
    for fq in f.touched:
        if owned(prop, fq) or any(fnmatch.fnmatchcase(fq, p) for p in pats):
            return True
    return False


def state_rule(ctx: Ctx) -> None:
    """Shared rule RM: no result of this property's mechanism is kept in process-lifetime state."""
    repo = ctx.repo
    n_fn = sum(1 for _ in repo.all_functions())
    ctx.count("functions_scanned", n_fn)
    ctx.floor("functions_scanned", 200)
    hits = 0
    for f in findings(ctx):
        if relevant(ctx.prop, f) or (ctx.prop == "C14" and f.io):
            hits += 1
            ctx.fail(f.construct, f.detail)
    if not hits:
        ctx.ok("a816:no-process-lifetime-results", "no memoising decorator, module-level store or mutable default argument sits on this property's mechanism")
