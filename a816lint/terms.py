"""Abstract length terms for node classes: how many bytes `emit` returns / how far `pc_after` advances."""
from __future__ import annotations

import ast
from dataclasses import dataclass

from .core import AnalysisError, ClassInfo, FunctionInfo, Repo, call_name, dotted, method_body_is_stub, unparse
from .match import inline, pack_call, returns_of, single_assignments

NODES = "a816.parse.nodes"
CPU = "a816.cpu.cpu_65c816"


@dataclass(frozen=True)
class Term:
    kind: str  # zero const len opcode jump
    value: object = None

    def __str__(self) -> str:
        return self.kind if self.value is None else f"{self.kind}({self.value})"


ZERO = Term("zero")


def implementers(repo: Repo, module: str, protocol: str) -> list[ClassInfo]:
    proto = repo.cls(module, protocol)
    return [c for c in repo.subclasses(proto) if c.module.name == module or True]


def real_method(repo: Repo, ci: ClassInfo, name: str, protocol: str) -> FunctionInfo | None:
    for c in repo.mro(ci):
        if c.name == protocol:
            continue
        if name in c.methods:
            return c.methods[name]
    return None


def bytes_term(repo: Repo, ci: ClassInfo, fn: FunctionInfo, expr: ast.AST) -> Term:
    """Length of a bytes-valued expression."""
    if isinstance(expr, ast.Constant) and isinstance(expr.value, bytes):
        return ZERO if len(expr.value) == 0 else Term("const", len(expr.value))
    pc = pack_call(expr)
    if pc is not None:
        return Term("const", pc[0].size)
    if isinstance(expr, ast.Call) and ((isinstance(expr.func, ast.Attribute) and expr.func.attr == "to_bytes") or call_name(expr) == "bytes"):
        from .match import packed_bytes
        return Term("const", len(packed_bytes(expr)))
    if isinstance(expr, ast.BinOp) and isinstance(expr.op, ast.Add):
        a, b = bytes_term(repo, ci, fn, expr.left), bytes_term(repo, ci, fn, expr.right)
        if a.kind in ("zero", "const") and b.kind in ("zero", "const"):
            return Term("const", (a.value or 0) + (b.value or 0))  # type: ignore[operator]
        raise AnalysisError(f"{fn.where}: cannot add length terms {a} + {b}")
    d = dotted(expr)
    if d and d.startswith("self.") and d.count(".") == 1:
        return Term("len", d)
    if isinstance(expr, ast.Call):
        cn = call_name(expr)
        if cn and cn.endswith(".emit") and not cn.startswith("super()"):
            from .match import kwarg as _kw

            bound = [_kw(expr, n_, i_) for i_, n_ in enumerate(("value_node", "resolver", "size"))]  # by position or keyword
            args = [unparse(a) for a in bound if a is not None]
            return Term("opcode", (cn.rsplit(".", 1)[0], tuple(args)))
        if cn == "super().emit":
            for base in repo.mro(ci)[1:]:
                if "emit" in base.methods and not method_body_is_stub(base.methods["emit"]):
                    return emit_term(repo, base, base.methods["emit"])
    raise AnalysisError(f"{fn.where}: length of `{unparse(expr)[:70]}` not modelled")


def emit_term(repo: Repo, ci: ClassInfo, fn: FunctionInfo) -> Term:
    env = single_assignments(fn.node)
    terms = set()
    for r in returns_of(fn.node):
        if r.value is None:
            raise AnalysisError(f"{fn.where}: bare return in emit")
        terms.add(bytes_term(repo, ci, fn, inline(r.value, env)))
    if len(terms) != 1:
        return Term("multi", tuple(sorted(map(str, terms))))
    return terms.pop()


def int_term(fn: FunctionInfo, expr: ast.AST) -> Term:
    """An int-valued advance: N, len(self.x), <emitter>.supposed_length(...)"""
    if isinstance(expr, ast.Constant) and isinstance(expr.value, int):
        return ZERO if expr.value == 0 else Term("const", expr.value)
    if isinstance(expr, ast.Call) and call_name(expr) == "len" and len(expr.args) == 1:
        d = dotted(expr.args[0])
        if d and d.startswith("self."):
            return Term("len", d)
    if isinstance(expr, ast.Call):
        cn = call_name(expr)
        if cn and cn.endswith(".supposed_length"):
            from .match import kwarg as _kw2

            bound2 = [_kw2(expr, n_, i_) for i_, n_ in enumerate(("value_node", "size"))]
            return Term("opcode", (cn.rsplit(".", 1)[0], tuple(unparse(a) for a in bound2 if a is not None)))
    raise AnalysisError(f"{fn.where}: advance `{unparse(expr)[:70]}` not modelled")


def advance_term(fn: FunctionInfo) -> Term:
    env = single_assignments(fn.node)
    pc = fn.params()[1]
    terms = set()
    for r in returns_of(fn.node):
        if r.value is None:
            raise AnalysisError(f"{fn.where}: bare return in pc_after")
        e = inline(r.value, env)
        if isinstance(e, ast.Name) and e.id == pc:
            terms.add(ZERO)
        elif isinstance(e, ast.BinOp) and isinstance(e.op, ast.Add) and isinstance(e.left, ast.Name) and e.left.id == pc:
            terms.add(int_term(fn, e.right))
        elif isinstance(e, ast.BinOp) and isinstance(e.op, ast.Add) and isinstance(e.right, ast.Name) and e.right.id == pc:
            terms.add(int_term(fn, e.left))
        elif isinstance(e, ast.BinOp) and isinstance(e.op, ast.Sub) and isinstance(e.left, ast.Name) and e.left.id == pc:
            terms.add(Term("backwards", unparse(e.right)))  # moves the address down: never what emit() produced
        elif isinstance(e, ast.Call) and (call_name(e) or "").endswith("get_address") and len(e.args) == 1:
            terms.add(Term("jump", unparse(e.args[0])))
        else:
            raise AnalysisError(f"{fn.where}: pc_after returns `{unparse(e)[:70]}`, not modelled")
    if len(terms) != 1:
        return Term("multi", tuple(sorted(map(str, terms))))
    return terms.pop()


def node_class_terms(repo: Repo) -> dict[str, tuple[ClassInfo, Term, Term, FunctionInfo, FunctionInfo]]:
    out = {}
    for ci in implementers(repo, NODES, "NodeProtocol"):
        em = real_method(repo, ci, "emit", "NodeProtocol")
        pa = real_method(repo, ci, "pc_after", "NodeProtocol")
        if em is None or pa is None:
            if repo.subclasses(ci) and not any(n in ci.methods for n in ("emit", "pc_after")):
                continue  # an intermediate base that only shares helpers: never instantiated as a node, its subclasses are checked
            raise AnalysisError(f"{ci.name}: emit/pc_after not found through the MRO")
        out[ci.name] = (ci, emit_term(repo, ci, em), advance_term(pa), em, pa)
    return out
