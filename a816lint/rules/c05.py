"""C05 — relative branches encode the true displacement or are rejected (range / bias / both-ends-checked clauses)."""
from __future__ import annotations

import ast

from ..cfg import CFG, always_raises, handler_names
from ..core import AnalysisError, calls_in, call_name, dotted, unparse, walk_no_nested
from ..match import const_int, pack_call, returns_of
from ..report import Ctx
from ..terms import CPU, NODES
from .c01 import extract_table

LEVEL = "other"
EXPLANATION = (
    "RelativeJumpOpcode.emit: the displacement reaches struct.pack with the signed-byte format and no mask/modulo/clamp "
    "(so out-of-range raises); struct.error is re-raised and not caught upstream; the displacement is the linear form "
    "target.physical - resolver.pc - K with K equal to supposed_length(); both the target's and the run address's "
    "physical offsets are tested for None on a raising branch that dominates the pack; every branch mnemonic of the "
    "table uses this emitter; Program.emit advances resolver.pc only after the node was emitted."
)
ASSUMPTIONS = ["the numeric displacement for each placement is a value law (address arithmetic, C04) and is not decided",
               "resolver.pc equals the physical offset of the run address for ROM run addresses (set_position, C03.R3)"]
PROGRAM = "a816.program"


def _emit(ctx: Ctx):
    return ctx.repo.func(CPU, "RelativeJumpOpcode.emit")


def _linear(expr: ast.AST, env: dict[str, dict[str, int]]) -> dict[str, int]:
    """expr as a linear combination {name: coeff, '': const} over opaque names; raises AnalysisError if not linear."""
    c = const_int(expr)
    if c is not None:
        return {"": c}
    if isinstance(expr, ast.Name):
        return dict(env.get(expr.id, {expr.id: 1}))
    if isinstance(expr, ast.BinOp) and isinstance(expr.op, (ast.Add, ast.Sub)):
        a, b = _linear(expr.left, env), _linear(expr.right, env)
        sign = 1 if isinstance(expr.op, ast.Add) else -1
        out = dict(a)
        for k, v in b.items():
            out[k] = out.get(k, 0) + sign * v
        return {k: v for k, v in out.items() if v != 0 or k == ""}
    if isinstance(expr, ast.UnaryOp) and isinstance(expr.op, ast.USub):
        return {k: -v for k, v in _linear(expr.operand, env).items()}
    raise AnalysisError(f"displacement expression `{unparse(expr)}` is not linear (+/- of names and constants)")


def r1_no_truncation(ctx: Ctx) -> None:
    fn = _emit(ctx)
    packs = [c for c in calls_in(fn.node, "struct.pack")]
    if not packs:
        # no struct.pack at all: the displacement byte is produced some other way; read the returned bytes in byte-level normal form - the last
        # byte must be range-checked (a masked or wrapped byte never raises for a far target)
        from ..match import packed_bytes, returns_of

        for r_ in returns_of(fn.node):
            if r_.value is None:
                continue
            try:
                bs = packed_bytes(r_.value.right if isinstance(r_.value, ast.BinOp) and isinstance(r_.value.op, ast.Add) else r_.value)
            except AnalysisError as e:
                raise AnalysisError(f"RelativeJumpOpcode.emit: displacement byte not modelled ({e})") from e
            if bs:
                ctx.check(bs[-1].checked and bs[-1].signed, "RelativeJumpOpcode.emit:format", f"the displacement byte must be a range-checked signed byte (struct 'b'); found `{bs[-1]}`: "
                          "a displacement outside -128..127 is wrapped into range instead of being rejected", fact=True)
                return
        raise AnalysisError("RelativeJumpOpcode.emit: expected one struct.pack for the displacement")
    if len(packs) != 1:
        raise AnalysisError("RelativeJumpOpcode.emit: expected one struct.pack for the displacement")
    fmt, args = pack_call(packs[0])  # type: ignore[misc]
    ctx.check(fmt.size == 1 and fmt.fields[0][0] == "b", "RelativeJumpOpcode.emit:format", f"displacement packed as signed byte 'b' (raises outside -128..127); format {fmt.text!r}")
    ok_arg = len(args) == 1 and isinstance(args[0], ast.Name)
    ctx.check(ok_arg, "RelativeJumpOpcode.emit:packed-value", f"the displacement variable itself is packed; found `{unparse(args[0]) if args else None}`")
    if ok_arg:
        var = args[0].id  # type: ignore[union-attr]
        for n in walk_no_nested(fn.node):
            val = None
            if isinstance(n, ast.Assign) and any(unparse(t) == var for t in n.targets):
                val = n.value
            elif isinstance(n, ast.AugAssign) and unparse(n.target) == var:
                val = n.value
                ctx.check(isinstance(n.op, (ast.Add, ast.Sub)), f"RelativeJumpOpcode.emit:{unparse(n)[:40]}", "the displacement is only adjusted by +/-; a mask, modulo or shift wraps it into range")
            if val is not None:
                ctx.count("delta_defs")
                lossy = [x for x in ast.walk(val) if (isinstance(x, ast.BinOp) and isinstance(x.op, (ast.BitAnd, ast.Mod, ast.BitOr, ast.RShift, ast.LShift, ast.FloorDiv)))
                         or (isinstance(x, ast.Call) and (call_name(x) or "").split(".")[-1] in ("min", "max", "c_int8", "c_uint8", "c_byte", "to_bytes", "from_bytes", "abs"))]
                ctx.check(not lossy, f"RelativeJumpOpcode.emit:{unparse(n)[:40]}", "no mask / modulo / clamp / wrap on the displacement: " + ", ".join(unparse(x)[:30] for x in lossy))
        ctx.floor("delta_defs", 2)
    # struct.error leaves emit, OpcodeNode.emit and Program.emit
    for t in [n for n in walk_no_nested(fn.node) if isinstance(n, ast.Try)]:
        for h in t.handlers:
            ctx.check(always_raises(h.body), f"RelativeJumpOpcode.emit:except {unparse(h.type)}", "the range error is re-raised, not converted into bytes")
    for mod, q in ((NODES, "OpcodeNode.emit"), (PROGRAM, "Program.emit"), (PROGRAM, "Program.assemble_string_with_emitter")):
        f2 = ctx.repo.func(mod, q)
        for t in [n for n in walk_no_nested(f2.node) if isinstance(n, ast.Try)]:
            for h in t.handlers:
                names = handler_names(h)
                catches = names is None or bool(names & {"Exception", "BaseException", "error", "struct.error"})
                ctx.check(not catches or always_raises(h.body), f"{q}:except {unparse(h.type)}", "a handler on the way up must not absorb the range error")
        ctx.count("upstream_functions")


def r2_bias_equals_length(ctx: Ctx) -> None:
    fn = _emit(ctx)
    sl = ctx.repo.func(CPU, "RelativeJumpOpcode.supposed_length")
    rets = returns_of(sl.node)
    length = const_int(rets[0].value) if len(rets) == 1 and rets[0].value is not None else None
    if length is None:
        raise AnalysisError("RelativeJumpOpcode.supposed_length is not a constant")
    # the ExpressionNode branch
    branch = None
    for st in fn.node.body:
        if isinstance(st, ast.If) and "isinstance(value_node, ExpressionNode)" in unparse(st.test):
            branch = st
    if branch is None:
        raise AnalysisError("RelativeJumpOpcode.emit: ExpressionNode branch not found")
    from ..poly import poly, poly_of_source, show as show_poly
    packs = calls_in(fn.node, "struct.pack")
    var = unparse(packs[0].args[1])
    penv: dict[str, object] = {}

    def P(e: ast.AST):
        class Sub(ast.NodeTransformer):
            def visit_Name(self, n: ast.Name) -> ast.AST:
                return n
        # evaluate with the polynomials known so far substituted for names
        from ..poly import _add, _mul  # noqa: F401
        def ev(n: ast.AST):
            if isinstance(n, ast.Name) and n.id in penv:
                return dict(penv[n.id])  # type: ignore[arg-type]
            if isinstance(n, ast.BinOp) and isinstance(n.op, (ast.Add, ast.Sub)):
                a, b = ev(n.left), ev(n.right)
                return _add(a, b, 1 if isinstance(n.op, ast.Add) else -1)
            if isinstance(n, ast.UnaryOp) and isinstance(n.op, ast.USub):
                return _mul({(): -1}, ev(n.operand))
            return poly(n)
        return ev(e)

    for st in branch.body:
        if isinstance(st, ast.Assign) and isinstance(st.targets[0], ast.Name):
            penv[st.targets[0].id] = P(st.value)
        elif isinstance(st, ast.AugAssign) and isinstance(st.target, ast.Name) and isinstance(st.op, (ast.Add, ast.Sub)):
            penv[st.target.id] = P(ast.BinOp(ast.Name(st.target.id, ast.Load()), st.op, st.value))
    if var not in penv:
        raise AnalysisError("RelativeJumpOpcode.emit: displacement not assigned in the ExpressionNode branch")
    got = penv[var]
    const = got.get((), 0)  # type: ignore[union-attr]
    terms = {k: v for k, v in got.items() if k}  # type: ignore[union-attr]
    want_terms = {k: v for k, v in poly_of_source("resolver.get_bus().get_address(value).physical - resolver.pc").items() if k}
    if terms != want_terms:
        # a term built from a local that is bound more than once (a reused variable) cannot be read off flow-insensitively: not decided
        multi = {n_ for n_ in {x.id for x in ast.walk(fn.node) if isinstance(x, ast.Name) and isinstance(x.ctx, ast.Store)}
                 if sum(1 for x in ast.walk(fn.node) if isinstance(x, ast.Name) and isinstance(x.ctx, ast.Store) and x.id == n_) > 1}
        if any(m_ in str(k_) for k_ in terms for m_ in multi):
            raise AnalysisError(f"RelativeJumpOpcode.emit: the displacement is built from a local bound more than once ({sorted(multi)}); not decided")
    ctx.check(terms == want_terms, "RelativeJumpOpcode.emit:displacement-terms", f"displacement = target.physical - resolver.pc (+const); found {show_poly(got)}")  # type: ignore[arg-type]
    ctx.check(const == -length, "RelativeJumpOpcode.emit:bias", f"the constant bias is {const}; the branch is relative to the next instruction, i.e. -supposed_length() = {-length}")
    vsrc = [n for n in walk_no_nested(fn.node) if isinstance(n, ast.Assign) and unparse(n.targets[0]) == "value"]
    ctx.check(len(vsrc) == 1 and unparse(vsrc[0].value) == f"{fn.params()[1]}.get_value()", "RelativeJumpOpcode.emit:target", "the target is the operand's value")
    # resolver.pc is the branch's own offset: Program.emit advances pc after the node emitted
    pe = ctx.repo.func(PROGRAM, "Program.emit")
    lp = [s for s in pe.node.body if isinstance(s, ast.For)][0]
    order = []
    for i, s in enumerate(lp.body):
        for x in ast.walk(s):
            if isinstance(x, ast.Call) and call_name(x) == "node.emit":
                order.append(("emit", i))
            if isinstance(x, ast.AugAssign) and unparse(x.target) == "self.resolver.pc":
                order.append(("advance", i))
    ctx.check([o[0] for o in order] == ["emit", "advance"] and order[0][1] < order[1][1], "Program.emit:pc-advanced-after-emit", f"found {order}")
    ctx.count("bias_facts", 4)


def r3_both_ends_checked(ctx: Ctx) -> None:
    fn = _emit(ctx)
    g = CFG(fn.node)
    packs = calls_in(fn.node, "struct.pack")
    pnode = g.node_containing(packs[0])
    branch = [st for st in fn.node.body if isinstance(st, ast.If) and "isinstance(value_node, ExpressionNode)" in unparse(st.test)][0]
    env = {unparse(s.targets[0]): unparse(s.value) for s in branch.body if isinstance(s, ast.Assign)}
    checked: set[str] = set()
    for s in walk_no_nested(branch):
        if isinstance(s, ast.If) and always_raises(s.body):
            # the raising test must be an `or` of `X is None` (any of them None -> raise)
            parts = s.test.values if isinstance(s.test, ast.BoolOp) and isinstance(s.test.op, ast.Or) else [s.test]
            tn = g.node_of(s.test)
            first = branch.body[0]
            start = g.node_of(first.test) if isinstance(first, (ast.If, ast.While)) else g.node_of(first)
            # every path from the start of the ExpressionNode branch to the pack passes this raising test
            if not g.every_path_passes(start, pnode, [tn]):
                continue
            for p in parts:
                if isinstance(p, ast.Compare) and len(p.ops) == 1 and isinstance(p.ops[0], ast.Is) and unparse(p.comparators[0]) == "None":
                    from ..match import canon_at as _canon5

                    checked.add(_canon5(fn.node, g, tn, p.left))
    want = {"resolver.get_bus().get_address(value_node.get_value()).physical": "target",
            "resolver.reloc_address.physical": "run address of the branch"}
    for expr, what in want.items():
        ctx.count("none_checks")
        ctx.check(expr in checked, f"RelativeJumpOpcode.emit:{what}-in-rom", f"`{expr} is None` must raise before the displacement is packed (a RAM {what} has no file offset); checked: {sorted(checked)}")
    # rejection census: what else makes emit refuse a branch.  Known: no operand; a RAM end (above); struct.error re-raised.
    from ..match import inline, last_assignments

    lenv = last_assignments(fn.node)
    for r in [x for x in walk_no_nested(fn.node) if isinstance(x, ast.Raise) and x.exc is not None]:
        conds = g.path_conditions(g.node_of(r), fn.node)
        extra = [(t, pol) for t, pol in conds if not (all(d.strip().endswith(" is None") for d in t.split(" or ")) or "isinstance(" in t)]
        for t, pol in extra:
            tree = ast.parse(t, mode="eval").body
            banks = [x for x in ast.walk(tree) if isinstance(x, ast.BinOp) and isinstance(x.op, ast.RShift) and unparse(x.right) == "16"]
            if isinstance(tree, ast.Compare) and len(banks) == 2 and isinstance(tree.ops[0], (ast.NotEq, ast.Eq)):
                sides = sorted(unparse(inline(b.left, lenv)) for b in banks)
                own = [x for x in sides if "reloc_address" in x]
                if own and ("+" in own[0] or "-" in own[0] or "supposed_length" in own[0]):
                    ctx.fail(f"RelativeJumpOpcode.emit:raise under `{t[:60]}`", f"the same-bank test uses `{own[0]}`, not the branch's own run address: a branch in the last bytes of a bank, "
                             "whose target is in that bank, is refused although the property requires it to be encoded")
                    continue
            raise AnalysisError(f"RelativeJumpOpcode.emit: an additional rejection under `{t[:70]}`; whether it refuses branches that must be encoded is not decided")
    table = extract_table(ctx)
    rel = [k for k in table if k[3] == "rel"]
    from ..isa import load_isa

    isa, _n = load_isa()
    for k in rel:
        ctx.check(k[1] == "direct" and k[2] is None, f"table:{k[0]}", "branch mnemonics take a plain operand")
        if k in isa:
            ctx.check(table[k] == isa[k], f"table:{k[0]}:opcode", f"the branch opcode of {k[0]} is {hex(isa[k])}; the table says {hex(table[k])}")
        else:
            ctx.fail(f"table:{k[0]}:opcode", f"{k[0]} is not a relative branch of the 65c816")
    ctx.count("branch_mnemonics", len(rel))
    ctx.floor("branch_mnemonics", 4)



def r4_run_address_bookkeeping(ctx: Ctx) -> None:
    """the branch is encoded from resolver.pc / resolver.reloc_address: set_position must keep both true (shared with C03.R3)"""
    from .c03 import r3_position_nodes

    r3_position_nodes(ctx)


def r5_bank_classification(ctx: Ctx) -> None:
    """which banks are RAM (branch rejected) and which are ROM is what the bus tables say: built-in layouts, bank lookup construction
    (last mapping of a bank wins) and `no offset exactly for writable mappings` (the C04.R1 / R2 obligations and the RAM clause of C04.R4)"""
    from .c04 import r1_builtin_maps, r2_mirror_construction, r3_argument_binding, r5_formula_normal_form, ram_has_no_offset

    r1_builtin_maps(ctx)
    r2_mirror_construction(ctx)
    r3_argument_binding(ctx)  # a user `.map ... writable=1` reaches Bus.map's RAM flag
    ram_has_no_offset(ctx)
    r5_formula_normal_form(ctx)  # the displacement is a difference of file offsets: the offset formula


def r6_layout_agreement(ctx: Ctx) -> None:
    """the displacement is a difference of label addresses: every statement between branch and target advances the address by what
    it emits (the C02.R1 obligation)"""
    from .c02 import r1_per_class_length_agreement

    r1_per_class_length_agreement(ctx)


def rb_binding_agreement(ctx: Ctx) -> None:
    from ..ownership import binding_agreement

    binding_agreement(ctx)


def rm_no_process_lifetime_results(ctx: Ctx) -> None:
    """memoising decorators, module-level stores and mutable defaults on this property's mechanism (shared rule, caches.py)"""
    from ..caches import state_rule

    state_rule(ctx)


def ru_names_bound(ctx: Ctx) -> None:
    """a local read but never bound raises NameError for every input that reaches the statement (shared rule, names.py)"""
    from ..names import names_rule

    names_rule(ctx)



def r7_selected_mapping_is_applied(ctx: Ctx) -> None:
    """which addresses are ROM and which bank they are in depends on the mapping: the file entry points select the requested one before
    assembling (shared with C12.R1)"""
    from .c12 import mapping_applied

    mapping_applied(ctx)


def r8_target_value(ctx: Ctx) -> None:
    """the displacement is target - (branch address + 2) only when the target expression has its conventional value and its labels resolve to the definitions in scope: operator precedence and associativity (C06.R1/R2), scope replay at emit time and the lookup chain (C08.R2/R3)"""
    from .c06 import r1_precedence_order as _c06_r1_precedence_order
    from .c06 import r2_associativity as _c06_r2_associativity
    from .c08 import r2_replay_agreement as _c08_r2_replay_agreement
    from .c08 import r3_lookup_chain as _c08_r3_lookup_chain

    _c06_r1_precedence_order(ctx)
    _c06_r2_associativity(ctx)
    _c08_r2_replay_agreement(ctx)
    _c08_r3_lookup_chain(ctx)


RULES = [r1_no_truncation, r2_bias_equals_length, r3_both_ends_checked, r4_run_address_bookkeeping, r5_bank_classification, r6_layout_agreement, r7_selected_mapping_is_applied, r8_target_value, rb_binding_agreement, rm_no_process_lifetime_results, ru_names_bound]
