"""C06 — expressions evaluate to their conventional value (operator-table clause)."""
from __future__ import annotations

import ast

from ..cfg import always_raises
from ..const import module_const
from ..core import AnalysisError, calls_in, call_name, const_str, dotted, unparse, walk_no_nested
from ..match import const_int, eq_const_test, if_chain, returns_of
from ..report import Ctx

LEVEL = "other"
EXPR = "a816.parse.ast.expression"
PSTATES = "a816.parse.parser_states"
SSTATES = "a816.parse.scanner_states"
EXPLANATION = (
    "Tables that drive the shunting-yard evaluator: the strict weak order induced by OPERATOR_PRECEDENCE over the "
    "supported operators equals the conventional chain ~ < * < {+,-} < {<<,>>} < & < |; the pop comparison is "
    "non-strict (left associativity) and is never taken for a prefix operator; each evaluation arm applies the Python "
    "operator of the same meaning with operands in pop order; ~ complements in the ctypes width that matches its "
    "bit_length threshold; unknown operators raise; literal prefixes map to their bases; every evaluation site goes "
    "through the single evaluator. Decides the tables, not the value of every tree."
)
ASSUMPTIONS = ["Python integer operators and ctypes.c_uintN have their documented semantics",
               "values of deep trees and spacing invariance are runtime relations and are not decided"]

REF_RANK = {"~": 0, "*": 1, "+": 2, "-": 2, "<<": 3, ">>": 3, "&": 4, "|": 5}
STATEMENT_OPERATORS = {"+", "-", "&", "*", "<<", ">>"}  # REF_RANK operators lex_initial accepted at the confirmed commit (read)
REF_OPS = {"+": ast.Add, "-": ast.Sub, "*": ast.Mult, "&": ast.BitAnd, "|": ast.BitOr, ">>": ast.RShift, "<<": ast.LShift}


def r1_precedence_order(ctx: Ctx) -> None:
    prec = module_const(ctx.repo, EXPR, "OPERATOR_PRECEDENCE")
    if not isinstance(prec, dict):
        raise AnalysisError("OPERATOR_PRECEDENCE is not a dict literal")
    ops = sorted(REF_RANK)
    for o in ops:
        ctx.check(o in prec and isinstance(prec.get(o), int), f"OPERATOR_PRECEDENCE[{o}]", "supported operator has a precedence")
    def sign(x: int) -> int:
        return (x > 0) - (x < 0)
    for i, a in enumerate(ops):
        for b in ops[i + 1:]:
            if a in prec and b in prec:
                ctx.count("operator_pairs")
                ctx.check(sign(prec[a] - prec[b]) == sign(REF_RANK[a] - REF_RANK[b]), f"precedence:{a} vs {b}",
                          f"table orders {a}({prec[a]}) vs {b}({prec[b]}); conventional binding is "
                          + ("equal" if REF_RANK[a] == REF_RANK[b] else (f"{a} tighter" if REF_RANK[a] < REF_RANK[b] else f"{b} tighter")))
    ctx.floor("operator_pairs", 18)
    mod = ctx.repo.module(EXPR)
    subs, gets = [], []
    for fn in mod.functions.values():
        subs += [unparse(n) for n in walk_no_nested(fn.node) if isinstance(n, ast.Subscript) and unparse(n.value) == "OPERATOR_PRECEDENCE"]
        gets += [c for c in calls_in(fn.node) if unparse(c.func) in ("OPERATOR_PRECEDENCE.get", "OPERATOR_PRECEDENCE.setdefault")]
    ctx.check(len(subs) >= 1 and not gets, "precedence-lookup", "precedence is read by plain subscript (an operator without precedence raises)")
    # prefix operators rank tighter than every binary operator, by their node kind
    u = _unary_rank(ctx)
    if u is None:
        ctx.fail("precedence:unary", "a prefix operator waiting on the operator stack is ranked by its token text (binary `-` is looser than `*`): `~-a*b` groups as ~(-(a*b))")
    else:
        tight = min(prec[o] for o in ("*", "+", "-", "<<", ">>", "&", "|") if o in prec)
        ctx.check(u < tight or u <= prec.get("~", u), "precedence:unary", f"prefix operators rank {u}, binary operators start at {tight}: unary binds tightest")
        ctx.check(u < tight, "precedence:unary-vs-mult", f"prefix rank {u} must be tighter than `*` ({prec.get('*')})")


def _rank_accessor(ctx: Ctx):
    """the module function (if any) used for operator ranks in the pop comparison"""
    sy = ctx.repo.func(EXPR, "shunting_yard")
    loop, _par = _pop_loop(sy.node)
    from ..match import inline as _inl, last_assignments as _la
    for c in ast.walk(_inl(loop.test, _la(sy.node))):
        if isinstance(c, ast.Compare) and isinstance(c.left, ast.Call) and isinstance(c.left.func, ast.Name) and unparse(c.left.args[0]) == "operator_stack[-1]":
            fn = ctx.repo.try_func(EXPR, c.left.func.id)
            if fn is not None:
                return fn
    return None


def _unary_rank(ctx: Ctx) -> int | None:
    """literal rank given to UnaryOp nodes wherever the stack top is ranked; None when the stack top is ranked by token text only"""
    acc = _rank_accessor(ctx)
    if acc is None:
        return None
    p0 = acc.params()[0]
    for st in walk_no_nested(acc.node):
        if isinstance(st, ast.If) and unparse(st.test) == f"isinstance({p0}, UnaryOp)" and len(st.body) == 1 and isinstance(st.body[0], ast.Return):
            return const_int(st.body[0].value)
        if isinstance(st, ast.Return) and isinstance(st.value, ast.IfExp) and unparse(st.value.test) == f"isinstance({p0}, UnaryOp)":
            return const_int(st.value.body)
    return None


def _canon_test_text(sy: ast.FunctionDef, test: ast.AST) -> str:
    from ..match import canon as _c
    return _c(sy, test)


def _pop_loop(sy: ast.FunctionDef):
    parents: dict[int, ast.AST] = {}
    for p in ast.walk(sy):
        for c in ast.iter_child_nodes(p):
            parents[id(c)] = p
    for n in walk_no_nested(sy):
        if isinstance(n, (ast.While, ast.If)) and ("operator_stack[-1]" in unparse(n.test) or "operator_stack[-1]" in _canon_test_text(sy, n.test)) and any(isinstance(c, ast.Compare) and isinstance(c.ops[0], (ast.LtE, ast.Lt, ast.GtE, ast.Gt)) for c in ast.walk(n.test)):
            par = parents.get(id(n))
            return n, par if isinstance(par, ast.If) else None
    raise AnalysisError("shunting_yard: precedence pop loop not found")


def r2_associativity(ctx: Ctx) -> None:
    sy = ctx.repo.func(EXPR, "shunting_yard")
    loop, par = _pop_loop(sy.node)
    if isinstance(loop, ast.If) and any(isinstance(b, ast.Break) for b in loop.body):
        return _assoc_break_form(ctx, sy, loop)
    if not ctx.check(isinstance(loop, ast.While), "shunting_yard:pops-all", "every stacked operator that binds at least as tightly is popped (a loop); an `if` pops at most one: `10 - 2 * 3 - 1` regroups"):
        return
    conj = loop.test.values if isinstance(loop.test, ast.BoolOp) and isinstance(loop.test.op, ast.And) else [loop.test]
    cmp_ok = False
    strictness = None
    acc = _rank_accessor(ctx)
    left_forms = ["OPERATOR_PRECEDENCE[operator_stack[-1].token.value]"] + ([f"{acc.name}(operator_stack[-1])"] if acc else [])
    right_forms = ["current_precedence"] + ([f"{acc.name}(expr)"] if acc else [])
    cur_name = "current_precedence"
    for c in conj:
        # the incoming operator's rank may sit in a local of any name, as long as that local is bound once in the function
        if isinstance(c, ast.Compare) and len(c.ops) == 1 and unparse(c.left) in left_forms and isinstance(c.comparators[0], ast.Name):
            binds = [n for n in walk_no_nested(sy.node) if isinstance(n, ast.Assign) and unparse(n.targets[0]) == c.comparators[0].id]
            if len(binds) == 1:
                cur_name = c.comparators[0].id
                right_forms = [cur_name] + right_forms[1:]
    for c in conj:
        if isinstance(c, ast.Compare) and len(c.ops) == 1 and unparse(c.left) in left_forms and unparse(c.comparators[0]) in right_forms:
            strictness = type(c.ops[0]).__name__
            cmp_ok = isinstance(c.ops[0], ast.LtE)
    cur = [n for n in walk_no_nested(sy.node) if isinstance(n, ast.Assign) and unparse(n.targets[0]) == cur_name]
    if cur:
        v = unparse(cur[0].value)
        ctx.check(v in ([f"{acc.name}(expr)"] if acc else []) + ["OPERATOR_PRECEDENCE[expr.token.value] if isinstance(expr, BinOp) else 2", "OPERATOR_PRECEDENCE[expr.token.value]"],
                  "shunting_yard:current-rank", f"the incoming operator is ranked by the same table; found `{v}`")
    if strictness is None:
        raise AnalysisError("shunting_yard: pop comparison not recognised")
    ctx.check(cmp_ok, "shunting_yard:pop-comparison", f"stack operators of lower-or-EQUAL precedence are popped (left associativity); comparison is {strictness}")
    texts = [unparse(c) for c in conj]
    ctx.check("operator_stack[-1].token.value != '('" in texts, "shunting_yard:stop-at-paren", "popping stops at an open parenthesis")
    ctx.check("len(operator_stack) > 0" in texts or "operator_stack" in texts, "shunting_yard:non-empty", "never pops an empty stack")
    # a prefix operator has no left operand: it must never pop
    binop_only = "isinstance(expr, BinOp)" in texts or (par is not None and unparse(par.test) == "isinstance(expr, BinOp)")
    if not binop_only and par is not None:
        # loop shared by BinOp and UnaryOp
        binop_only = "UnaryOp" not in unparse(par.test)
    ctx.check(binop_only, "shunting_yard:prefix-never-pops", "the pop loop runs for binary operators only; run for a prefix operator it emits "
              "an operator before its operand (`~~1`, `~-1` fail with IndexError)")
    # pushes / drains
    push = [c for c in calls_in(sy.node) if unparse(c) == "operator_stack.append(expr)"]
    ctx.check(len(push) >= 2, "shunting_yard:push", "operators and parentheses are pushed")
    tail = sy.node.body[-2] if len(sy.node.body) >= 2 else None
    ok = isinstance(tail, ast.While) and unparse(tail.test) in ("len(operator_stack) > 0", "operator_stack") and \
        any(unparse(c) == "output_queue.append(operator_stack.pop())" for c in calls_in(tail))
    # the same drain in one call: the stack from its top downwards
    ok = ok or (tail is not None and unparse(tail) in ("output_queue.extend(reversed(operator_stack))", "output_queue.extend(operator_stack[::-1])", "output_queue += reversed(operator_stack)",
                                                       "output_queue += operator_stack[::-1]"))
    ctx.check(bool(ok), "shunting_yard:drain", "remaining operators are appended last-in first-out")
    rets = returns_of(sy.node)
    ctx.check(len(rets) == 1 and unparse(rets[0].value) == "output_queue", "shunting_yard:returns", "returns the postfix queue")
    # closing parenthesis: everything above the matching "(" goes to the output, then the "(" itself is discarded
    rp = [s_ for s_ in walk_no_nested(sy.node) if isinstance(s_, ast.If) and "RPAREN" in unparse(s_.test)]
    if len(rp) != 1:
        raise AnalysisError("shunting_yard: closing-parenthesis arm not found")
    body = rp[0].body
    unwind = [s_ for s_ in body if isinstance(s_, ast.While)]
    if not unwind:
        # the unwinding written as one slice move: the operators above the parenthesis must reach the output top first
        ext = [c for b_ in body for c in calls_in(b_) if unparse(c.func) == "output_queue.extend" and c.args]
        if len(ext) == 1:
            a_ = unparse(ext[0].args[0])
            top_first = a_ in ("reversed(operator_stack[lparen_index + 1:])", "operator_stack[:lparen_index:-1]", "operator_stack[lparen_index + 1:][::-1]")
            bottom_first = a_ == "operator_stack[lparen_index + 1:]"
            if top_first or bottom_first:
                ctx.check(top_first, "shunting_yard:paren-unwind", f"operators above the open parenthesis move to the output last-pushed first; `{a_}` moves them in push order "
                          "(`(1 + 2 * 3)` then evaluates + before *)", fact=True)
                ctx.note("shunting_yard: closing parenthesis unwound by a slice move; the remaining facts of that arm are not read")
                return
    if len(unwind) != 1:
        raise AnalysisError("shunting_yard: the closing-parenthesis arm does not unwind with one loop")
    moved = [c for c in calls_in(unwind[0]) if unparse(c.func) == "output_queue.append"]
    ctx.check(len(moved) == 1, "shunting_yard:paren-unwind", "operators above the open parenthesis move to the output")
    after = body[body.index(unwind[0]) + 1:]
    drops = [s_ for s_ in after if (isinstance(s_, ast.Expr) and unparse(s_.value) in ("operator_stack.pop()", "operator_stack.pop(-1)", "operator_stack.pop(lparen_index)"))
             or (isinstance(s_, ast.Delete) and unparse(s_.targets[0]) in ("operator_stack[-1]", "operator_stack[lparen_index]", "operator_stack[lparen_index:]"))
             or (isinstance(s_, ast.Assign) and unparse(s_.targets[0]) == "operator_stack" and unparse(s_.value) in ("operator_stack[:-1]", "operator_stack[:lparen_index]"))]
    ctx.check(len(drops) == 1, "shunting_yard:paren-discarded", "the open parenthesis itself is popped and dropped: left on the stack it keeps stopping the pop loop, so "
              "`2*(3)+4` groups as 2*((3)+4)")
    # the matching "(" is searched from the top of the stack down to its bottom, both ends included
    rf = ctx.repo.try_func(EXPR, "reverse_find_token")
    if rf is not None and any(call_name(c) == "reverse_find_token" for c in calls_in(rp[0])):
        loops_rf = [n for n in walk_no_nested(rf.node) if isinstance(n, ast.For)]
        items_p, value_p = rf.params()[0], rf.params()[1]
        if len(loops_rf) == 1 and isinstance(loops_rf[0].iter, ast.Call) and call_name(loops_rf[0].iter) == "range" and len(loops_rf[0].iter.args) == 3:
            a0, a1, a2 = (unparse(x) for x in loops_rf[0].iter.args)
            ctx.check((a0, a1, a2) == (f"len({items_p}) - 1", "-1", "-1"), "reverse_find_token:range", f"indices len-1 .. 0; found range({a0}, {a1}, {a2}) "
                      "(starting lower misses a parenthesis on top of the stack: `(1)` becomes a mismatch; stopping higher misses the bottom one)")
            rets_rf = [unparse(r.value) for r in returns_of(rf.node)]
            ctx.check(sorted(rets_rf) == sorted([unparse(loops_rf[0].target), "-1"]), "reverse_find_token:returns", f"the index found, else -1; returns {rets_rf}")
        elif len(loops_rf) == 1 and unparse(loops_rf[0].iter) in (f"reversed(range(len({items_p})))", f"range(len({items_p}))[::-1]"):
            ctx.ok("reverse_find_token:range", "all indices, last first")
        elif len(loops_rf) == 1 and unparse(loops_rf[0].iter) in (f"reversed(list(enumerate({items_p})))", f"list(enumerate({items_p}))[::-1]", f"reversed(tuple(enumerate({items_p})))") \
                and isinstance(loops_rf[0].target, ast.Tuple) and len(loops_rf[0].target.elts) == 2:
            ctx.ok("reverse_find_token:range", "all (index, item) pairs, last first")
            rets_rf = [unparse(r.value) for r in returns_of(rf.node)]
            ctx.check(sorted(rets_rf) == sorted([unparse(loops_rf[0].target.elts[0]), "-1"]), "reverse_find_token:returns", f"the index found, else -1; returns {rets_rf}")
        else:
            raise AnalysisError("reverse_find_token: search loop not modelled")
    miss = [s_ for s_ in body if isinstance(s_, ast.If) and always_raises(s_.body) and "lparen" in unparse(s_.test).lower()]
    ctx.check(len(miss) == 1, "shunting_yard:mismatched-paren", "a closing parenthesis without an open one raises")
    # unary/binary classification in the parser
    pe = ctx.repo.func(PSTATES, "_parse_expression")
    parents = {}
    for p_ in ast.walk(pe.node):
        for ch in ast.iter_child_nodes(p_):
            parents[id(ch)] = p_
    for kind in ("UnaryOp", "BinOp", "Term", "Parenthesis"):
        for c in calls_in(pe.node, kind):
            # the construction is an unconditional statement of its arm: every token of that kind yields exactly one node
            a = c
            depth_ifs = 0
            while id(a) in parents and parents[id(a)] is not pe.node:
                child, a = a, parents[id(a)]
                if isinstance(a, (ast.For, ast.While, ast.Try)):
                    depth_ifs += 1
                elif isinstance(a, ast.If):
                    is_elif_link = child in a.orelse and len(a.orelse) == 1 and isinstance(a.orelse[0], ast.If)
                    if not is_elif_link and child is not a.test:
                        depth_ifs += 1
            par_c = parents.get(id(c))
            stmt_is_append = isinstance(par_c, ast.Call) and (call_name(par_c) or "").endswith(".append")
            # or the node is an element of a list display that becomes (part of) the token list: `tokens = [Term(tok)]`
            if isinstance(par_c, ast.List) and isinstance(parents.get(id(par_c)), (ast.Assign, ast.AnnAssign, ast.AugAssign, ast.Return)):
                stmt_is_append = True
            ctx.count("expr_node_constructions")
            ctx.check(depth_ifs <= (2 if kind == "BinOp" else 1) and stmt_is_append, f"_parse_expression:{kind} node", f"each {kind} token is appended once, unconditionally within its arm (nesting depth {depth_ifs})")
    for c in calls_in(pe.node, "UnaryOp"):
        ok = False
        for st in walk_no_nested(pe.node):
            if isinstance(st, ast.If):
                arms, _ = if_chain(st)
                for test, body in arms:
                    if any(x is c for b in body for x in ast.walk(b)):
                        t = unparse(test)
                        members = None
                        for cmp_ in ast.walk(test):
                            if isinstance(cmp_, ast.Compare) and isinstance(cmp_.ops[0], ast.In) and unparse(cmp_.left).endswith(".value"):
                                try:
                                    from ..const import ConstEval
                                    val = ConstEval(ctx.repo, pe.module).ev(cmp_.comparators[0])
                                    members = set(val) if isinstance(val, (list, tuple, set, frozenset, str)) else None
                                except AnalysisError:
                                    members = None
                        ok = "TokenType.OPERATOR" in t and members == {"-", "~"}
        ctx.check(ok, "_parse_expression:unary-classification", "an operator is prefix only at operand position and only for - and ~")
    ctx.count("assoc_facts", 6)


def _assoc_break_form(ctx: Ctx, sy, brk_if: ast.If) -> None:
    """`while operator_stack: top = stack[-1]; if rank(top) > current or top is '(': break; pop` - the negation of the original guard"""
    parents = {}
    for p_ in ast.walk(sy.node):
        for ch in ast.iter_child_nodes(p_):
            parents[id(ch)] = p_
    wl = parents.get(id(brk_if))
    if not (isinstance(wl, ast.While) and unparse(wl.test) in ("operator_stack", "len(operator_stack) > 0")):
        raise AnalysisError("shunting_yard: pop loop with break is not guarded by a non-empty stack")
    ctx.ok("shunting_yard:pops-all", "a loop pops every stacked operator that binds at least as tightly")
    ctx.ok("shunting_yard:non-empty", "never pops an empty stack")
    from ..match import canon as _c
    disj = brk_if.test.values if isinstance(brk_if.test, ast.BoolOp) and isinstance(brk_if.test.op, ast.Or) else [brk_if.test]
    acc = _rank_accessor_name(ctx)
    strict = None
    paren = False
    for d in disj:
        t = _c(sy.node, d)
        if isinstance(d, ast.Compare) and len(d.ops) == 1 and "operator_stack[-1]" in t and ("current_precedence" in t or (acc and f"{acc}(expr)" in t)):
            strict = type(d.ops[0]).__name__
        if t in ("operator_stack[-1].token.value == '('",):
            paren = True
    ctx.check(strict == "Gt", "shunting_yard:pop-comparison", f"popping stops only at a strictly looser stack operator (equal precedence is popped: left associativity); stop test is {strict}")
    ctx.check(paren, "shunting_yard:stop-at-paren", "popping stops at an open parenthesis")
    # only binary operators reach the loop
    par = parents.get(id(wl))
    while par is not None and not isinstance(par, ast.If):
        par = parents.get(id(par))
    ctx.check(par is not None and unparse(par.test) == "isinstance(expr, BinOp)", "shunting_yard:prefix-never-pops", "the pop loop runs for binary operators only")
    pops = [c for c in calls_in(wl) if unparse(c) == "output_queue.append(operator_stack.pop())"]
    ctx.check(len(pops) == 1, "shunting_yard:push", "popped operators go to the output queue")
    tail = sy.node.body[-2] if len(sy.node.body) >= 2 else None
    ok = isinstance(tail, ast.While) and unparse(tail.test) in ("len(operator_stack) > 0", "operator_stack") and any(unparse(c) == "output_queue.append(operator_stack.pop())" for c in calls_in(tail))
    ok = ok or (tail is not None and unparse(tail) in ("output_queue.extend(reversed(operator_stack))", "output_queue.extend(operator_stack[::-1])", "output_queue += reversed(operator_stack)",
                                                       "output_queue += operator_stack[::-1]"))
    ctx.check(bool(ok), "shunting_yard:drain", "remaining operators are appended last-in first-out")
    ctx.count("assoc_facts", 6)


def _rank_accessor_name(ctx: Ctx) -> str | None:
    fn = ctx.repo.try_func(EXPR, "operator_precedence")
    return fn.name if fn is not None else None


def _operator_test(ev, test: ast.AST):
    """`<operator text> == <literal>` with the left side spelled through any local aliases -> (canonical left text, literal)"""
    from ..match import canon as _c

    t = eq_const_test(test)
    if t is None:
        return None
    return _c(ev.node, ast.parse(t[0], mode="eval").body), t[1]


def r3_evaluation_dispatch(ctx: Ctx) -> None:
    ev = ctx.repo.func(EXPR, "eval_expression")
    loops = [n for n in ev.node.body if isinstance(n, ast.For)]
    if len(loops) != 1:
        raise AnalysisError("eval_expression: expected one loop over the postfix queue")
    arms, orelse = if_chain([s for s in loops[0].body if isinstance(s, ast.If)][0])
    un_body = bin_body = None
    for test, body in arms:
        t = unparse(test)
        if t == "isinstance(current, UnaryOp)":
            un_body = body
        elif t == "isinstance(current, BinOp)":
            bin_body = body
    if un_body is None or bin_body is None:
        raise AnalysisError("eval_expression: UnaryOp / BinOp arms not found")
    # binary: v2 popped first, v1 second
    pops = [(unparse(s.targets[0]), i) for i, s in enumerate(bin_body) if isinstance(s, ast.Assign) and unparse(s.value) == "values_stack.pop()"]
    if len(pops) != 2:
        raise AnalysisError("eval_expression: binary arm does not pop two operands")
    right, left = pops[0][0], pops[1][0]
    chain = [s for s in bin_body if isinstance(s, ast.If)]
    barms, belse = if_chain(chain[0])
    seen = {}
    for test, body in barms:
        t = _operator_test(ev, test)
        if t is None or t[0] != "current.token.value":
            raise AnalysisError(f"eval_expression: arm `{unparse(test)}` not modelled")
        op = t[1]
        if len(body) != 1 or not isinstance(body[0], ast.Assign) or not isinstance(body[0].value, ast.BinOp):
            raise AnalysisError(f"eval_expression: arm {op!r} is not `r = a <op> b`")
        b = body[0].value
        seen[op] = (type(b.op), unparse(b.left), unparse(b.right))
    for op, pyop in REF_OPS.items():
        ctx.count("eval_arms")
        if op not in seen:
            ctx.fail(f"eval_expression[{op}]", "supported operator has no evaluation arm")
            continue
        got = seen[op]
        ctx.check(got == (pyop, left, right), f"eval_expression[{op}]",
                  f"computes `{got[1]} {got[0].__name__} {got[2]}`; `a {op} b` is `{left} {pyop.__name__} {right}` (left operand is the one pushed first)")
    for op in seen:
        if op not in REF_OPS:
            ctx.note(f"extra evaluation arm for {op!r} (not part of the stated grammar)")
    ctx.check(always_raises(belse), "eval_expression:unknown-binary", "an operator without an arm raises")
    push = [s for s in bin_body if isinstance(s, ast.Expr) and unparse(s.value) == "values_stack.append(r)"]
    ctx.check(len(push) == 1 and bin_body.index(push[0]) > bin_body.index(chain[0]), "eval_expression:binary-push", "the result is pushed once")
    # unary
    upop = [unparse(s.targets[0]) for s in un_body if isinstance(s, ast.Assign) and unparse(s.value) == "values_stack.pop()"]
    if len(upop) != 1:
        raise AnalysisError("eval_expression: unary arm does not pop one operand")
    v = upop[0]
    uarms, uelse = if_chain([s for s in un_body if isinstance(s, ast.If)][0])
    useen = {}
    for test, body in uarms:
        t = _operator_test(ev, test)
        if t is None or t[0] != "current.token.value":
            raise AnalysisError(f"eval_expression: unary arm `{unparse(test)}` not modelled")
        useen[t[1]] = body
    neg = useen.get("-")
    ok = neg is not None and len(neg) == 1 and isinstance(neg[0], ast.Assign) and unparse(neg[0].value) == f"-{v}"
    ctx.check(bool(ok), "eval_expression[unary -]", "negation")
    inv = useen.get("~")
    if inv is None:
        ctx.fail("eval_expression[unary ~]", "no arm")
    else:
        inv_ifs = [s_ for s_ in inv if isinstance(s_, ast.If)]
        if not (len(inv_ifs) == 1 and all(isinstance(s_, (ast.If, ast.Assign, ast.AnnAssign)) for s_ in inv)):
            raise AnalysisError("eval_expression: the `~` arm is not a threshold if-chain; its widths cannot be read off")
        iarms, ielse = if_chain(inv_ifs[0])
        widths = []
        from ..match import canon as _cn
        for test, body in iarms:
            n = None
            if isinstance(test, ast.Compare) and len(test.ops) == 1 and _cn(ev.node, test.left) == f"{v}.bit_length()":
                c0 = const_int(test.comparators[0])
                if c0 is not None and isinstance(test.ops[0], ast.LtE):
                    n = c0
                elif c0 is not None and isinstance(test.ops[0], ast.Lt):
                    n = c0 - 1
            if n is None and isinstance(test, ast.Compare) and len(test.ops) == 1 and _cn(ev.node, test.left) == f"abs({v})":
                # a magnitude threshold: the arm takes values up to `top`; it is the n-bit arm only if top is 2^n - 1
                c0 = const_int(test.comparators[0])
                top = c0 if isinstance(test.ops[0], ast.LtE) else (c0 - 1 if isinstance(test.ops[0], ast.Lt) and c0 is not None else None)
                if top is not None:
                    arm_val = unparse(body[0].value) if len(body) == 1 and isinstance(body[0], ast.Assign) else ""
                    mm = __import__("re").fullmatch(r"~" + __import__("re").escape(v) + r" & (\d+)|(\d+) & ~" + __import__("re").escape(v), arm_val)
                    bits = int(mm.group(1) or mm.group(2)).bit_length() if mm else None
                    if (top + 1) & top == 0 and top > 0:
                        n = top.bit_length()
                    elif bits is not None:
                        ctx.fail(f"eval_expression[~ within {bits} bits]", f"the {bits}-bit arm is taken for magnitudes up to {hex(top)} only: {hex((1 << bits) - 1)} itself, which fits {bits} bits, "
                                 "is complemented in the next wider width (or rejected)")
                        widths.append(bits)
                        continue
            val = unparse(body[0].value) if len(body) == 1 and isinstance(body[0], ast.Assign) else ""
            ctx.count("complement_arms")
            good = n is not None and (val == f"ctypes.c_uint{n}(~{v}).value" or val in (f"~{v} & {(1 << n) - 1}", f"{(1 << n) - 1} & ~{v}", f"~{v} % {1 << n}"))
            ctx.check(good, f"eval_expression[~ <= {n} bits]", f"values of at most {n} bits are complemented within {n} bits; arm computes `{val}`")
            widths.append(n)
        ctx.check(widths == [8, 16, 32], "eval_expression[~]:widths", f"thresholds tried smallest first: {widths}")
        ctx.check(always_raises(ielse), "eval_expression[~]:too-wide", "wider values raise")
    ctx.check(always_raises(uelse), "eval_expression:unknown-unary", "an unknown prefix operator raises")
    rets = returns_of(ev.node)
    ctx.check(len(rets) == 1 and unparse(rets[0].value) == "values_stack.pop()", "eval_expression:result", "the value is the last one on the stack")
    # operands
    for test, body in arms:
        t = unparse(test)
        from ..match import canon as _cn3

        t = _cn3(ev.node, test)
        if t == "current.token.type == TokenType.NUMBER":
            pushes = [_cn3(ev.node, c) for s_ in body for c in calls_in(s_) if call_name(c) == "values_stack.append"]
            ctx.check(pushes == ["values_stack.append(eval_number(current.token.value))"], "eval_expression:number", "literals are pushed through eval_number")
        if t == "current.token.type == TokenType.IDENTIFIER":
            # some call in the arm is the scope-chain lookup of the token's text (whatever local holds the text or the result)
            looks = [_cn3(ev.node, c) for s_ in body for c in calls_in(s_) if (call_name(c) or "").endswith(".value_for")]
            ok = looks == ["resolver.current_scope.value_for(current.token.value)"]
            ctx.check(ok, "eval_expression:identifier", "identifiers are looked up through the current scope chain")
    ctx.floor("eval_arms", 4)


def number_digit_sets(ctx: Ctx) -> dict[str, str]:
    """prefix letter -> digits accepted after it, from the table lex_number subscripts with the prefix (a dict literal bound once in
    the function or at module level; values may be spelled with the `string` module)"""
    from ..match import const_string, literal_binding

    ln = ctx.repo.func(SSTATES, "lex_number")
    tables = {unparse(c.args[0].value) for c in calls_in(ln.node) if call_name(c) in ("s.accept_run",) and c.args and isinstance(c.args[0], ast.Subscript)}
    for n in walk_no_nested(ln.node):  # or: digits = TABLE[prefix]; s.accept_run(digits)
        if isinstance(n, ast.Assign) and isinstance(n.value, ast.Subscript) and isinstance(n.value.value, ast.Name):
            tables.add(n.value.value.id)
    for t in sorted(tables):
        lit = literal_binding(ln, t)
        if isinstance(lit, ast.Dict):
            out = {const_str(k): const_string(ln, v) for k, v in zip(lit.keys, lit.values)}
            if all(k is not None and v is not None for k, v in out.items()):
                return out  # type: ignore[return-value]
    raise AnalysisError("lex_number: table of digits per base prefix not found")


def r4_literal_bases(ctx: Ctx) -> None:
    en = ctx.repo.func(EXPR, "eval_number")
    p = en.params()[0]
    import re as _re4

    from ..match import canon as _cn2

    top_ifs = [s for s in en.node.body if isinstance(s, ast.If)]
    got: dict[str | None, int | None] = {}
    default = None

    def prefix_of(test: ast.AST) -> str | None:
        tt = _cn2(en.node, test)
        for pat in (_re4.escape(p) + r"\[:2\] == '(0.)'", _re4.escape(p) + r"\.startswith\('(0.)'\)", r"'(0.)' == " + _re4.escape(p) + r"\[:2\]"):
            m_ = _re4.fullmatch(pat, tt)
            if m_:
                return m_.group(1)
        return None

    def int_base(e: ast.AST | None) -> int | None:
        """B of `int(<the text, whole or without its two-character prefix>, B)`"""
        if isinstance(e, ast.Call) and call_name(e) == "int" and len(e.args) == 2 and _cn2(en.node, e.args[0]) in (p, f"{p}[2:]"):
            return const_int(e.args[1])
        return None

    table_form = None
    if not top_ifs:
        # int(text, {"0x": 16, "0b": 2}.get(text[:2], 10)) - the base looked up by the two-character prefix
        for r_ in returns_of(en.node):
            v_ = r_.value
            if isinstance(v_, ast.Call) and call_name(v_) == "int" and len(v_.args) == 2 and _cn2(en.node, v_.args[0]) == p:
                b_ = v_.args[1]
                from ..match import inline as _inl4, single_assignments as _sa4

                b_ = _inl4(b_, _sa4(en.node))
                if isinstance(b_, ast.Call) and isinstance(b_.func, ast.Attribute) and b_.func.attr == "get" and isinstance(b_.func.value, ast.Dict) and len(b_.args) == 2 \
                        and _cn2(en.node, b_.args[0]) == f"{p}[:2]":
                    table_form = ({const_str(k): const_int(v) for k, v in zip(b_.func.value.keys, b_.func.value.values)}, const_int(b_.args[1]))
    if table_form is not None:
        got, default = dict(table_form[0]), table_form[1]  # type: ignore[arg-type]
        ctx.check(got.get("0x") == 16, "eval_number[0x]", f"0x literals are base 16; found {got.get('0x')}")
        ctx.check(got.get("0b") == 2, "eval_number[0b]", f"0b literals are base 2; found {got.get('0b')}")
        ctx.check(default == 10, "eval_number[default]", f"unprefixed literals are decimal; found {default}")
        for pre, base in got.items():
            if pre not in ("0x", "0b"):
                ctx.check(pre == "0o" and base == 8, f"eval_number[{pre}]", f"prefix {pre!r} read in base {base}")
        ctx.ok("eval_number:conversion", "int(text, base) with the base taken from the prefix table")
        arms, orelse, guard_style, top_ifs = [], [], None, []
    elif len(top_ifs) == 1 and top_ifs[0].orelse:
        arms, orelse = if_chain(top_ifs[0])
        guard_style = False
    else:
        # one `if <prefix test>: return int(...)` per base, then the decimal return
        arms, orelse, guard_style = [(s.test, s.body) for s in top_ifs], [], True
    for test, body in arms:
        pre = prefix_of(test)
        if pre is None or len(body) != 1:
            raise AnalysisError(f"eval_number: arm `{unparse(test)}` not modelled")
        if isinstance(body[0], ast.Assign):
            got[pre] = const_int(body[0].value)
        elif isinstance(body[0], ast.Return):
            got[pre] = int_base(body[0].value)
            guard_style = True
        else:
            raise AnalysisError(f"eval_number: arm `{unparse(test)}` not modelled")
    rets = returns_of(en.node)
    if table_form is not None:
        pass
    elif guard_style:
        last = en.node.body[-1]
        tail = orelse[-1] if orelse else last
        if not isinstance(tail, ast.Return):
            raise AnalysisError("eval_number: no decimal return after the prefix arms")
        v_ = tail.value
        default = 10 if (isinstance(v_, ast.Call) and call_name(v_) == "int" and len(v_.args) == 1 and _cn2(en.node, v_.args[0]) == p) else int_base(v_)
    else:
        default = const_int(orelse[0].value) if len(orelse) == 1 and isinstance(orelse[0], ast.Assign) else None
    ctx.check(got.get("0x") == 16, "eval_number[0x]", f"0x literals are base 16; found {got.get('0x')}")
    ctx.check(got.get("0b") == 2, "eval_number[0b]", f"0b literals are base 2; found {got.get('0b')}")
    ctx.check(default == 10, "eval_number[default]", f"unprefixed literals are decimal; found {default}")
    for pre, base in got.items():
        if pre not in ("0x", "0b"):
            ctx.check(pre == "0o" and base == 8, f"eval_number[{pre}]", f"prefix {pre!r} read in base {base}")
    if table_form is not None:
        pass
    elif guard_style:
        ctx.ok("eval_number:conversion", "every arm converts with int(text, base)")
    else:
        ctx.check(len(rets) == 1 and unparse(rets[0].value) == f"int({p}, base)", "eval_number:conversion", "int(text, base): letters under base 10 raise, so a prefixed literal without an arm is never read silently as decimal")
    ln = ctx.repo.func(SSTATES, "lex_number")
    acc = number_digit_sets(ctx)
    hexd = acc.get("x") or ""
    ctx.check(set(hexd) == set("0123456789abcdefABCDEF"), "lex_number[x]", "hex digits in both letter cases")
    ctx.check(set(acc.get("b") or "") == {"0", "1"}, "lex_number[b]", "binary digits")
    # the prefix test lists exactly the prefixes that have a digit set, decimal runs accept all ten digits, and every place a number
    # may start (statement level, expression level) accepts all ten digits
    pref = None
    for n in walk_no_nested(ln.node):
        if isinstance(n, ast.Compare) and len(n.ops) == 1 and isinstance(n.ops[0], ast.In) and unparse(n.left) == "base_prefix" and isinstance(n.comparators[0], (ast.Tuple, ast.List, ast.Set)):
            pref = {const_str(e) for e in n.comparators[0].elts}
        if isinstance(n, ast.Compare) and len(n.ops) == 1 and isinstance(n.ops[0], ast.In) and unparse(n.left) == "base_prefix" and isinstance(n.comparators[0], ast.Name):
            from ..match import literal_binding as _lb

            lit_ = _lb(ln, n.comparators[0].id)
            if isinstance(lit_, ast.Dict):
                pref = {const_str(k) for k in lit_.keys}
            elif isinstance(lit_, (ast.Tuple, ast.List, ast.Set)):
                pref = {const_str(e) for e in lit_.elts}
    if pref is None:
        raise AnalysisError("lex_number: prefix test not found")
    ctx.check(pref == set(acc) and {"x", "b"} <= pref, "lex_number:prefixes", f"every prefix with a digit set is recognised (0x and 0b at least); test lists {sorted(pref)}, digit sets exist for {sorted(acc)}")
    from ..match import const_string as _cs6

    dec = [_cs6(ln, c.args[0]) for c in calls_in(ln.node) if call_name(c) == "s.accept_run" and c.args and _cs6(ln, c.args[0]) is not None]
    ctx.check(any(set(d) == set("0123456789") for d in dec if d), "lex_number:decimal-digits", f"a decimal literal is a run over all ten digits; runs found {dec}")
    starts = []
    for fname in ("lex_initial", "lex_expression"):
        f_ = ctx.repo.func(SSTATES, fname)
        for n in walk_no_nested(f_.node):
            if isinstance(n, ast.If) and any(call_name(c) == "lex_number" for b in n.body for c in calls_in(b)):
                t = n.test
                lit = _cs6(f_, t.args[0]) if isinstance(t, ast.Call) and call_name(t) == "s.accept" and t.args else None
                starts.append((fname, lit))
    ctx.check(len(starts) >= 2 and all(l is not None and set(l) == set("0123456789") for _f, l in starts), "number-start-digits",
              f"a number may start with any decimal digit in both lexing contexts; found {starts}")
    ctx.count("base_facts", 9)


def r5_single_evaluator(ctx: Ctx) -> None:
    sites = []
    for fn in ctx.repo.all_functions():
        for c in calls_in(fn.node):
            if call_name(c) in ("eval_expression", "eval_expression_str"):
                sites.append(f"{fn.where}")
        if fn.name not in ("eval_expression", "shunting_yard", "reverse_find_token") and fn.module.name.startswith("a816"):
            uses = [c for c in calls_in(fn.node) if call_name(c) in ("shunting_yard", "eval_number")]
            if uses and fn.name != "eval_expression":
                ctx.fail(f"{fn.where}:second-evaluator", "expressions are evaluated outside eval_expression; contexts can disagree")
    ctx.count("evaluation_sites", len(sites))
    need = {"a816/parse/nodes.py:ExpressionNode.get_value": "operands and data directives", "a816/parse/nodes.py:SymbolNode.pc_after": "name = expr",
            "a816/parse/codegen.py:generate_assign": "name := expr", "a816/parse/codegen.py:generate_for": "loop bounds",
            "a816/parse/codegen.py:generate_if": "conditions", "a816/parse/codegen.py:generate_macro_application": "macro arguments",
            "a816/parse/nodes.py:IncludeIpsNode.__init__": ".include_ips delta"}
    floor_per_site = {"a816/parse/codegen.py:generate_for": 2}
    for site, what in need.items():
        n = sites.count(site)
        ctx.check(n >= floor_per_site.get(site, 1), f"evaluates-through-eval_expression:{site.split(':')[1]}",
                  f"{what} use the common evaluator ({n} call(s), {floor_per_site.get(site, 1)} expected)")
    ctx.floor("evaluation_sites", 5)
    # operators each lexer can emit
    prec = module_const(ctx.repo, EXPR, "OPERATOR_PRECEDENCE")
    le = ctx.repo.func(SSTATES, "lex_expression")
    emitted = set()
    for st in walk_no_nested(le.node):
        if isinstance(st, ast.If):
            arms, _ = if_chain(st)
            for test, body in arms:
                if any(unparse(b) == "s.emit(TokenType.OPERATOR)" for b in body):
                    for c in calls_in(test):
                        if call_name(c) == "s.accept":
                            emitted |= set(const_str(c.args[0]) or "")
                        if call_name(c) == "s.accept_prefix":
                            emitted.add(const_str(c.args[0]) or "")
    for op in sorted(REF_RANK):
        ctx.check(op in emitted, f"lex_expression:emits {op}", "the operand-context lexer produces this operator")
    ctx.note(f"operators lexed in operand context: {sorted(emitted)}; those without an evaluation arm raise (R3 unknown-binary)")
    # statement context (`name = expr`, data directives, loop bounds, conditions): the arithmetic operators it accepted when the tree was
    # confirmed must still come out as one OPERATOR token each; a two-character operator has to be looked for before any arm that
    # takes its first character alone
    li = ctx.repo.func(SSTATES, "lex_initial")
    chains = [st for st in li.node.body if isinstance(st, ast.If)]
    if len(chains) != 1:
        raise AnalysisError("lex_initial: expected one top-level if-chain")
    arms, _ = if_chain(chains[0])
    first_seen: dict[str, int] = {}
    op_arm: dict[str, int] = {}
    for i, (test, body) in enumerate(arms):
        emits_op = any(call_name(c) == "s.emit" and c.args and "TokenType.OPERATOR" in unparse(c.args[0]) for b in body for c in calls_in(b))
        for c in calls_in(test):
            if call_name(c) == "s.accept" and c.args:
                chars = const_str(c.args[0])
                if chars is None:
                    raise AnalysisError(f"lex_initial: non-literal character set `{unparse(c)[:40]}`")
                for ch in chars:
                    first_seen.setdefault(ch, i)
                    if emits_op:
                        op_arm.setdefault(ch, i)
            elif call_name(c) == "s.accept_prefix" and c.args:
                pre = const_str(c.args[0])
                if pre is None:
                    raise AnalysisError(f"lex_initial: non-literal prefix `{unparse(c)[:40]}`")
                if len(pre) == 1:
                    first_seen.setdefault(pre, i)
                if emits_op:
                    op_arm.setdefault(pre, i)
    called = {id(c.func) for c in calls_in(li.node)}
    for n_ in ast.walk(li.node):
        if isinstance(n_, ast.Attribute) and n_.attr in ("accept", "accept_prefix", "emit") and id(n_) not in called:
            raise AnalysisError(f"lex_initial: `{unparse(n_)}` passed around as a value; token tests not modelled")
    for test, body in arms:
        for c in calls_in(test):
            if call_name(c) not in ("s.accept", "s.accept_prefix", "s.peek", "s.next"):
                raise AnalysisError(f"lex_initial: token test through `{unparse(c)[:50]}`; not modelled")
        for b in body:
            for c in calls_in(b):
                cn = call_name(c) or ""
                if not (cn.startswith("s.") or cn.startswith("lex_") or cn in ("accept_opcode", "ScannerException")):
                    raise AnalysisError(f"lex_initial: arm body calls `{unparse(c)[:50]}`; not modelled")
    in_chain = {id(c) for test, body in arms for b in [test] + body for c in calls_in(b)}
    for c in calls_in(li.node):
        if id(c) not in in_chain and (unparse(c) == "s.emit(TokenType.OPERATOR)" or call_name(c) in ("s.accept", "s.accept_prefix")):
            raise AnalysisError(f"lex_initial: `{unparse(c)[:50]}` outside the token if-chain; layout not modelled")
    for op in sorted(STATEMENT_OPERATORS):
        ctx.count("statement_operators")
        if not ctx.check(op in op_arm, f"lex_initial:emits {op}", "the statement-context lexer produces this operator as one token (the operand context does; "
                         "the same expression text must be accepted by both)", fact=True):
            continue
        if len(op) == 2:
            ctx.check(first_seen.get(op[0], len(arms)) > op_arm[op] or first_seen.get(op[0]) == op_arm[op], f"lex_initial:{op} before {op[0]}",
                      f"`{op}` is looked for before an arm consumes `{op[0]}` alone", fact=True)



def symbol_values_stored_verbatim(ctx: Ctx) -> None:
    """`identifiers denote their symbol's value`: Scope.add_symbol puts the value it is given into the table, unchanged, under the
    name it is given; Scope.add_label stores the address's logical value."""
    from ..facts import assign_facts, show as show_facts

    fn = ctx.repo.func("a816.symbols", "Scope.add_symbol")
    name, value = fn.params()[1], fn.params()[2]
    n = 0
    for table in ("self.symbols", "self.code_symbols"):
        facts = assign_facts(fn, f"{table}[{name}]")
        others = [s for s in walk_no_nested(fn.node) if isinstance(s, (ast.Assign, ast.AugAssign)) and any(
            isinstance(t, ast.Subscript) and unparse(t.value) == table and unparse(t.slice) != name for t in (s.targets if isinstance(s, ast.Assign) else [s.target]))]
        for o in others:
            ctx.fail(f"Scope.add_symbol:{unparse(o)[:50]}", f"stores under a key other than the symbol's name `{name}`")
        for v, c_ in facts:
            n += 1
            redefinition_guards = [t for t, pol in c_ if (" in self.symbols" in t or " in self.code_symbols" in t or ".get(" in t)]
            ctx.check(not redefinition_guards, f"Scope.add_symbol:{table}[{name}]:always-stored", "a definition is stored whether or not the name was defined before (`:=` "
                      f"re-assignment, macro parameters rebound per application); the store runs only when {redefinition_guards}")
            tree = ast.parse(v, mode="eval").body
            arith = any(isinstance(x, (ast.BinOp, ast.UnaryOp)) or (isinstance(x, ast.Call) and call_name(x) in ("abs", "min", "max", "round", "divmod", "ctypes.c_int32", "ctypes.c_uint32"))
                        for x in ast.walk(tree))
            if v in (value, f"int({value})"):
                ctx.ok(f"Scope.add_symbol:{table}[{name}]", "the table holds the value given, unchanged")
            elif arith and value in {x.id for x in ast.walk(tree) if isinstance(x, ast.Name)}:
                ctx.fail(f"Scope.add_symbol:{table}[{name}]", f"the table holds `{v}`, not the value given: a masked, clamped or converted value is what every later use of the "
                         "identifier evaluates to")
            else:
                raise AnalysisError(f"Scope.add_symbol: stored value `{v}` not modelled")
    ctx.count("symbol_stores", n)
    ctx.floor("symbol_stores", 2)


def r6_identifier_values(ctx: Ctx) -> None:
    """an identifier evaluates to what its definition evaluated to: the symbol table stores values unchanged"""
    symbol_values_stored_verbatim(ctx)


def r7_parenthesised_operand_expressions(ctx: Ctx) -> None:
    """`the same expression text has the same value in every context`: an operand that starts with a parenthesised sub-expression and
    goes on with an operator is an expression, not an indirect operand (shared with C01.R5)"""
    from .c01 import operator_after_paren

    operator_after_paren(ctx)


def rb_binding_agreement(ctx: Ctx) -> None:
    from ..ownership import binding_agreement

    binding_agreement(ctx)


def rm_no_process_lifetime_results(ctx: Ctx) -> None:
    """memoising decorators, module-level stores and mutable defaults on this property's mechanism (shared rule, caches.py)"""
    from ..caches import state_rule

    state_rule(ctx)


def ru_names_bound(ctx: Ctx) -> None:
    """a local read but never bound raises NameError for every input that reaches the statement (shared rule, names.py)"""
    from ..names import names_rule

    names_rule(ctx)



def r8_identifier_lookup(ctx: Ctx) -> None:
    """an identifier inside an expression is the whole (possibly scope-qualified) name and means its innermost definition: the scope-chain
    lookup and the `.member` segment of lex_identifier (C08.R3 and the qualified-name part of C08.R4)"""
    from .c08 import lex_identifier_qualified, r3_lookup_chain

    r3_lookup_chain(ctx)
    lex_identifier_qualified(ctx)


def r9_definitions_evaluate_where_written(ctx: Ctx) -> None:
    """`name = expr` is one of the contexts an expression can stand in: it is evaluated in the scope it is written in, the parent being entered only for the macro-argument case (C08.R6)"""
    from .c08 import r6_macro_arguments_in_caller_scope as _c08_r6_macro_arguments_in_caller_scope

    _c08_r6_macro_arguments_in_caller_scope(ctx)


RULES = [r1_precedence_order, r2_associativity, r3_evaluation_dispatch, r4_literal_bases, r5_single_evaluator, r6_identifier_values, r7_parenthesised_operand_expressions, r8_identifier_lookup, r9_definitions_evaluate_where_written, rb_binding_agreement, rm_no_process_lifetime_results, ru_names_bound]
