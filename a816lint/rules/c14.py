"""C14 — a failed assembly is never reported as success (error-discipline clause)."""
from __future__ import annotations

import ast

from ..cfg import CFG, ENTRY, EXIT, always_raises, handler_names
from ..core import AnalysisError, calls_in, call_name, const_str, dotted, unparse, walk_no_nested
from ..exc import ancestors, catches, handler_disposition, raised_classes
from ..report import Ctx
from ..resolve import get_resolver

LEVEL = "proof"
PROGRAM = "a816.program"
EXPLANATION = (
    "Error discipline over every try/except in the shipped packages and over the four entry points: each handler either "
    "re-raises, returns a failure status, or is one of a frozen list of confirmed local recoveries (and is not broader "
    "than confirmed); from no handler of assemble_with_emitter is `return 0` or the success log reachable; every "
    "success return is dominated by the completed assembly and by the test of the returned error string; error-valued "
    "results are never discarded; the CLI exits with the callee's status; for every exception class raised in the "
    "pipeline and every entry point, the class either propagates or is turned into a non-zero status (enumerated "
    "obligations, obligations == discharged)."
)
ASSUMPTIONS = ["that every malformed input is detected is the rejection clause of C01/C05/C13/C15, not this property",
               "an uncaught exception in cli_main ends the process with a non-zero status (CPython)"]
TRUSTED = ["CPython ast", "a816lint CFG, call graph and exception hierarchy tables (a816lint/cfg.py, resolve.py, exc.py)"]

# confirmed local recoveries: (function, caught names) -> why it does not hide a failed assembly
RECOVERIES = {
    ("a816.symbols:Scope.__getitem__", frozenset({"KeyError"})): "falls through to the second table, whose miss raises SymbolNotDefined",
    ("a816.parse.parser:Parser.current", frozenset({"IndexError"})): "past the end of the token list yields an EOF token, which every parse loop stops or fails on",
    ("a816.parse.parser:Parser.peek", frozenset({"IndexError"})): "same for lookahead",
    ("a816.parse.scanner:Scanner.peek", frozenset({"IndexError"})): "past the end of input yields the EOF sentinel character",
    ("a816.parse.codegen:generate_if", frozenset({"KeyError", "SymbolNotDefined"})): "an undefined name makes the condition false by specification (C10)",
    ("a816.parse.codegen:generate_macro_application", frozenset({"SymbolNotDefined"})): "a forward reference defers the argument to label resolution, where failure raises",
    ("script:Table.to_bytes", frozenset({"KeyError"})): "tries the next shorter candidate; unknown characters are skipped by specification (C18)",
    ("script:Table.to_text", frozenset({"KeyError"})): "tries the next shorter candidate",
    ("a816.parse.parser_states:parse_operand_and_addressing", frozenset({"SyntaxError"})): "backtracks and re-parses the operand as a direct expression; errors in the re-parse propagate",
    ("a816.parse.mzparser:MZParser.parse_as_ast", frozenset({"ScannerException"})): "turned into the returned error string",
    ("a816.parse.mzparser:MZParser.parse_as_ast", frozenset({"ParserSyntaxError"})): "turned into the returned error string",
}
ENTRY_CHAIN = ["Program.assemble_string_with_emitter", "Program.assemble_with_emitter", "Program.assemble", "Program.assemble_as_patch"]


def _tries(fn_node: ast.FunctionDef) -> list[ast.Try]:
    return [n for n in walk_no_nested(fn_node) if isinstance(n, ast.Try)]


def _census_homes(ctx: Ctx, fn) -> list[str]:
    """the functions of the verified commit that a (possibly new) function belongs to: itself when it is in the census, else the
    census functions that reach it through new helpers only"""
    import json
    import os

    cen = getattr(ctx.repo, "_census_fns", None)
    if cen is None:
        here = os.path.dirname(os.path.dirname(os.path.dirname(os.path.abspath(__file__))))
        data = json.load(open(os.path.join(here, "refdata", "census.json")))["modules"]
        cen = {f"{m}:{q}" for m, d in data.items() for q in d.get("functions", [])}
        ctx.repo._census_fns = cen  # type: ignore[attr-defined]
    if fn.fq in cen:
        return [fn.fq]
    rs = get_resolver(ctx.repo)
    homes: set[str] = set()
    seen = {fn.fq}
    stack = [fn.fq]
    while stack:
        cur = stack.pop()
        callers = {c for c, sites in rs.sites.items() for s_ in sites for t in s_.targets if t.fq == cur}
        for c in callers:
            if c in cen:
                homes.add(c)
            elif c not in seen:
                seen.add(c)
                stack.append(c)
    return sorted(homes) or [fn.fq]


def _failure_classes(ctx: Ctx) -> set[str]:
    """exception classes that stand for a failed assembly: every class some statement of the packages raises, their ancestors, and
    the implicit ones of the operations the pipeline relies on"""
    got = getattr(ctx.repo, "_failure_classes", None)
    if got is None:
        got = {"KeyError", "IndexError", "LookupError", "OSError", "FileNotFoundError", "IOError", "ValueError", "UnicodeDecodeError", "error", "struct.error",
               "RecursionError", "Exception", "BaseException", "AssertionError", "NotImplementedError"}
        for f in ctx.repo.all_functions():
            for n in ast.walk(f.node):
                if isinstance(n, ast.Raise) and n.exc is not None:
                    e = n.exc.func if isinstance(n.exc, ast.Call) else n.exc
                    d = dotted(e)
                    if d:
                        got.add(d.split(".")[-1])
                        got |= set(ancestors(ctx.repo, d.split(".")[-1]))
        ctx.repo._failure_classes = got  # type: ignore[attr-defined]
    return got


def r1_handler_census(ctx: Ctx) -> None:
    for fn in ctx.repo.all_functions():
        if fn.module.name.startswith("script.") and fn.module.name != "script":
            continue  # script/pointers.py and formulas.py are not on the assembly path
        for t in _tries(fn.node):
            for h in t.handlers:
                ctx.count("handlers")
                names = handler_names(h)
                disp = handler_disposition(fn, t, h)
                construct = f"{fn.where}:except {unparse(h.type) if h.type else '<bare>'}"
                if disp in ("reraise", "return-nonzero"):
                    ctx.ok(construct, disp)
                    continue
                key = None
                homes = _census_homes(ctx, fn)
                for home in homes:
                    allowed: set[str] = set()
                    for (f, caught), why in RECOVERIES.items():
                        if f == home:
                            allowed |= set(caught)
                            if names is not None and names <= caught:
                                key = (f, caught)
                    # one handler for several confirmed recoveries of the same function (merged except clauses)
                    if key is None and names is not None and allowed and names <= allowed:
                        key = next(k for k in RECOVERIES if k[0] == home)
                if key is not None and not all(any(f == h and names is not None and names <= set().union(*[c for ff, c in RECOVERIES if ff == h]) for f, _c in RECOVERIES) for h in homes):
                    key = None
                if key is not None:
                    ctx.ok(construct, "confirmed recovery: " + RECOVERIES[key] + ("" if fn.fq == key[0] else f" (moved into the new helper {fn.qualname})"))
                    continue
                here = [sorted(c) for f, c in RECOVERIES if f == fn.fq]
                records = [x for st in h.body for x in ast.walk(st) if isinstance(x, (ast.Assign, ast.AugAssign, ast.AnnAssign, ast.Return, ast.Yield))
                           and not (isinstance(x, ast.Return) and x.value is None)]
                failure = names is None or bool(names & _failure_classes(ctx))
                if here and failure:
                    ctx.fail(construct, "the handler is broader than the local recovery confirmed for this function "
                             f"(which catches only {here}): the additional errors it catches are dropped")
                    continue
                if records and not (isinstance(h.body[-1], ast.Return) and isinstance(h.body[-1].value, ast.Constant) and h.body[-1].value.value in (0, None, True)):
                    raise AnalysisError(f"{construct}: an unconfirmed handler records the error in a value ({unparse(records[0])[:40]}); whether every caller "
                                        "turns that value into a failure status is not decided")
                if not failure:
                    raise AnalysisError(f"{construct}: an unconfirmed handler for {sorted(names or [])}, which no statement of the pipeline raises as an assembly "
                                        "failure; not decided")
                ctx.fail(construct, "the handler neither re-raises nor returns a failure status and is not a confirmed local recovery: "
                         "the error it catches is dropped" + (f" (the recovery confirmed in this function catches only {here})" if here else ""))
    ctx.floor("handlers", 13)
    # parse_as_ast: whatever a handler leads to, the ParserResult returned from there carries an error; error=None is returned
    # only after scanning and parsing both completed
    pa = ctx.repo.func("a816.parse.mzparser", "MZParser.parse_as_ast")
    g = CFG(pa.node)

    def error_exprs(start: int) -> list[tuple[int, ast.AST | None]]:
        res = []
        for rn, lasts in g.values_at_returns(start, "error", labels_excluded=["exc"]).items():
            r = g.nodes[rn].ast
            v = r.value if isinstance(r, ast.Return) else None
            if isinstance(v, ast.Name):
                defs = [d.value for d in walk_no_nested(pa.node) if isinstance(d, ast.Assign) and unparse(d.targets[0]) == v.id]
                v = defs[-1] if len(defs) == 1 else v
            if not (isinstance(v, ast.Call) and call_name(v) == "ParserResult"):
                raise AnalysisError(f"parse_as_ast: returns `{unparse(v)[:50] if v is not None else None}`, not a ParserResult(...)")
            e = next((k.value for k in v.keywords if k.arg == "error"), v.args[1] if len(v.args) > 1 else None)
            if e is None:
                raise AnalysisError("parse_as_ast: ParserResult(...) without an error field")
            if isinstance(e, ast.Name) and e.id == "error":
                for last in lasts:
                    res.append((rn, last if last is not None else e))
            else:
                res.append((rn, e))
        return res

    n_h = 0
    for t in _tries(pa.node):
        for h in t.handlers:
            n_h += 1
            got = error_exprs(g.node_of(h))
            ok = bool(got) and all(not (isinstance(e, ast.Constant) and e.value is None) and not (isinstance(e, ast.Name) and e.id == "error") for _rn, e in got)
            ctx.check(ok, f"parse_as_ast:except {unparse(h.type)}:sets-error", "the result returned after the handler ran carries an error message; found "
                      f"{[unparse(e)[:40] if e is not None else None for _rn, e in got]}")
    if n_h == 0:
        raise AnalysisError("parse_as_ast: no handler found")
    parse_calls = [g.node_containing(c) for c in calls_in(pa.node) if (call_name(c) or "").endswith((".parse", ".scan"))]
    if len(parse_calls) < 2:
        raise AnalysisError("parse_as_ast: scan / parse calls not found")
    from ..cfg import ENTRY as _ENTRY

    for rn, e in error_exprs(_ENTRY):
        if isinstance(e, ast.Constant) and e.value is None:
            ctx.check(all(g.dominated_by(rn, [pc], labels_excluded=["exc"]) for pc in parse_calls), "parse_as_ast:error=None-after-parse",
                      "a result without error is returned only after scanning and parsing both completed")


def _is_zero_status(v: ast.AST | None) -> bool:
    """a return value that a caller reads as `no error`: 0 in any literal spelling (0, -0, 0x0, 1 - 1), None, False, or nothing"""
    if v is None:
        return True
    if isinstance(v, ast.Constant):
        return v.value is None or v.value is False or (isinstance(v.value, (int, float)) and v.value == 0)
    from ..match import const_int as _ci

    c = _ci(v)
    return c is not None and c == 0


def r2_entry_point_status(ctx: Ctx) -> None:
    awe = ctx.repo.func(PROGRAM, "Program.assemble_with_emitter")
    g = CFG(awe.node)
    succ_nodes = []
    for n in walk_no_nested(awe.node):
        if isinstance(n, ast.Return) and _is_zero_status(n.value):
            succ_nodes.append(("return " + (unparse(n.value) if n.value is not None else "None"), g.node_of(n)))
        if isinstance(n, ast.Expr) and isinstance(n.value, ast.Call) and (call_name(n.value) or "").endswith("logger.info") and "Success" in unparse(n.value):
            succ_nodes.append(("success log", g.node_of(n)))
    if not any(k.startswith("return") for k, _ in succ_nodes):
        all_rets = [n for n in walk_no_nested(awe.node) if isinstance(n, ast.Return)]
        from ..match import const_int as _ci14

        if all_rets and all(r.value is not None and _ci14(r.value) not in (None, 0) for r in all_rets):
            ctx.fail("assemble_with_emitter:success-status", "every return is a non-zero literal: a completed assembly is reported as a failure (zero status is given exactly when "
                     "every statement was assembled and written)")
            return
        raise AnalysisError("assemble_with_emitter: success return not found")
    for t in _tries(awe.node):
        for h in t.handlers:
            hn = g.node_of(h)
            reach = g.reachable_with_flags([hn])
            for what, sn in succ_nodes:
                ctx.count("handler_success_pairs")
                ctx.check(sn not in reach, f"assemble_with_emitter:except {unparse(h.type)} -> {what}",
                          "after catching an assembly error the function must not reach the success exit")
    call = [c for c in calls_in(awe.node) if call_name(c) == "self.assemble_string_with_emitter"]
    if len(call) != 1:
        raise AnalysisError("assemble_with_emitter: call of assemble_string_with_emitter not found")
    cn = g.node_containing(call[0])
    # the returned error string is tested and the success exit lies on the `no error` side
    bound = [s for s in walk_no_nested(awe.node) if isinstance(s, ast.Assign) and s.value is call[0]]
    ev = unparse(bound[0].targets[0]) if bound else "error"
    tests = [s for s in walk_no_nested(awe.node) if isinstance(s, ast.If) and unparse(s.test) in (f"{ev} is not None", ev, f"{ev} is None", f"not {ev}")]
    if not bound or not tests:
        ctx.fail("assemble_with_emitter:error-string", "the error message returned by assemble_string_with_emitter is not examined: scan and parse errors end in the success exit")
    else:
        t = tests[0]
        err_branch_label = "T" if unparse(t.test) in (f"{ev} is not None", ev) else "F"
        tn = g.node_of(t.test)
        for what, sn in succ_nodes:
            blocked = [(tn, m, l) for m, l in g.succ[tn] if l != err_branch_label]
            reach = g.reachable_with_flags([m for m, l in g.succ[tn] if l == err_branch_label])
            ctx.check(sn not in reach, f"assemble_with_emitter:error-string -> {what}", "when an error string came back the success exit is unreachable")
            from ..cfg import ENTRY as _E

            dom = sn not in g.reachable_with_flags([_E], blocked=[tn]) and sn not in g.reachable_with_flags([_E], blocked=[cn])
            ctx.check(dom, f"assemble_with_emitter:{what}:dominated", "success is reached only through the completed assembly and the error test")
    # wrappers return the callee's status
    for q in ("Program.assemble", "Program.assemble_as_patch"):
        fn = ctx.repo.func(PROGRAM, q)
        rets = [r for r in walk_no_nested(fn.node) if isinstance(r, ast.Return)]
        srcs = set()
        for r in rets:
            v = r.value
            if isinstance(v, ast.Name):
                defs = [s for s in walk_no_nested(fn.node) if isinstance(s, ast.Assign) and unparse(s.targets[0]) == v.id]
                srcs |= {unparse(d.value) for d in defs}
            else:
                srcs.add(unparse(v))
        ok = bool(rets) and all(s.startswith("self.assemble_with_emitter(") for s in srcs)
        ctx.check(ok, f"{q}:status", f"returns the status of assemble_with_emitter; found {sorted(srcs)}")
        for t in _tries(fn.node):
            for h in t.handlers:
                ctx.check(handler_disposition(fn, t, h) in ("reraise", "return-nonzero"), f"{q}:except {unparse(h.type)}", "no handler converts a failure into the normal return")
    cli = ctx.repo.func("a816.cli", "cli_main")
    exits = [c for c in calls_in(cli.node) if call_name(c) == "sys.exit"]
    ok = len(exits) == 1 and len(exits[0].args) == 1
    if ok:
        if isinstance(exits[0].args[0], ast.Name):
            var = exits[0].args[0].id
            dnodes = [s.value for s in walk_no_nested(cli.node) if isinstance(s, ast.Assign) and unparse(s.targets[0]) == var]
        else:
            dnodes = [exits[0].args[0]]  # sys.exit(<the call itself>)
        defs = [unparse(d) for d in dnodes]
        ok = len(defs) >= 1 and all(d.startswith("program.assemble_as_patch(") or d.startswith("program.assemble(") for d in defs)
        if not ok and dnodes and all(isinstance(d, ast.Call) and (isinstance(d.func, (ast.Name, ast.Subscript, ast.Call)) and (call_name(d) or "") not in ("int", "bool")) for d in dnodes):
            raise AnalysisError(f"cli_main: the exit status comes from `{defs[0][:50]}`, a call the analysis does not resolve to an entry point; not decided")
    elif len(exits) > 1 and all(len(e.args) == 1 for e in exits) and any(isinstance(e.args[0], ast.Constant) for e in exits):
        # several exits, some with a literal status (a conditional such as `1 if code > 0 else 0` written out): the assembler's own status
        # (-1 for a failed assembly) does not reach the caller as it is
        ctx.fail("cli_main:exit-status", f"the process exits with literal statuses {[unparse(e.args[0]) for e in exits]} chosen from the assembler's status, not with that status itself: "
                 "a failure status the literal test does not cover leaves as success", fact=True)
        ok = True
    elif len(exits) != 1:
        raise AnalysisError(f"cli_main: {len(exits)} sys.exit calls; not modelled")
    ctx.check(ok, "cli_main:exit-status", "the process exits with the status returned by the assembler entry point")
    for t in _tries(cli.node):
        for h in t.handlers:
            ctx.check(handler_disposition(cli, t, h) == "reraise", f"cli_main:except {unparse(h.type)}", "the CLI does not absorb exceptions")
    ctx.floor("handler_success_pairs", 2)


ERROR_VALUED = {"assemble_string_with_emitter": "error message or None", "assemble_with_emitter": "status", "assemble": "status",
                "assemble_as_patch": "status", "parse": "(error, nodes)", "parse_as_ast": "ParserResult.error"}


def r3_error_values_consumed(ctx: Ctx) -> None:
    rs = get_resolver(ctx.repo)
    targets = {"a816.program:Program.assemble_string_with_emitter", "a816.program:Program.assemble_with_emitter", "a816.program:Program.assemble",
               "a816.program:Program.assemble_as_patch", "a816.parse.mzparser:MZParser.parse", "a816.parse.mzparser:MZParser.parse_as_ast"}
    for fq, sites in rs.sites.items():
        caller = rs.by_fq[fq]
        if not caller.module.name.startswith("a816"):
            continue
        parents = {}
        for p in ast.walk(caller.node):
            for ch in ast.iter_child_nodes(p):
                parents[id(ch)] = p
        for s in sites:
            hit = [t for t in s.targets if t.fq in targets]
            if not hit:
                continue
            ctx.count("error_valued_calls")
            par = parents.get(id(s.node))
            construct = f"{caller.where}:{unparse(s.node)[:60]}"
            if isinstance(par, ast.Expr):
                ctx.fail(construct, f"the {ERROR_VALUED[hit[0].name]} result is discarded")
                continue
            if isinstance(par, ast.Return) or (isinstance(par, ast.Call) and call_name(par) == "sys.exit"):
                ctx.ok(construct, "returned / passed on")
                continue
            if isinstance(par, ast.Assign):
                names = [n.id for t in par.targets for n in ast.walk(t) if isinstance(n, ast.Name)]
                err_name = names[0] if names else None
                used = False
                for n in walk_no_nested(caller.node):
                    if n is par:
                        continue
                    if isinstance(n, (ast.If, ast.Return, ast.Call, ast.Attribute)):
                        root = n.test if isinstance(n, ast.If) else n.value if isinstance(n, (ast.Return, ast.Attribute)) else n
                        if root is not None and err_name in {x.id for x in ast.walk(root) if isinstance(x, ast.Name)}:
                            used = True
                ctx.check(used, construct, f"the result `{err_name}` is examined or returned")
                continue
            ctx.ok(construct, "used in an expression")
    ctx.floor("error_valued_calls", 3)
    # MZParser.parse hands the AST error on
    mp = ctx.repo.func("a816.parse.mzparser", "MZParser.parse")
    r = [x for x in walk_no_nested(mp.node) if isinstance(x, ast.Return)]
    ok = len(r) == 1 and isinstance(r[0].value, ast.Tuple) and unparse(r[0].value.elts[0]) == "ast.error"
    ctx.check(ok, "MZParser.parse:returns-error", "the first element of the result is the parse error")
    asw = ctx.repo.func(PROGRAM, "Program.assemble_string_with_emitter")
    g = CFG(asw.node)
    tests = [s for s in asw.node.body if isinstance(s, ast.If) and unparse(s.test) == "error is not None" and len(s.body) == 1 and unparse(s.body[0]) == "return error"]
    ctx.check(len(tests) == 1, "assemble_string_with_emitter:error-check", "a parse error is returned to the caller")
    if tests:
        tn = g.node_of(tests[0].test)
        for c in calls_in(asw.node):
            if call_name(c) in ("self.resolve_labels", "self.emit"):
                ctx.check(g.dominated_by(g.node_containing(c), [tn]), f"assemble_string_with_emitter:{call_name(c)}-after-check", "nothing is resolved or written for a source that did not parse")


def r4_success_last(ctx: Ctx) -> None:
    asw = ctx.repo.func(PROGRAM, "Program.assemble_string_with_emitter")
    g = CFG(asw.node)
    emit = [g.node_containing(c) for c in calls_in(asw.node) if call_name(c) == "self.emit"]
    rl = [g.node_containing(c) for c in calls_in(asw.node) if call_name(c) == "self.resolve_labels"]
    if len(emit) != 1 or len(rl) != 1:
        raise AnalysisError("assemble_string_with_emitter: resolve_labels / emit calls not found")
    for r in walk_no_nested(asw.node):
        if isinstance(r, ast.Return) and unparse(r.value) == "None":
            ctx.count("success_returns")
            ctx.check(g.dominated_by(g.node_of(r), emit) and g.dominated_by(emit[0], rl), "assemble_string_with_emitter:return None",
                      "None (success) is returned only after labels were resolved and every statement was emitted")
    # falling off the end would also return None
    fall = [n for n, lab in g.pred[EXIT] if lab != "return"]
    ctx.check(not fall, "assemble_string_with_emitter:no-fallthrough", "no path falls off the end (an implicit None would read as success)")
    ctx.floor("success_returns", 1)
    for t in _tries(asw.node):
        for h in t.handlers:
            ctx.check(handler_disposition(asw, t, h) == "reraise", f"assemble_string_with_emitter:except {unparse(h.type)}", "no handler between the pipeline and the caller")
    for q in ("Program.emit", "Program.resolve_labels"):
        fn = ctx.repo.func(PROGRAM, q)
        for t in _tries(fn.node):
            for h in t.handlers:
                ctx.check(handler_disposition(fn, t, h) == "reraise", f"{q}:except {unparse(h.type)}", "the traversal does not absorb node errors")
        ctx.count("traversals")


IMPLICIT = ["KeyError", "IndexError", "struct.error", "OSError", "FileNotFoundError", "ValueError", "RecursionError", "AssertionError", "TypeError", "UnicodeDecodeError"]


def r5_escape_obligations(ctx: Ctx) -> None:
    rs = get_resolver(ctx.repo)
    reach = rs.reachable_from(["a816.program:Program.assemble_string_with_emitter"])
    classes: dict[str, str] = {}
    for fq in sorted(reach):
        fn = rs.by_fq[fq]
        for nm, node in raised_classes(fn):
            classes.setdefault(nm, fn.where)
    for nm in IMPLICIT:
        classes.setdefault(nm, "implicit (subscript / struct / open / int)")
    ctx.count("exception_classes", len(classes))
    ctx.floor("exception_classes", 8)
    ctx.count("pipeline_functions", len(reach))
    ctx.floor("pipeline_functions", 80)
    awe = ctx.repo.func(PROGRAM, "Program.assemble_with_emitter")
    handlers = [(t, h) for t in _tries(awe.node) for h in t.handlers]
    for nm, where in sorted(classes.items()):
        if nm in ("e", "NotImplementedError"):
            continue
        for entry in ("assemble_with_emitter", "assemble", "assemble_as_patch", "cli_main"):
            ctx.count("escape_obligations")
            construct = f"{entry} x {nm}"
            caught = [(t, h) for t, h in handlers if catches(ctx.repo, h, nm)]
            if not caught:
                ctx.ok(construct, "propagates (traceback / non-zero exit)")
            else:
                disp = {handler_disposition(awe, t, h) for t, h in caught[:1]}
                ctx.check(disp <= {"reraise", "return-nonzero"}, construct, f"caught in assemble_with_emitter by `except {unparse(caught[0][1].type)}` which {sorted(disp)}")
    ctx.sample({"exception_classes": sorted(classes), "raised_at": {k: v for k, v in list(classes.items())[:8]}})



def r6_whole_input_is_parsed(ctx: Ctx) -> None:
    """success means every statement was assembled: the top-level parser stops only at the EOF token, the scanner only at the
    end of the text, and code generation visits every parsed node."""
    pi = ctx.repo.func("a816.parse.parser_states", "parse_initial")
    loops = [n for n in walk_no_nested(pi.node) if isinstance(n, ast.While)]
    ok = len(loops) == 1 and unparse(loops[0].test) == "p.current().type != TokenType.EOF" and loops[0] in pi.node.body
    ctx.check(ok, "parse_initial:until-EOF", f"statements are parsed until the EOF token; loop guard(s) {[unparse(l.test) for l in loops]}")
    if loops:
        early = [type(s).__name__ for s in walk_no_nested(loops[0]) if isinstance(s, (ast.Break, ast.Return))]
        ctx.check(not early, "parse_initial:no-early-exit", f"nothing leaves the top-level loop before EOF except an error; found {early}")
        stmts = [s for s in loops[0].body if isinstance(s, ast.Assign) and call_name(s.value) == "parse_decl"]
        ctx.check(len(stmts) == 1, "parse_initial:parses-declarations", "each iteration parses one declaration with parse_decl")
    rets = [r for r in walk_no_nested(pi.node) if isinstance(r, ast.Return)]
    ctx.check(len(rets) == 1 and rets[0] is pi.node.body[-1], "parse_initial:single-return", "returns after the loop")
    for c in calls_in(pi.node):
        if call_name(c) in ("parse_block",):
            ctx.fail("parse_initial:delegates-to-parse_block", "parse_block stops at a closing brace: at top level a stray `}` would silently end the program")
    sc = ctx.repo.func("a816.parse.scanner", "Scanner.scan")
    loops = [n for n in walk_no_nested(sc.node) if isinstance(n, ast.While)]
    conj = [unparse(v) for v in (loops[0].test.values if len(loops) == 1 and isinstance(loops[0].test, ast.BoolOp) and isinstance(loops[0].test.op, ast.And) else
                                 ([loops[0].test] if len(loops) == 1 else []))]
    ok = len(loops) == 1 and "self.pos < len(self.input)" in conj and set(conj) <= {"self.pos < len(self.input)", "self.state is not None"}
    ctx.check(ok, "Scanner.scan:until-end", f"the scanner runs until the end of the text (or until there is no state function); guard {conj}")
    if loops:
        brk = [s for s in walk_no_nested(loops[0]) if isinstance(s, ast.Break)]
        for b in brk:
            # the only tolerated break is the `state is None` arm
            par_ok = any(isinstance(s, ast.If) and unparse(s.test) == "self.state is not None" and any(x is b for o in s.orelse for x in ast.walk(o)) for s in walk_no_nested(loops[0]))
            ctx.check(par_ok, "Scanner.scan:break", "scanning stops early only when there is no state function")
    cg = ctx.repo.func("a816.parse.codegen", "_code_gen")
    loops = [n for n in walk_no_nested(cg.node) if isinstance(n, ast.For)]
    ok = len(loops) == 1 and unparse(loops[0].iter) == cg.params()[0] and not [s for s in walk_no_nested(loops[0]) if isinstance(s, (ast.Break, ast.Continue, ast.Return))]
    ctx.check(ok, "_code_gen:every-node", "every parsed node is expanded (or raises 'Left over node')")
    if loops:
        # the looked-up generator: `g = table.get(kind)` must lead to a raise when g is None, in any branch layout; a plain subscript
        # raises KeyError by itself
        gets = [s for s in walk_no_nested(loops[0]) if isinstance(s, ast.Assign) and isinstance(s.value, ast.Call) and (call_name(s.value) or "").endswith(".get")
                and isinstance(s.targets[0], ast.Name)]
        subs = [s for s in walk_no_nested(loops[0]) if isinstance(s, ast.Assign) and isinstance(s.value, ast.Subscript) and unparse(s.value.slice).endswith(".kind")]
        if len(gets) == 1:
            from ..facts import outcome_under

            var = gets[0].targets[0].id  # type: ignore[union-attr]
            has_default = len(gets[0].value.args) > 1 and not (isinstance(gets[0].value.args[1], ast.Constant) and gets[0].value.args[1].value is None)  # type: ignore[attr-defined]
            body_fn = ast.FunctionDef(name="_loop_body", args=ast.arguments(posonlyargs=[], args=[], kwonlyargs=[], kw_defaults=[], defaults=[]), body=list(loops[0].body),
                                      decorator_list=[], lineno=loops[0].lineno, col_offset=0)
            try:
                raises = outcome_under(body_fn, {var: False, f"{var} is None": True, f"callable({var})": False}, inline_locals=False) == "raise"
            except AnalysisError:
                raises = len([s for s in walk_no_nested(loops[0]) if isinstance(s, ast.If) and s.orelse and always_raises(s.orelse)]) == 1
            ctx.check(raises and not has_default, "_code_gen:unknown-kind-raises", "a node kind without a generator is an error, not skipped")
        elif subs and not gets:
            ctx.ok("_code_gen:unknown-kind-raises", "the generator table is subscripted: an unknown kind raises KeyError")
        else:
            raise AnalysisError("_code_gen: generator lookup not recognised")


def r7_unmapped_address_rejected(ctx: Ctx) -> None:
    """`unmapped address` is one of the listed failures: the bank lookup raises for a bank no mapping claims and the bank is the
    whole of address >> 16 (the C04.R4 obligation)"""
    from .c04 import r1_builtin_maps, r4_rejection

    r4_rejection(ctx)
    r1_builtin_maps(ctx)  # which banks are unmapped is what the built-in tables say: a widened bank range accepts addresses no ROM has


def recovery_scope(ctx: Ctx) -> None:
    """A handler that recovers locally (does not re-raise) may only guard the evaluation it was confirmed for: no handler in the
    code generators encloses an expansion (`_code_gen` / a generator).  Expanding a block raises KeyError for an undefined macro,
    IndexError for a missing argument, SymbolNotDefined / NodeError for undefined names: a recovering handler around it turns a
    failed assembly into a shorter successful one."""
    rs = get_resolver(ctx.repo)
    expanders = {"a816.parse.codegen:_code_gen", "a816.parse.codegen:code_gen"}
    n = 0
    for fn in ctx.repo.all_functions():
        if fn.module.name not in ("a816.parse.codegen", "a816.program"):
            continue
        for t in _tries(fn.node):
            recovering = [h for h in t.handlers if not always_raises(h.body)]
            if not recovering:
                continue
            n += 1
            inside = {id(c) for st in t.body for c in ast.walk(st) if isinstance(c, ast.Call)}
            hit = None
            for site in rs.sites.get(fn.fq, []):
                if id(site.node) in inside:
                    for tg in site.targets:
                        if tg.fq in expanders or expanders & rs.reachable_from([tg.fq]):
                            hit = (site.node, tg)
            names = sorted(set().union(*[(handler_names(h) or {"<bare>"}) for h in recovering]))
            if hit is not None and fn.fq.startswith("a816.parse.codegen:"):
                ctx.fail(f"{fn.where}:try-encloses-expansion", f"`{unparse(hit[0])[:60]}` expands statements inside a try whose handler ({', '.join(names)}) recovers locally: "
                         "an undefined macro or symbol inside the expanded block is swallowed and the assembly still succeeds")
            elif fn.fq.startswith("a816.parse.codegen:"):
                ctx.ok(f"{fn.where}:try-scope", f"the recovering handler ({', '.join(names)}) guards no expansion")
    ctx.count("recovering_tries", n)
    ctx.floor("recovering_tries", 2)


def r8_recovery_scope(ctx: Ctx) -> None:
    recovery_scope(ctx)


def rb_binding_agreement(ctx: Ctx) -> None:
    from ..ownership import binding_agreement

    binding_agreement(ctx)


def rm_no_process_lifetime_results(ctx: Ctx) -> None:
    """memoising decorators, module-level stores and mutable defaults on this property's mechanism (shared rule, caches.py)"""
    from ..caches import state_rule

    state_rule(ctx)


def ru_names_bound(ctx: Ctx) -> None:
    """a local read but never bound raises NameError for every input that reaches the statement (shared rule, names.py)"""
    from ..names import names_rule

    names_rule(ctx)


def r9_dispatch_errors_name_the_dispatched_token(ctx: Ctx) -> None:
    """a syntax error raised about the token a parser state dispatched on carries that token, never a fresh p.current()/p.peek(): past the
    end of input those return a position-less token whose trace() is None, and MZParser.parse_as_ast returns that None as `no error` (C17.R6)"""
    from .c17 import r6_dispatch_errors_name_the_dispatched_token

    r6_dispatch_errors_name_the_dispatched_token(ctx)


def operand_brackets_closed(ctx: Ctx) -> None:
    fi = ctx.repo.func("a816.parse.parser_states", "parse_operand_and_addressing")
    from ..match import if_chain

    chains = [st for st in fi.node.body if isinstance(st, ast.If)]
    if len(chains) != 1:
        raise AnalysisError(f"{fi.where}: expected one if-chain over the first operand token")
    arms, _els = if_chain(chains[0])
    seen = 0
    for test, body in arms:
        if not (isinstance(test, ast.Call) and call_name(test) == "accept_token" and len(test.args) == 2):
            continue
        opener = (dotted(test.args[1]) or "").split(".")[-1]
        closer = {"LPAREN": "RPAREN", "LBRAKET": "RBRAKET"}.get(opener)
        if closer is None:
            continue
        seen += 1
        ctx.count("bracket_arms")
        seq = body
        if len(seq) >= 1 and isinstance(seq[-1], ast.Try) and all(not isinstance(x, (ast.If, ast.Try, ast.For, ast.While)) for x in seq[:-1]):
            seq = seq[-1].body  # the `(` arm tries the indirect form first; its fallback re-parses the whole text as an expression
        def closes(st: ast.stmt) -> bool:
            return (isinstance(st, ast.Expr) and isinstance(st.value, ast.Call) and call_name(st.value) == "expect_token" and len(st.value.args) == 2
                    and (dotted(st.value.args[1]) or "").split(".")[-1] == closer)
        top = [k for k, st in enumerate(seq) if closes(st)]
        anywhere = [c for st in body for c in calls_in(st) if call_name(c) in ("expect_token", "expect_tokens") and closer in unparse(c)]
        if not anywhere:
            ctx.fail(f"{fi.name}:{opener}-arm:closed", f"an operand opened with {opener} is accepted without requiring {closer}: the unclosed operand "
                     "assembles and the token after it is swallowed", fact=True)
            continue
        if not top:
            raise AnalysisError(f"{fi.where}: {closer} is required only inside a nested statement of the {opener} arm; layout not modelled")
        early = [n for st in seq[:top[0]] for n in ast.walk(st) if isinstance(n, (ast.Return, ast.Break, ast.Continue))]
        if early:
            raise AnalysisError(f"{fi.where}: the {opener} arm can leave before {closer} is required; layout not modelled")
        ctx.ok(f"{fi.name}:{opener}-arm:closed", f"every completion of the arm passes expect_token(.., {closer})")
    if seen != 2:
        raise AnalysisError(f"{fi.where}: expected an arm for `(` and one for `[`, found {seen}")


def r10_operand_brackets_closed(ctx: Ctx) -> None:
    """an operand that opens with `(` or `[` is accepted only when the matching closer follows: every completion of that arm of
    parse_operand_and_addressing passes through expect_token(.., RPAREN / RBRAKET)"""
    operand_brackets_closed(ctx)


def r11_unterminated_comment_is_an_error(ctx: Ctx) -> None:
    """`lexical error` is one of the listed failures: a `/*` comment ends only at `*/`; reaching the end of input inside it raises, it does
    not silently end the comment and drop the rest of the file (C16.R2: the COMMENT token is emitted only once `*/` has been found)"""
    from .c16 import r2_skip_sets

    r2_skip_sets(ctx)


RULES = [r1_handler_census, r2_entry_point_status, r3_error_values_consumed, r4_success_last, r5_escape_obligations, r6_whole_input_is_parsed, r7_unmapped_address_rejected, r8_recovery_scope, r9_dispatch_errors_name_the_dispatched_token, r10_operand_brackets_closed, r11_unterminated_comment_is_an_error, rb_binding_agreement, rm_no_process_lifetime_results, ru_names_bound]
