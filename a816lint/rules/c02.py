"""C02 — labels equal real emission addresses: predicted size == emitted size, per statement kind."""
from __future__ import annotations

import ast

from ..cfg import CFG, ENTRY, EXIT, always_raises
from ..core import AnalysisError, calls_in, call_name, dotted, unparse, walk_no_nested
from ..match import canon, if_chain, inline, pack_call, returns_of, single_assignments, eq_const_test
from ..report import Ctx
from ..terms import CPU, NODES, Term, ZERO, emit_term, implementers, node_class_terms, real_method
from .c01 import size_map

LEVEL = "other"
PROGRAM = "a816.program"
EXPLANATION = (
    "Sibling agreement between the two traversals that must agree: for every NodeProtocol class the abstract length "
    "term of emit() equals the advance term of pc_after(); for every opcode emitter supposed_length equals the emitted "
    "length for each width; the label pass skips only zero-length classes; Program.emit advances both cursors by the "
    "emitted length; resolver_reset separates the passes; and a node whose width is inferred from resolver state "
    "re-checks the emitted length against the predicted one and raises. Decides size agreement, not address arithmetic."
)
ASSUMPTIONS = [
    "Address.__add__ arithmetic is correct (C04 residue, value law)",
    "for a given program the symbol tables either agree between passes or the OpcodeNode guard (R4) turns the "
    "disagreement into an error; R4 checks the guard exists on every emitting path, not that no program trips it",
]


def r1_per_class_length_agreement(ctx: Ctx) -> None:
    terms = node_class_terms(ctx.repo)
    for name, (ci, et, at, em, pa) in sorted(terms.items()):
        ctx.count("node_classes")
        if "multi" in (et.kind, at.kind):
            if et.kind == at.kind == "multi" and et.value == at.value:
                raise AnalysisError(f"{name}: emit and pc_after both return differing terms {et.value}; the guards are not compared")
            ctx.fail(f"{name}:emit-vs-pc_after", f"emit() yields {et}, pc_after() advances by {at}: on some path the layout passes and the emit pass disagree")
            continue
        if at.kind == "jump":
            ctx.check(et == ZERO, f"{name}:emit-vs-pc_after", f"pc_after moves to a new address and emit returns {et}; a position node emits nothing")
            continue
        if et.kind == at.kind == "opcode":
            # same emitter object on both sides; the per-emitter agreement is R2
            ctx.check(et.value[0] == at.value[0], f"{name}:emit-vs-pc_after",  # type: ignore[index]
                      f"emit() delegates to {et.value[0]}, pc_after() to {at.value[0]}")  # type: ignore[index]
            continue
        ctx.check(et == at, f"{name}:emit-vs-pc_after", f"emit() yields {et} bytes, pc_after() advances by {at}")
    ctx.floor("node_classes", 11)


def r2_opcode_emitters(ctx: Ctx) -> None:
    repo = ctx.repo
    smap = size_map(ctx)
    for ci in implementers(repo, CPU, "OpcodeProtocol"):
        ctx.count("opcode_emitters")
        sl = real_method(repo, ci, "supposed_length", "OpcodeProtocol")
        em = real_method(repo, ci, "emit", "OpcodeProtocol")
        if sl is None or em is None:
            raise AnalysisError(f"{ci.name}: supposed_length/emit not found")
        rets = [r.value for r in returns_of(sl.node) if r.value is not None]
        if len(rets) != 1:
            raise AnalysisError(f"{sl.where}: expected one return")
        pred = inline(rets[0], single_assignments(sl.node))
        if isinstance(pred, ast.Constant) and isinstance(pred.value, int):
            et = emit_term(repo, ci, em)
            ctx.check(et == Term("const", pred.value), f"{ci.name}:supposed_length-vs-emit",
                      f"supposed_length() says {pred.value}, emit() yields {et}")
            continue
        # width dependent: C + size_opcode_map[w]
        base = None
        if isinstance(pred, ast.BinOp) and isinstance(pred.op, ast.Add):
            for a, b in ((pred.left, pred.right), (pred.right, pred.left)):
                if isinstance(a, ast.Constant) and isinstance(a.value, int) and unparse(b).startswith("self.size_opcode_map["):
                    base = a.value
                    wexpr = unparse(b)[len("self.size_opcode_map["):-1]
        if base is None:
            raise AnalysisError(f"{sl.where}: length `{unparse(pred)}` not modelled")
        want_w = f"guess_value_size({sl.params()[1]}, {sl.params()[2]})"
        em_w = {unparse(c) for c in calls_in(em.node, "guess_value_size")}
        ctx.check(wexpr == want_w or (wexpr in em_w), f"{ci.name}:supposed_length:width", f"width key is {wexpr}, emission uses {sorted(em_w)}")
        # emitted: 1 opcode byte + emit_value arm
        ev = real_method(repo, ci, "emit_value", "OpcodeProtocol")
        if ev is None:
            raise AnalysisError(f"{ci.name}: emit_value not found")
        arm_len: dict[str, int] = {}
        default_len = None
        for st in ev.node.body:
            if isinstance(st, ast.If):
                arms, orelse = if_chain(st)
                for test, body in arms:
                    t = eq_const_test(test)
                    if t is None or not isinstance(body[-1], ast.Return) or body[-1].value is None:
                        raise AnalysisError(f"{ev.where}: arm not modelled")
                    from ..match import packed_bytes
                    arm_len[t[1]] = len(packed_bytes(inline(body[-1].value, single_assignments(ev.node))))
            elif isinstance(st, ast.Return) and isinstance(st.value, ast.Constant) and isinstance(st.value.value, bytes):
                default_len = len(st.value.value)
        emr = [r.value for r in returns_of(em.node) if r.value is not None]
        e = inline(emr[0], single_assignments(em.node)) if len(emr) == 1 else None
        head = None
        if isinstance(e, ast.BinOp) and isinstance(e.op, ast.Add):
            from ..match import packed_bytes
            try:
                head = len(packed_bytes(e.left))
            except AnalysisError:
                head = None
        if head is None:
            raise AnalysisError(f"{em.where}: emit is not `pack(opcode) + operand bytes`")
        for w, slot in sorted(smap.items()):
            ctx.count("width_obligations")
            got = head + arm_len.get(w, default_len if default_len is not None else 0)
            ctx.check(got == base + slot, f"{ci.name}[{w}]:supposed_length-vs-emit",
                      f"supposed_length() says {base + slot} for width {w!r}, emit() yields {got}")
    ctx.floor("opcode_emitters", 2)
    # OpcodeNode: both traversals go through the same emitter with the same (value_node, size)
    t = node_class_terms(repo).get("OpcodeNode")
    if t is None:
        raise AnalysisError("anchor missing: OpcodeNode")
    _, et, at, em, pa = t
    ok = et.kind == "opcode" and at.kind == "opcode"
    if ok:
        e_recv, e_args = et.value  # type: ignore[misc]
        a_recv, a_args = at.value  # type: ignore[misc]
        ok = e_recv == a_recv and e_args[0] == a_args[0] and e_args[-1] == a_args[-1]
    ctx.check(ok, "OpcodeNode:same-emitter-and-arguments", f"emit uses {et}, pc_after uses {at}")
    srcs = {}
    for fn in (em, pa):
        srcs[fn.qualname] = sorted({unparse(n.value) for n in walk_no_nested(fn.node) if isinstance(n, ast.Assign) and unparse(n.targets[0]) == "opcode_emitter"})
    vals = list(srcs.values())
    ctx.check(len(vals) == 2 and vals[0] == vals[1] and len(vals[0]) == 1 and vals[0][0].startswith("self."), "OpcodeNode:emitter-source",
              f"emission and size prediction obtain the emitter through the same lookup; found {srcs}")


def _loop_info(loop: ast.For) -> tuple[set[str], bool]:
    """classes skipped by `if isinstance(node, X) ...: continue`, and whether the body calls node.pc_after(previous_pc)"""
    skipped: set[str] = set()
    for st in loop.body:
        guard = isinstance(st, ast.If) and any(isinstance(b, ast.Continue) for b in st.body)
        # `if not isinstance(node, X): <the pass>` as the whole loop body skips X just like `if isinstance(node, X): continue`
        wrapped = isinstance(st, ast.If) and not st.orelse and len(loop.body) == 1 and isinstance(st.test, ast.UnaryOp) and isinstance(st.test.op, ast.Not)
        if guard or wrapped:
            for c in calls_in(st.test, "isinstance"):
                if len(c.args) == 2:
                    second = c.args[1]
                    names = [second] if not isinstance(second, ast.Tuple) else second.elts
                    skipped |= {unparse(n) for n in names}
    calls = [c for c in calls_in(loop, suffix="pc_after")]
    return skipped, bool(calls)


def r3_traversal_agreement(ctx: Ctx) -> None:
    repo = ctx.repo
    terms = node_class_terms(repo)
    rl = repo.func(PROGRAM, "Program.resolve_labels")
    loops = [st for st in rl.node.body if isinstance(st, ast.For)]
    if len(loops) < 2:
        raise AnalysisError("resolve_labels: expected two passes over the node list")
    plist = rl.params()[1]
    label_passes = 0
    for i, lp in enumerate(loops):
        ctx.count("passes")
        ctx.check(unparse(lp.iter) == plist, f"resolve_labels:pass{i}:iterates", f"iterates `{unparse(lp.iter)}` (must be the whole node list, in order)")
        skipped, calls = _loop_info(lp)
        if not calls:
            raise AnalysisError(f"resolve_labels: pass {i} does not call pc_after")
        leaves = [n for n in walk_no_nested(lp) if isinstance(n, (ast.Break, ast.Return)) and not any(n in ast.walk(inner) for inner in ast.walk(lp)
                                                                                                  if inner is not lp and isinstance(inner, (ast.For, ast.While)))]
        ctx.check(not leaves, f"resolve_labels:pass{i}:whole-list", "the pass visits every node: it is not left early (a `break` at the first skipped node leaves "
                  "the symbols and deferred macro arguments after it unevaluated)", fact=True)
        # threaded address: previous_pc = node.pc_after(previous_pc)
        threaded = any(isinstance(s, ast.Assign) and isinstance(s.value, ast.Call) and (call_name(s.value) or "").endswith(".pc_after")
                       and [unparse(a) for a in s.value.args] == [unparse(s.targets[0])] for s in walk_no_nested(lp))
        ctx.check(threaded, f"resolve_labels:pass{i}:threads-address", "each node receives the address returned by the previous node")
        if "LabelNode" not in skipped:
            label_passes += 1
            for cname in sorted(skipped):
                if cname not in terms:
                    raise AnalysisError(f"resolve_labels skips unknown class {cname}")
                ctx.check(terms[cname][2] == ZERO, f"resolve_labels:label-pass-skips:{cname}",
                          f"the pass that places labels skips {cname}, whose pc_after advances by {terms[cname][2]}")
            # skipping by subclass: a skipped base also skips its subclasses
            for cname in sorted(skipped):
                for sub in repo.subclasses(terms[cname][0]):
                    ctx.check(terms[sub.name][2] == ZERO, f"resolve_labels:label-pass-skips:{sub.name}", "subclass of a skipped class must not advance")
    ctx.check(label_passes >= 1, "resolve_labels:label-pass", "some pass executes LabelNode.pc_after")
    # start address of each pass and resets
    g = CFG(rl.node)
    starts = [n for n in walk_no_nested(rl.node) if isinstance(n, ast.Assign) and unparse(n.value) == "self.resolver.reloc_address"]
    ctx.check(len(starts) >= len(loops), "resolve_labels:start-address", "every pass starts from resolver.reloc_address")
    resets = [g.node_of(n) for n in walk_no_nested(rl.node) if isinstance(n, ast.Expr) and call_name(n.value) == "self.resolver_reset"]
    loop_nodes = [g.node_of(lp) for lp in loops]
    for i in range(len(loops) - 1):
        ctx.check(g.every_path_passes(loop_nodes[i], loop_nodes[i + 1], resets, labels_excluded=["loop"]),
                  f"resolve_labels:reset-between-pass{i}-and-{i + 1}", "resolver_reset() runs between the passes (scope replay restarts at the root)")
    ctx.check(g.every_path_passes(loop_nodes[-1], EXIT, resets, labels_excluded=["loop"]), "resolve_labels:reset-before-return",
              "resolver_reset() runs after the last pass, so emission replays scopes from the root")
    rr = repo.func(PROGRAM, "Program.resolver_reset")
    assigned = {unparse(n.targets[0]): unparse(n.value) for n in walk_no_nested(rr.node) if isinstance(n, ast.Assign)}
    ctx.check(assigned.get("self.resolver.last_used_scope") == "0" and assigned.get("self.resolver.current_scope") == "self.resolver.scopes[0]",
              "resolver_reset:scope-replay", f"resets last_used_scope to 0 and current_scope to the root; found {assigned}")
    # Program.emit: same list, both cursors advance by the emitted length
    import copy as _copy

    from .c03 import emit_canonical

    pe = _copy.copy(repo.func(PROGRAM, "Program.emit"))
    pe.node = emit_canonical(pe.node)
    floops = [st for st in pe.node.body if isinstance(st, ast.For)]
    if len(floops) != 1:
        raise AnalysisError("Program.emit: expected one loop over the node list")
    lp = floops[0]
    ctx.check(unparse(lp.iter) == pe.params()[1], "Program.emit:iterates", "visits every node of the list in order")
    emits = calls_in(lp, suffix="emit")
    ok = len(emits) == 1 and unparse(emits[0]) == "node.emit(self.resolver.reloc_address)"
    ctx.check(ok, "Program.emit:emit-call", f"each node is emitted at the current run address; found {[unparse(e) for e in emits]}")
    augs = [n for n in walk_no_nested(lp) if isinstance(n, ast.AugAssign) and isinstance(n.op, ast.Add)]
    gpe = CFG(pe.node)
    conds = {}
    for cursor in ("self.resolver.pc", "self.resolver.reloc_address", "current_block"):
        hits = [n for n in augs if unparse(n.target) == cursor]
        if cursor != "current_block":
            val = canon(pe.node, hits[0].value, keep=("node_bytes",)) if len(hits) == 1 else None
            ctx.check(len(hits) == 1 and val == "len(node_bytes)", f"Program.emit:advance:{cursor}", f"advances by len(node_bytes), once per node; found `{val}` ({len(hits)} site(s))")
        if len(hits) == 1:
            conds[cursor] = frozenset(gpe.path_conditions(gpe.node_of(hits[0]), pe.node))
    # the advances happen whenever bytes were appended: same conditions as the append
    ctx.check(len(conds) == 3 and len(set(conds.values())) == 1, "Program.emit:advance-guard", f"append and both advances happen under the same conditions; found { {k: sorted(v) for k, v in conds.items()} }")


def r4_state_dependent_width_rechecked(ctx: Ctx) -> None:
    repo = ctx.repo
    ci = repo.cls(NODES, "OpcodeNode")
    pa, em = ci.methods.get("pc_after"), ci.methods.get("emit")
    if pa is None or em is None:
        raise AnalysisError("anchor missing: OpcodeNode.pc_after/emit")
    # 1. pc_after records the predicted length in an attribute
    env = single_assignments(pa.node)
    recorded = None
    for n in walk_no_nested(pa.node):
        if isinstance(n, ast.Assign) and (d := dotted(n.targets[0])) and d.startswith("self."):
            v = inline(n.value, env)
            if isinstance(v, ast.Call) and (call_name(v) or "").endswith(".supposed_length"):
                recorded = d
    if recorded is None:
        ctx.fail("OpcodeNode.pc_after:records-length", "the length used to place labels is not remembered, so emission cannot be compared with it")
        return
    ctx.ok("OpcodeNode.pc_after:records-length", recorded)
    # the length that placed the labels (first pass) must not be silently replaced by a later pass
    gp = CFG(pa.node)
    stores = [n for n in walk_no_nested(pa.node) if isinstance(n, ast.Assign) and dotted(n.targets[0]) == recorded]
    for stn in stores:
        var = unparse(stn.value)
        checks_pa: list[int] = []
        for n in walk_no_nested(pa.node):
            if isinstance(n, ast.Expr) and isinstance(n.value, ast.Call):
                cn = call_name(n.value) or ""
                if cn.startswith("self.") and len(n.value.args) == 1 and unparse(n.value.args[0]) == var:
                    helper = ci.methods.get(cn.split(".", 1)[1])
                    if helper is not None and _raising_compare(helper.node, recorded, helper.params()[1]):
                        checks_pa.append(gp.node_of(n))
            if isinstance(n, ast.If) and raising_compare_inline(n, recorded, var, pa.node, (var,)):
                checks_pa.append(gp.node_of(n.test))
        ctx.check(bool(checks_pa) and gp.dominated_by(gp.node_of(stn), checks_pa), "OpcodeNode.pc_after:compare-before-overwrite",
                  "a later pass that infers another length must fail, not overwrite the length the labels were placed with")

    def raising_compare(fn_node: ast.FunctionDef, other: str) -> bool:
        return _raising_compare(fn_node, recorded, other)

    # 2. emit: every return of emitted bytes is dominated by a raising comparison of len(bytes) with the record
    g = CFG(em.node)
    rets = [r for r in returns_of(em.node) if r.value is not None]
    if not rets:
        raise AnalysisError("OpcodeNode.emit: no return")
    for r in rets:
        var = unparse(r.value)
        checks: list[int] = []
        for n in walk_no_nested(em.node):
            if isinstance(n, ast.Expr) and isinstance(n.value, ast.Call):
                cn = call_name(n.value) or ""
                if cn.startswith("self.") and len(n.value.args) == 1 and unparse(n.value.args[0]) == f"len({var})":
                    helper = ci.methods.get(cn.split(".", 1)[1])
                    if helper is not None and raising_compare(helper.node, helper.params()[1]):
                        checks.append(g.node_of(n))
            if isinstance(n, ast.If) and raising_compare_inline(n, recorded, f"len({var})", em.node, (var,)):
                checks.append(g.node_of(n.test))
        rn = g.node_of(r)
        ctx.check(bool(checks) and g.dominated_by(rn, checks), f"OpcodeNode.emit:return {var}",
                  f"emitted length is compared with {recorded} (raising on mismatch) before the bytes are returned"
                  if checks else f"no comparison of len({var}) with {recorded}: a width inferred differently at emission shifts every later label silently")
    ctx.count("guards", len(rets))


def _raising_compare(fn_node: ast.FunctionDef, recorded: str, other: str) -> bool:
    """the function raises when a length was recorded and differs from `other` (any branch layout: evaluated over the two atoms)"""
    from ..facts import outcome_under

    env = {f"{recorded} is None": False, f"{recorded} == {other}": False, recorded: True, f"{other} == {recorded}": False}
    try:
        return outcome_under(fn_node, env) == "raise"
    except AnalysisError:
        # tests over something else: fall back to the direct shape
        return any(isinstance(s, ast.If) and raising_compare_inline(s, recorded, other) for s in walk_no_nested(fn_node))


def raising_compare_inline(s: ast.If, recorded: str, other: str, fn: ast.FunctionDef | None = None, keep: tuple[str, ...] = ()) -> bool:
    """`if ... recorded != other ...: raise` (either operand order; with fn, operands are read through single-assignment temporaries)"""
    if not always_raises(s.body):
        return False
    text = (lambda e: canon(fn, e, keep=keep)) if fn is not None else unparse
    for c in ast.walk(s.test):
        if isinstance(c, ast.Compare) and len(c.ops) == 1 and isinstance(c.ops[0], ast.NotEq):
            if {text(c.left), text(c.comparators[0])} == {recorded, other} or {unparse(c.left), unparse(c.comparators[0])} == {recorded, other}:
                return True
    return False


def r5_position_bookkeeping(ctx: Ctx) -> None:
    """labels are run addresses and bytes land at resolver.pc: both cursors must follow every *= / @= (shared with C03.R3)"""
    from .c03 import r3_position_nodes

    r3_position_nodes(ctx)


def r6_address_advance(ctx: Ctx) -> None:
    """a label after n bytes is the address n bytes further in the mapping, across bank ends (the C04.R5 obligation)"""
    from .c04 import r1_builtin_maps, r5_formula_normal_form

    r1_builtin_maps(ctx)  # the bank tables the advance and the offset are computed from (labels vs where the bytes land, per mapping)

    r5_formula_normal_form(ctx)


def r7_incbin_symbols(ctx: Ctx) -> None:
    """`position-derived symbols (.incbin start symbols ...)`: the start symbol is the address BEFORE the file's bytes, the size symbol
    the number of bytes (shared with C07.R4)"""
    from .c07 import binary_symbols

    binary_symbols(ctx)


def rb_binding_agreement(ctx: Ctx) -> None:
    from ..ownership import binding_agreement

    binding_agreement(ctx)


def rm_no_process_lifetime_results(ctx: Ctx) -> None:
    """memoising decorators, module-level stores and mutable defaults on this property's mechanism (shared rule, caches.py)"""
    from ..caches import state_rule

    state_rule(ctx)


def ru_names_bound(ctx: Ctx) -> None:
    """a local read but never bound raises NameError for every input that reaches the statement (shared rule, names.py)"""
    from ..names import names_rule

    names_rule(ctx)



def r8_blocks_are_placed_where_labels_say(ctx: Ctx) -> None:
    """a label is only as good as the place its bytes end up at: the block accumulator of Program.emit (reset after each flush, flushed on `*=`
    only), the writers' record placement, and the bank tables the addresses are translated with (C03.R2, C03.R4, C04.R2, C04.R3)"""
    from .c03 import r2_accumulate_then_flush, r4_writers_place_blocks
    from .c04 import r2_mirror_construction, r3_argument_binding

    r2_accumulate_then_flush(ctx)
    r4_writers_place_blocks(ctx)
    r2_mirror_construction(ctx)
    r3_argument_binding(ctx)


RULES = [r1_per_class_length_agreement, r2_opcode_emitters, r3_traversal_agreement, r4_state_dependent_width_rechecked, r5_position_bookkeeping, r6_address_advance, r7_incbin_symbols, r8_blocks_are_placed_where_labels_say, rb_binding_agreement, rm_no_process_lifetime_results, ru_names_bound]
