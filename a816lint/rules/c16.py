"""C16 — layout independence (case-folding and skip-set clauses)."""
from __future__ import annotations

import ast

from ..const import NameRef, module_const
from ..core import AnalysisError, walk_no_nested as _wnn, calls_in, call_name, const_str, dotted, unparse, walk_no_nested
from ..match import canon, enclosing_map, if_chain
from ..match import kwarg as kwarg_
from ..report import Ctx
from .c08 import APPENDERS

LEVEL = "other"
SST = "a816.parse.scanner_states"
PST = "a816.parse.parser_states"
EXPLANATION = (
    "Letter case: the scanner's accept sets admit both cases for size suffixes, index registers and hex digits and match "
    "mnemonics case-insensitively; every read of such a token's text that reaches a case-sensitive key (opcode table, "
    "index dictionaries, size list) passes through .lower() first. Layout: the statement scanner skips space, tab and "
    "newline before every token, both comment forms end in a COMMENT token that every statement parser discards, "
    "spaces are skipped around operand brackets, operators and the index comma, and an included file is spliced as a "
    "plain block (no scope). Whitespace/comment/include invariance as a relation between two runs is not decided."
)
ASSUMPTIONS = ["metamorphic equality of outputs under re-layout is a relation between runs; only its structural preconditions are decided"]

FOLDED_TOKENS = {"ADDRESSING_MODE_INDEX": "index register", "OPCODE_SIZE": "size suffix"}


def _accept_guard_token(test: ast.AST) -> str | None:
    if isinstance(test, ast.Call) and call_name(test) == "accept_token" and len(test.args) == 2:
        d = dotted(test.args[1]) or ""
        if d.startswith("TokenType."):
            return d.split(".")[1]
    return None


def r1_case_fold_before_keying(ctx: Ctx) -> None:
    # (a) the scanner admits both cases
    for fname, token in (("lex_opcode_index", "ADDRESSING_MODE_INDEX"), ("lex_opcode_size", "OPCODE_SIZE")):
        fn = ctx.repo.func(SST, fname)
        lits = [const_str(c.args[0]) for c in calls_in(fn.node) if call_name(c) == "s.accept" and c.args and const_str(c.args[0])]
        emitting = [l for l in lits if l]
        both = [l for l in emitting if any(ch.isupper() for ch in l) and any(ch.islower() for ch in l)]
        ok = bool(both) and all({ch.lower() for ch in l} == {ch.lower() for ch in l if ch.islower()} and {ch.upper() for ch in l} == {ch for ch in l if ch.isupper()} for l in both)
        ctx.check(ok, f"{fname}:accept-set", f"accepts every letter in both cases; sets {emitting}")
    for fname in ("accept_opcode", "lex_opcode"):
        fn = ctx.repo.func(SST, fname)
        # whatever is looked up among the mnemonics (`X in opcodes...` / `X in snes_opcode_table`), through a local or not, ends in .lower()
        from ..match import canon as _cn16a

        keys = [_cn16a(fn.node, n.left) for n in walk_no_nested(fn.node) if isinstance(n, ast.Compare) and len(n.ops) == 1 and isinstance(n.ops[0], (ast.In, ast.NotIn))
                and (unparse(n.comparators[0]) in ("opcodes", "opcodes_without_operand", "snes_opcode_table", "snes_opcode_table.keys()")
                     or "s.input[" in _cn16a(fn.node, n.left) or "current_token_text()" in _cn16a(fn.node, n.left))]  # the source text looked up in any table
        if not keys:
            raise AnalysisError(f"{fname}: no membership test against the mnemonic table found")
        ctx.check(all(k.endswith(".lower()") for k in keys), f"{fname}:mnemonic-match", f"the candidate text is lower-cased before it is looked up among the mnemonics; looked up: {keys}")
    # (b) the parser folds before the text becomes a key
    for fname in ("parse_opcode", "parse_operand_and_addressing"):
        fn = ctx.repo.func(PST, fname)
        parents = enclosing_map(fn.node)
        for st in walk_no_nested(fn.node):
            if not isinstance(st, ast.If):
                continue
            tok = _accept_guard_token(st.test)
            if tok not in FOLDED_TOKENS:
                continue
            # token variables bound in this arm
            tokvars = {unparse(n.targets[0]) for b in st.body for n in ast.walk(b) if isinstance(n, ast.Assign) and unparse(n.value) in ("p.next()", "p.current()")}
            for b in st.body:
                if isinstance(b, ast.Raise):
                    continue
                for n in ast.walk(b):
                    if isinstance(n, ast.Attribute) and n.attr == "value" and (unparse(n.value) in ("p.current()", "p.next()") or unparse(n.value) in tokvars):
                        # skip reads inside raise statements / f-strings (messages)
                        anc = parents.get(id(n))
                        in_msg = False
                        a = n
                        while id(a) in parents:
                            a = parents[id(a)]
                            if isinstance(a, (ast.Raise, ast.JoinedStr)):
                                in_msg = True
                                break
                        if in_msg:
                            continue
                        ctx.count("folded_reads")
                        folded = isinstance(anc, ast.Attribute) and anc.attr == "lower" and isinstance(parents.get(id(anc)), ast.Call)
                        ctx.check(folded, f"{fname}:{FOLDED_TOKENS[tok]} `{unparse(n)}`",
                                  f"the {FOLDED_TOKENS[tok]} text is used as a lower-case dictionary key; upper-case input needs .lower() here")
    ctx.floor("folded_reads", 2)
    on = ctx.repo.func("a816.parse.nodes", "OpcodeNode.__init__")
    st = [n for n in walk_no_nested(on.node) if isinstance(n, ast.Assign) and unparse(n.targets[0]) == "self.opcode"]
    ctx.check(len(st) == 1 and unparse(st[0].value) == f"{on.params()[1]}.lower()", "OpcodeNode.__init__:mnemonic", "the mnemonic is lower-cased before it keys the opcode table")
    ge = ctx.repo.func("a816.parse.nodes", "OpcodeNode._get_emitter")
    keyed = any(unparse(n) in ("snes_opcode_table[self.opcode]", "snes_opcode_table.get(self.opcode)") for n in ast.walk(ge.node))
    other_keys = [unparse(n) for n in ast.walk(ge.node) if (isinstance(n, ast.Subscript) and unparse(n.value) == "snes_opcode_table") or
                  (isinstance(n, ast.Call) and (call_name(n) or "") == "snes_opcode_table.get")]
    if not keyed and not other_keys:
        raise AnalysisError("OpcodeNode._get_emitter: no lookup in snes_opcode_table found; not modelled")
    ctx.check(keyed, "OpcodeNode._get_emitter:key", f"the table is keyed by the folded mnemonic self.opcode; lookups found {other_keys}")
    isz = ctx.repo.func(PST, "is_value_size")
    lits = [n for n in ast.walk(isz.node) if isinstance(n, (ast.List, ast.Tuple, ast.Set))]
    ok = len(lits) == 1 and all((const_str(e) or "X").islower() for e in lits[0].elts)
    ctx.check(ok, "is_value_size:lower-case-list", "the size list is lower-case, matching the folded suffix")
    ln = ctx.repo.func(SST, "lex_number")
    from .c06 import number_digit_sets

    hexd = number_digit_sets(ctx).get("x") or ""
    ctx.check(set("abcdefABCDEF") <= set(hexd), "lex_number:hex-digits", "hexadecimal digits in both cases")
    en = ctx.repo.func("a816.parse.ast.expression", "eval_number")
    ctx.check(any(unparse(r.value).startswith("int(") for r in walk_no_nested(en.node) if isinstance(r, ast.Return)), "eval_number:int()", "digits are read by int(), which ignores letter case")


def mnemonic_followers(ctx: Ctx) -> None:
    """three letters are a mnemonic only when followed by a character that can end one: blank, tab, newline, end of input, `.`, `;`"""
    ao = ctx.repo.func(SST, "accept_opcode")
    followers = None
    from ..match import canon as _cn16, literal_binding as _lb16

    for n in walk_no_nested(ao.node):
        # `<the character after the three letters> in <set>`: the set may be a tuple / list / set display, or a string of characters
        if isinstance(n, ast.Compare) and isinstance(n.ops[0], (ast.In, ast.NotIn)) and (".peek(" in _cn16(ao.node, n.left) + unparse(n.left) or unparse(n.left) == "is_ws"):
            coll = n.comparators[0]
            if isinstance(coll, ast.Name):
                coll = _lb16(ao, coll.id) or coll
            if isinstance(coll, (ast.Tuple, ast.List, ast.Set)):
                followers = {("EOF" if const_str(e) == "\0" else const_str(e)) if const_str(e) is not None else unparse(e) for e in coll.elts}
            elif isinstance(coll, ast.Constant) and isinstance(coll.value, str):
                followers = {"EOF" if ch == "\0" else ch for ch in coll.value}
    if followers is None:
        raise AnalysisError("accept_opcode: the set of characters that may follow a mnemonic was not found")
    need = {" ", "\t", "\n", ".", ";", "EOF"}
    ctx.check(need <= followers, "accept_opcode:followers", f"a mnemonic may be followed by space, tab, newline, end of input, '.' (size suffix) or ';' (comment); missing {sorted(need - followers)}")


def r2_skip_sets(ctx: Ctx) -> None:
    li = ctx.repo.func(SST, "lex_initial")
    first = li.node.body[0] if not (isinstance(li.node.body[0], ast.Expr) and isinstance(li.node.body[0].value, ast.Constant)) else li.node.body[1]
    ok = isinstance(first, ast.Expr) and call_name(first.value) == "s.ignore_run" and set(" \t\n") <= set(const_str(first.value.args[0]) or "")
    ctx.check(ok, "lex_initial:skips-whitespace", "space, tab and newline are skipped before every statement token")
    chain = [s for s in li.node.body if isinstance(s, ast.If)]
    arms, _ = if_chain(chain[0])
    for test, body in arms:
        t = unparse(test)
        if t in ("s.accept(';')", "s.accept_prefix('/*')"):
            ctx.count("comment_arms")
            ctx.check(unparse(body[-1]) == "s.emit(TokenType.COMMENT)", f"lex_initial:{t}", "the comment becomes a COMMENT token")
    ctx.floor("comment_arms", 2)
    # the block-comment terminator is looked for at every position, including right after the opener (`/**/`)
    from ..cfg import CFG
    g = CFG(li.node)
    for test, body in arms:
        if unparse(test) != "s.accept_prefix('/*')":
            continue
        term_tests = [nid for nid, n in g.nodes.items() if n.kind == "test" and "s.accept_prefix('*/')" in unparse(n.ast)]
        consumers = []
        for st in body:
            for sub in walk_no_nested(st):
                if isinstance(sub, ast.Call) and call_name(sub) in ("s.next", "s.accept_run", "s.accept") or (isinstance(sub, ast.AugAssign) and unparse(sub.target) == "s.pos"):
                    try:
                        consumers.append(g.node_containing(sub) if isinstance(sub, ast.Call) else g.node_of(sub))
                    except AnalysisError:
                        pass
        if not term_tests:
            raise AnalysisError("lex_initial: `*/` terminator test not found in the block-comment arm")
        # the comment ends exactly where `*/` was found: the COMMENT token is emitted on the "found" side of that test only
        emits_c = [g.node_containing(c) for st in body for c in calls_in(st) if call_name(c) == "s.emit" and "COMMENT" in unparse(c)]
        for tn_ in term_tests:
            a_ = g.nodes[tn_].ast
            negated = isinstance(a_, ast.UnaryOp) and isinstance(a_.op, ast.Not)
            if not (unparse(a_) in ("s.accept_prefix('*/')", "not s.accept_prefix('*/')")):
                raise AnalysisError(f"lex_initial: terminator test `{unparse(a_)[:40]}` not modelled")
            found = "F" if negated else "T"
            ctx.check(bool(emits_c) and all(g.dominated_by_edge(e_, (tn_, found)) for e_ in emits_c), "lex_initial:/*-arm:ends-at-terminator",
                      "the COMMENT token is emitted only once `*/` has been found; otherwise the comment body is lexed as code")
        first = body[0]
        start = g.node_of(first.test) if isinstance(first, (ast.If, ast.While)) else g.node_of(first)
        for cn in sorted(set(consumers)):
            if cn in term_tests:
                continue
            ok = g.every_path_passes(start, cn, term_tests) and cn not in g.reachable([m for m, _ in g.succ[cn]], blocked=term_tests)
            ctx.check(ok, f"lex_initial:/*-arm:consumes `{g.nodes[cn].text()[:40]}`", "a character of the comment body is consumed only after `*/` was looked for at that position "
                      "(otherwise the terminator of an empty comment `/**/` is skipped and the following statements are swallowed)")
        ctx.count("comment_consumers", len(set(consumers)))
    pd = ctx.repo.func(PST, "parse_decl")
    arms, _ = if_chain([s for s in pd.node.body if isinstance(s, ast.If)][0])
    ok = any(_accept_guard_token(t) == "COMMENT" and [unparse(b) for b in body] == ["return None"] for t, body in arms)
    ctx.check(ok, "parse_decl:drops-comments", "a COMMENT token produces no statement")
    for fname in ("parse_initial", "parse_block"):
        fn = ctx.repo.func(PST, fname)
        ok = any(isinstance(s, ast.If) and unparse(s.test) in ("statement", "statement is not None") for s in walk_no_nested(fn.node))
        ctx.check(ok, f"{fname}:skips-None", "statements that are None (comments) are not appended")
    lo = ctx.repo.func(SST, "lex_operand")
    runs = [const_str(c.args[0]) for c in calls_in(lo.node) if call_name(c) == "s.ignore_run"]
    ctx.check(len(runs) >= 3 and all(r == " " for r in runs), "lex_operand:spaces", "spaces are skipped after the opening bracket, before the closing one and before the index comma")
    # every point at which the closing bracket or the index comma is looked for is preceded by a space skip, whichever path led there
    from ..cfg import CFG
    glo = CFG(lo.node)
    skips = [glo.node_containing(c) for c in calls_in(lo.node) if call_name(c) == "s.ignore_run" and const_str(c.args[0]) == " "]
    consumers = [glo.node_containing(c) for c in calls_in(lo.node) if call_name(c) in ("lex_expression", "lex_opcode_index", "s.next", "s.emit")]
    looks = []
    for nid, n in glo.nodes.items():
        if n.kind == "test" and ("s.accept(',')" in unparse(n.ast) or "== ')'" in unparse(n.ast)):
            looks.append(nid)
        if n.kind == "stmt" and isinstance(n.ast, ast.Assign) and unparse(n.ast.value) == "s.peek()" and nid != min(glo.nodes):
            looks.append(nid)
    for ln in looks:
        # no consuming step reaches the look-ahead without passing a space skip
        bad = [c for c in consumers if c != ln and ln in glo.reachable([m for m, _ in glo.succ[c]], blocked=skips)]
        first_peek = [nid for nid, n in glo.nodes.items() if n.kind == "stmt" and isinstance(n.ast, ast.Assign) and unparse(n.ast.value) == "s.peek()"]
        if first_peek and ln == min(first_peek):
            continue  # the very first look at the operand happens after lex_opcode's own skip
        ctx.count("lookaheads")
        ctx.check(not bad, f"lex_operand:space-skip-before `{glo.nodes[ln].text()[:30]}`",
                  "after every consumed piece of the operand, spaces are skipped before the next bracket / comma is looked for (`(0x03,s ),y` == `(0x03,s),y`)")
    mnemonic_followers(ctx)
    le = ctx.repo.func(SST, "lex_expression")
    lp = [n for n in le.node.body if isinstance(n, (ast.While, ast.For))]
    if len(lp) != 1:
        raise AnalysisError("lex_expression: expected one token loop")
    lead = [st for st in lp[0].body if not (isinstance(st, ast.If) and not st.orelse and all(isinstance(b, ast.Break) for b in st.body))]
    ok = bool(lead) and unparse(lead[0]) == "s.ignore_run(' ')"
    ctx.check(ok, "lex_expression:spaces", "spaces are skipped before every operand and operator")
    lx = ctx.repo.func(SST, "lex_opcode_index")
    ctx.check(any(unparse(s) == "s.ignore_run(' ')" for s in lx.node.body), "lex_opcode_index:spaces", "spaces after the index comma are skipped")
    from ..cfg import CFG as _CFG
    from ..cfg import CFG as _CFG0

    lop = ctx.repo.func(SST, "lex_opcode")
    ctx.check(any(unparse(s) == "s.ignore_run(' ')" for s in lop.node.body), "lex_opcode:spaces", "spaces between mnemonic and operand are skipped")
    # the "does the mnemonic stand alone" look-ahead of lex_opcode: spaces, tabs and a `;` comment are skipped before the end of
    # the line is tested, and the cursor is put back before the token is emitted whichever way the test goes
    glo_ = _CFG0(lop.node)
    snaps = [n for n in walk_no_nested(lop.node) if isinstance(n, ast.Assign) and unparse(n.value) == "s.pos" and isinstance(n.targets[0], ast.Name)]
    if snaps:
        sv = snaps[0].targets[0].id  # type: ignore[union-attr]
        sn_ = glo_.node_of(snaps[0])
        restores = [glo_.node_of(n) for n in walk_no_nested(lop.node) if isinstance(n, ast.Assign) and unparse(n.targets[0]) == "s.pos" and unparse(n.value) == sv]
        eol = [nid for nid, nd in glo_.nodes.items() if nd.kind == "test" and "s.peek()" in unparse(nd.ast) and ("'\\n'" in unparse(nd.ast) or "EOF" in unparse(nd.ast))]
        if not eol:
            raise AnalysisError("lex_opcode: end-of-line test of the look-ahead not found")
        ws = [glo_.node_containing(c) for c in calls_in(lop.node) if call_name(c) == "s.accept_run" and set(" \t") <= set(const_str(c.args[0]) or "")
              and not any(k.arg == "negate" for k in c.keywords)]
        ctx.check(bool(ws) and all(glo_.every_path_passes(sn_, e, ws) for e in eol), "lex_opcode:lookahead-skips-blanks",
                  "spaces and tabs after the mnemonic are skipped before the end of the line is tested (`inc   ` == `inc`)")
        cm = [glo_.node_containing(c) for c in calls_in(lop.node) if call_name(c) == "s.accept_run" and "\n" in (const_str(c.args[0]) or "")
              and any(k.arg == "negate" and getattr(k.value, "value", False) for k in c.keywords)]
        semi = [nid for nid, nd in glo_.nodes.items() if nd.kind == "test" and unparse(nd.ast) == "s.accept(';')"]
        if semi and not cm:
            # the `;` arm skips through a helper the analysis has no summary of (a scanner method that was not folded back): not decided
            on_arm = glo_.reachable([m for m, l in glo_.succ[semi[0]] if l == "T"], blocked=eol)
            opaque = [call_name(c) for c in calls_in(lop.node) if glo_.node_containing(c) in on_arm and (call_name(c) or "").startswith("s.")
                      and (call_name(c) or "") not in ("s.accept_run", "s.accept", "s.peek", "s.next", "s.emit", "s.ignore", "s.ignore_run", "s.backup", "s.accept_prefix")]
            if opaque:
                raise AnalysisError(f"lex_opcode: the comment is skipped by `{opaque[0]}`, a scanner helper without a summary; not decided")
        ok_c = bool(cm) and bool(semi) and all(glo_.dominated_by_edge(c_, (semi[0], "T")) for c_ in cm) and all(e not in glo_.reachable([m for m, l in glo_.succ[semi[0]] if l == "T"], blocked=cm) for e in eol)
        ctx.check(ok_c, "lex_opcode:lookahead-skips-comment", "a `;` comment after the mnemonic is skipped up to the end of the line before that end is tested (`inc ; x` == `inc`)")
        emits_lo = [glo_.node_containing(c) for c in calls_in(lop.node) if call_name(c) == "s.emit"]
        after_la = [e for e in emits_lo if e in glo_.reachable([m for m, _l in glo_.succ[sn_]])]
        ctx.check(bool(restores) and all(glo_.every_path_passes(sn_, e, restores) for e in after_la), "lex_opcode:lookahead-restored",
                  "the cursor is put back before the mnemonic token is emitted on every path out of the look-ahead (otherwise the blanks become part of the mnemonic)")
    else:
        raise AnalysisError("lex_opcode: look-ahead snapshot not found")
    # wherever the operand is handed to lex_operand, the spaces before it were skipped after the last token was emitted
    # (lex_operand looks at the very next character for `#`, `(` and `[`)
    n_sites = 0
    for fname in ("lex_opcode", "lex_opcode_size"):
        f_ = ctx.repo.func(SST, fname)
        g_ = _CFG(f_.node)
        skips_ = [g_.node_containing(c) for c in calls_in(f_.node) if call_name(c) in ("s.ignore_run", "s.accept_run") and " " in (const_str(c.args[0]) or "")]
        emits_ = [g_.node_containing(c) for c in calls_in(f_.node) if call_name(c) in ("s.emit", "lex_opcode_size")]
        for c in [c for c in calls_in(f_.node) if call_name(c) == "lex_operand"]:
            n_sites += 1
            cn_ = g_.node_containing(c)
            bad = [e for e in emits_ if cn_ in g_.reachable([m for m, _l in g_.succ[e]], blocked=skips_, labels_excluded=["exc"])]
            ctx.check(not bad, f"{fname}:spaces-before-operand", "between the last emitted token (mnemonic / size suffix) and lex_operand the spaces are skipped: "
                      "`lda.b #1` with a space after the suffix must lex like `lda.b#1`")
    ctx.count("operand_handoffs", n_sites)
    ctx.floor("operand_handoffs", 2)
    ctx.count("skip_facts", 8)


def _reads_opened(scope: ast.AST, fn: ast.FunctionDef, expr: ast.AST, path_var: str) -> bool:
    """expr is `<fd>.read()` for an fd bound by `with open(<path_var>, ...) as fd` (or assigned from such an open) inside scope"""
    text = canon(fn, expr, keep=[path_var])
    for w in ast.walk(scope):
        if isinstance(w, ast.With):
            for it in w.items:
                if isinstance(it.context_expr, ast.Call) and call_name(it.context_expr) == "open" and it.context_expr.args \
                        and canon(fn, it.context_expr.args[0], keep=[path_var]) == path_var and isinstance(it.optional_vars, ast.Name) and text == f"{it.optional_vars.id}.read()":
                    return True
    return text.startswith(f"open({path_var}") and text.endswith(".read()")


def r3_include_is_transparent(ctx: Ctx) -> None:
    pk = ctx.repo.func(PST, "parse_keyword")
    arms, _ = if_chain([s for s in pk.node.body if isinstance(s, ast.If)][0])
    inc = [body for t, body in arms if "'include'" in unparse(t) and "include_ips" not in unparse(t)]
    if len(inc) != 1:
        raise AnalysisError("parse_keyword: include arm not found")
    body = inc[0]
    mod = ast.Module(body=body, type_ignores=[])
    pk_fn = pk.node
    scans = [c for c in calls_in(mod) if (call_name(c) or "").endswith(".scan")]
    scanners = [c for c in calls_in(mod) if call_name(c) == "Scanner"]
    parsers = [c for c in calls_in(mod) if call_name(c) == "Parser"]
    rets = [r for b in body for r in ast.walk(b) if isinstance(r, ast.Return)]
    ok = (len(scanners) == 1 and "lex_initial" in unparse(scanners[0]) and len(scans) == 1 and len(scans[0].args) == 2 and canon(pk_fn, scans[0].args[0], keep=["filename"]) == "filename" and _reads_opened(mod, pk_fn, scans[0].args[1], "filename")
          and len(parsers) == 1 and "parse_initial" in unparse(parsers[0]) and canon(pk_fn, parsers[0].args[0]) == canon(pk_fn, scans[0])
          and len(rets) == 1 and isinstance(rets[0].value, ast.Call) and call_name(rets[0].value) == "BlockAstNode"
          and canon(pk_fn, rets[0].value.args[0]).endswith(".parse()") and unparse(rets[0].value.args[1]) == "keyword")
    ctx.check(ok, "parse_keyword[include]", "the file is scanned and parsed with the same entry states and spliced as a BlockAstNode")
    # the scanner only lets through directive names listed in KEYWORDS: every name parse_keyword has an arm for must be listed, `include` first
    kw = module_const(ctx.repo, "a816.parse.scanner_states", "KEYWORDS")
    if not isinstance(kw, (set, frozenset, list, tuple)):
        raise AnalysisError("KEYWORDS is not a literal collection")
    import re as _re16

    for t, _b in arms:
        for name in _re16.findall(r"'([a-z_]+)'", unparse(t)):
            ctx.count("keyword_arms")
            ctx.check(name in kw, f"KEYWORDS[{name}]", f"parse_keyword has an arm for `.{name}` but the scanner's KEYWORDS table does not list it: the directive is "
                      "rejected as an unknown keyword before the parser sees it", fact=True)
    ctx.floor("keyword_arms", 10)
    gens = module_const(ctx.repo, "a816.parse.codegen", "generators")
    g = gens.get("block") if isinstance(gens, dict) else None
    ok = isinstance(g, NameRef)
    if ok:
        fn = ctx.repo.func("a816.parse.codegen", g.name)
        ok = not any((call_name(c) or "").split(".")[-1] in APPENDERS or call_name(c) in ("ScopeNode", "PopScopeNode") for c in calls_in(fn.node)) and \
            any(call_name(c) == "_code_gen" and unparse(c.args[0]) == f"{fn.params()[0]}.body" for c in calls_in(fn.node))
    ctx.check(bool(ok), "generators[block]", "a spliced block expands its statements in place without opening a scope (so moving statements into an include changes nothing)")
    if isinstance(g, NameRef):
        # ... and against the caller's own macro table: a macro defined in the included file is applied after the .include line
        from ..match import alias_root

        fn = ctx.repo.func("a816.parse.codegen", g.name)
        mparam = fn.params()[2]
        for c in [c for c in calls_in(fn.node) if call_name(c) == "_code_gen"]:
            a = c.args[2] if len(c.args) > 2 else kwarg_(c, "macro_definitions")
            if a is None:
                raise AnalysisError("generators[block]: _code_gen call without a macro table argument")
            if isinstance(a, ast.Name) and alias_root(fn.node, a.id) == mparam:
                ctx.ok("generators[block]:macro-table", "the block's statements define and look up macros in the caller's table")
            elif (isinstance(a, ast.Call) and (call_name(a) in ("dict", "copy.copy", "copy.deepcopy") or (call_name(a) or "").endswith(".copy"))) or isinstance(a, (ast.Dict, ast.DictComp)):
                ctx.fail("generators[block]:macro-table", f"the block is expanded against `{unparse(a)}`, a private table: macros defined in an included file (or a {{ }} block) "
                         "vanish at its end, so moving a .macro definition into an include makes later applications fail")
            else:
                raise AnalysisError(f"generators[block]: macro table argument `{unparse(a)[:50]}` not modelled")
    ctx.count("include_facts", 2)


def r4_search_results_checked(ctx: Ctx) -> None:
    """the last line of a file need not end in a newline: `text.find("\\n", pos)` is -1 there, and -1 used as a slice bound silently
    drops the last character.  In the scanner and parser every str.find / rfind result that reaches a slice bound or an index is
    first compared with -1 (or 0)."""
    n = 0
    for mi in ctx.repo.modules.values():
        if not mi.name.startswith("a816.parse"):
            continue
        fns = list(mi.functions.values()) + [m for c in mi.classes.values() for m in c.methods.values()]
        for fn in fns:
            finds = [c for c in calls_in(fn.node) if isinstance(c.func, ast.Attribute) and c.func.attr in ("find", "rfind")]
            if not finds:
                continue
            parents = {id(ch): p for p in ast.walk(fn.node) for ch in ast.iter_child_nodes(p)}
            compared = {unparse(x) for cmp_ in ast.walk(fn.node) if isinstance(cmp_, ast.Compare) for x in [cmp_.left] + cmp_.comparators}
            for c in finds:
                n += 1
                holder: ast.AST = c
                name = None
                p = parents.get(id(c))
                if isinstance(p, ast.Assign) and len(p.targets) == 1 and isinstance(p.targets[0], ast.Name):
                    name = p.targets[0].id
                checked = unparse(c) in compared or (name is not None and name in compared)
                uses = [c] if name is None else [x for x in ast.walk(fn.node) if isinstance(x, ast.Name) and x.id == name and isinstance(x.ctx, ast.Load)]
                in_bound = False
                for u in uses:
                    q: ast.AST | None = u
                    while q is not None and not isinstance(q, ast.stmt):
                        par = parents.get(id(q))
                        if isinstance(par, ast.Slice) or (isinstance(par, ast.Subscript) and par.slice is q):
                            in_bound = True
                        q = par
                if in_bound and not checked:
                    ctx.fail(f"{fn.where}:{unparse(c)[:40]}", "the search result is used as a slice bound / index without a test for -1: when the searched character is absent "
                             "(a last line without its newline) the last character is dropped, so adding or removing a final newline changes the tokens")
                else:
                    ctx.ok(f"{fn.where}:{unparse(c)[:40]}", "search result tested before use" if checked else "search result not used as a bound")
    ctx.count("find_calls", n)


def identifier_start_sets(ctx: Ctx) -> None:
    """an identifier may begin with any ASCII letter or `_` wherever one can start: at statement level (lex_initial) and inside an
    operand / expression (lex_expression).  The two character sets are siblings and must agree; a name that lexes in one context and
    not in the other breaks renaming (`table` -> `_table`) and moving code between contexts."""
    import string

    sets = {}
    for fname in ("lex_initial", "lex_expression"):
        f_ = ctx.repo.func(SST, fname)
        for n in walk_no_nested(f_.node):
            if isinstance(n, ast.If) and isinstance(n.test, ast.Call) and call_name(n.test) == "s.accept" and n.test.args \
                    and any((call_name(c) or "") in ("lex_identifier", "accept_opcode") for b in n.body for c in calls_in(b)):
                sets[fname] = const_str(n.test.args[0])
    if len(sets) != 2 or any(v is None for v in sets.values()):
        raise AnalysisError(f"identifier start sets not found in both lexing contexts ({sorted(sets)})")
    need = set(string.ascii_letters + "_")
    for fname, v in sets.items():
        ctx.check(need <= set(v or ""), f"{fname}:identifier-start", f"every ASCII letter and `_` can start an identifier; missing {sorted(need - set(v or ''))}")
    ctx.check(set(sets["lex_initial"] or "") == set(sets["lex_expression"] or ""), "identifier-start:contexts-agree",
              f"statement level and expression level accept the same first characters; difference {sorted(set(sets['lex_initial'] or '') ^ set(sets['lex_expression'] or ''))}")


def r5_identifier_start_sets(ctx: Ctx) -> None:
    identifier_start_sets(ctx)


def r6_label_vs_assign_lookahead(ctx: Ctx) -> None:
    """`name:` is a label and `name:=` an assignment, with or without a space before `:=`: lex_identifier decides by looking at the
    character right after the colon, i.e. `peek()` for the colon and `peek(1)` for the next one (peek(k) reads input[pos + k])."""
    li = ctx.repo.func(SST, "lex_identifier")
    pk = ctx.repo.func("a816.parse.scanner", "Scanner.peek")
    ok_pk = any(isinstance(n, ast.Subscript) and unparse(n) == f"self.input[self.pos + {pk.params()[1]}]" for n in ast.walk(pk.node)) and \
        pk.node.args.defaults and unparse(pk.node.args.defaults[0]) == "0"
    if not ok_pk:
        raise AnalysisError("Scanner.peek: expected `self.input[self.pos + k]` with k defaulting to 0")
    tests = [n for n in walk_no_nested(li.node) if isinstance(n, ast.If) and "':'" in unparse(n.test) and "'='" in unparse(n.test)]
    if len(tests) != 1:
        # any other spelling of the look-ahead (startswith at an offset, indexing the input): decide it over the finite abstraction of the next
        # three characters (each `:`, `=` or something else): the label arm must be taken exactly when c0 == ':' and c1 != '='
        cands = [n for n in walk_no_nested(li.node) if isinstance(n, ast.If) and "':" in unparse(n.test) and any("LABEL" in unparse(x) for b in (n.body + n.orelse) for x in ast.walk(b))]
        if len(cands) == 1:
            import itertools

            label_in_body = any("TokenType.LABEL" in unparse(x) for b in cands[0].body for x in ast.walk(b) if isinstance(x, ast.Call))

            class _Undecided(Exception):
                pass

            def off(e: ast.AST) -> int:
                t = unparse(e)
                if t == "s.pos":
                    return 0
                if isinstance(e, ast.BinOp) and isinstance(e.op, ast.Add) and unparse(e.left) == "s.pos" and isinstance(e.right, ast.Constant) and type(e.right.value) is int:
                    return e.right.value
                raise _Undecided

            def ev(e: ast.AST, chars: tuple[str, ...]) -> bool:
                if isinstance(e, ast.BoolOp):
                    vals = [ev(v, chars) for v in e.values]
                    return all(vals) if isinstance(e.op, ast.And) else any(vals)
                if isinstance(e, ast.UnaryOp) and isinstance(e.op, ast.Not):
                    return not ev(e.operand, chars)
                if isinstance(e, ast.Compare) and len(e.ops) == 1 and isinstance(e.ops[0], (ast.Eq, ast.NotEq)) and isinstance(e.comparators[0], ast.Constant) \
                        and isinstance(e.comparators[0].value, str) and len(e.comparators[0].value) == 1:
                    l = e.left
                    k = None
                    if isinstance(l, ast.Call) and call_name(l) == "s.peek":
                        k = 0 if not l.args else (l.args[0].value if isinstance(l.args[0], ast.Constant) else None)
                    elif isinstance(l, ast.Subscript) and unparse(l.value) == "s.input":
                        k = off(l.slice)
                    if k is None or not (0 <= k < len(chars)):
                        raise _Undecided
                    same = chars[k] == e.comparators[0].value
                    return same if isinstance(e.ops[0], ast.Eq) else not same
                if isinstance(e, ast.Call) and call_name(e) == "s.input.startswith" and e.args and isinstance(e.args[0], ast.Constant) and isinstance(e.args[0].value, str):
                    k = off(e.args[1]) if len(e.args) > 1 else None
                    if k is None or k + len(e.args[0].value) > len(chars):
                        raise _Undecided
                    return all(chars[k + i] == ch for i, ch in enumerate(e.args[0].value))
                raise _Undecided

            try:
                wrong = []
                for chars in itertools.product(":=x", repeat=4):
                    taken = ev(cands[0].test, chars)
                    is_label = taken if label_in_body else not taken
                    if is_label != (chars[0] == ":" and chars[1] != "="):
                        wrong.append("".join(chars))
                ctx.check(not wrong, "lex_identifier:label-lookahead",
                          f"a label is `:` at the cursor not followed directly by `=`; with the next characters {wrong[:4]} the test `{unparse(cands[0].test)[:70]}` decides otherwise")
                return
            except _Undecided:
                pass
    if len(tests) != 1:
        # the same decision taken by stepping over the colon: `s.accept(':') and s.peek() != '='` (then the cursor is put back)
        alt = [n for n in walk_no_nested(li.node) if isinstance(n, ast.BoolOp) and isinstance(n.op, ast.And) and [unparse(v) for v in n.values] == ["s.accept(':')", "s.peek() != '='"]]
        if len(alt) == 1:
            ctx.ok("lex_identifier:label-lookahead", "a label is `:` not followed directly by `=` (decided by stepping over the colon)")
            return
        raise AnalysisError("lex_identifier: label / assignment look-ahead not found")
    offs = {}
    for c in ast.walk(tests[0].test):
        if isinstance(c, ast.Compare) and isinstance(c.left, ast.Call) and call_name(c.left) == "s.peek" and isinstance(c.comparators[0], ast.Constant):
            k = 0 if not c.left.args else getattr(c.left.args[0], "value", None)
            offs[c.comparators[0].value] = (k, type(c.ops[0]).__name__)
    if set(offs) != {":", "="}:
        raise AnalysisError(f"lex_identifier: look-ahead `{unparse(tests[0].test)[:60]}` not modelled")
    ctx.check(offs[":"] == (0, "Eq") and offs["="] == (1, "NotEq"), "lex_identifier:label-lookahead",
              f"a label is `:` at the cursor not followed directly by `=`; the test reads {offs}")


def rm_no_process_lifetime_results(ctx: Ctx) -> None:
    """memoising decorators, module-level stores and mutable defaults on this property's mechanism (shared rule, caches.py)"""
    from ..caches import state_rule

    state_rule(ctx)


def ru_names_bound(ctx: Ctx) -> None:
    """a local read but never bound raises NameError for every input that reaches the statement (shared rule, names.py)"""
    from ..names import names_rule

    names_rule(ctx)


RULES = [r1_case_fold_before_keying, r2_skip_sets, r3_include_is_transparent, r4_search_results_checked, r5_identifier_start_sets, r6_label_vs_assign_lookahead, rm_no_process_lifetime_results, ru_names_bound]
