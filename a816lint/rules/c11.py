"""C11 — IPS output is well formed (record-format clause)."""
from __future__ import annotations

import ast

from ..cfg import CFG, EXIT, always_raises
from ..core import AnalysisError, calls_in, call_name, dotted, unparse, walk_no_nested
from ..match import canon
from ..match import Field, alias_root, const_int, field_of, inline, pack_call, packed_bytes, single_assignments
from ..report import Ctx

LEVEL = "other"
W = "a816.writers"
EXPLANATION = (
    "Structural rules on IPSWriter: literal PATCH/EOF framing written once each; header packed big-endian as 3+2 bytes "
    "from (offset>>16 unmasked, offset&0xFFFF, len(slice)); tiling loop whose slice is min(C<=0xFFFF, remaining), whose "
    "header and data use the same slice and whose two cursors advance by the slice size; copier delta 0x200 applied "
    "under the flag before packing; high byte unmasked so offsets >= 2^24 raise; the reserved offset 'EOF' is refused."
)
ASSUMPTIONS = ["file.write appends its argument", "a standard IPS patcher implements the documented format", "patched image for every write history is not decided"]

EOF_AS_OFFSET = int.from_bytes(b"EOF", "big")


def _writes(fn: ast.FunctionDef) -> list[ast.Call]:
    return [c for c in calls_in(fn) if call_name(c) == "self.file.write"]


def r1_framing(ctx: Ctx) -> None:
    for meth, lit in (("begin", b"PATCH"), ("end", b"EOF")):
        fn = ctx.repo.func(W, f"IPSWriter.{meth}")
        ws = _writes(fn.node)
        ok = len(ws) == 1 and isinstance(ws[0].args[0], ast.Constant) and ws[0].args[0].value == lit and ws[0] in [
            s.value for s in fn.node.body if isinstance(s, ast.Expr)]
        ctx.check(ok, f"IPSWriter.{meth}", f"writes exactly {lit!r} once, unconditionally; found {[unparse(w) for w in ws]}", fact=bool(ws))
    h = ctx.repo.func(W, "IPSWriter.write_block_header")
    blk, addr = h.params()[1], h.params()[2]
    ws = _writes(h.node)
    if not ws:
        ctx.fail("write_block_header:writes", "no header is written")
        return
    # the header is whatever the top-level writes emit, in statement order
    top = [w for s_ in h.node.body for w in ws if isinstance(s_, ast.Expr) and s_.value is w]
    if len(top) != len(ws):
        raise AnalysisError("write_block_header: conditional header writes not modelled")
    env = single_assignments(h.node)
    header: list = []
    for w in top:
        header += packed_bytes(inline(w.args[0], env))
    want = [(addr, 16), (addr, 8), (addr, 0), (f"len({blk})", 8), (f"len({blk})", 0)]
    if not ctx.check(len(header) == 5, "write_block_header:size", f"a record header is 5 bytes (3 offset + 2 length); {len(header)} are written"):
        return
    def root(name: str | None) -> str | None:
        return alias_root(h.node, name) if name and name.isidentifier() else name
    for j, (b, (src, bit)) in enumerate(zip(header, want)):
        ctx.check((root(b.source), b.bit) == (src, bit) and not b.signed, f"write_block_header:byte{j}", f"writes {b}; the IPS header needs bits {bit}..{bit + 7} of {src} (big-endian)")
    ctx.check(header[0].checked, "write_block_header:offset-range-checked", "the top offset byte is packed unmasked in a one-byte field, so an offset >= 2^24 raises instead of wrapping")
    ctx.count("header_fields", 5)


def _stmt_of(fn: ast.FunctionDef, node: ast.AST) -> ast.stmt:
    for s in fn.body:
        if any(x is node for x in ast.walk(s)):
            return s
    raise AnalysisError("statement not at top level")


def _nonempty_remainder_test(test: ast.AST, blk: str) -> tuple[str, str] | None:
    """(cursor, edge label on which the remainder is non-empty) for the accepted spellings."""
    import re
    t = unparse(test)
    for pat, lab in ((rf"{blk}\[(\w+):\]", "T"), (rf"(\w+) < len\({blk}\)", "T"), (rf"len\({blk}\) > (\w+)", "T"), (rf"len\({blk}\[(\w+):\]\) > 0", "T"),
                     (rf"len\({blk}\) - (\w+) > 0", "T"), (rf"(\w+) >= len\({blk}\)", "F"), (rf"len\({blk}\) <= (\w+)", "F"), (rf"not {blk}\[(\w+):\]", "F"),
                     (rf"(\w+) == len\({blk}\)", "F")):
        m = re.fullmatch(pat, t)
        if m:
            return m.group(1), lab
    return None


def r2_tiling_loop(ctx: Ctx) -> None:
    fn = ctx.repo.func(W, "IPSWriter.write_block")
    blk, addr = fn.params()[1], fn.params()[2]
    # a local that only names the (loop-invariant) block length reads as `len(block)`
    import dataclasses

    from ..match import inline as _inl11, single_assignments as _sa11

    if not any(isinstance(n, ast.Name) and n.id == blk and isinstance(n.ctx, ast.Store) for n in ast.walk(fn.node)):
        env11 = {k: v for k, v in _sa11(fn.node).items() if unparse(v) == f"len({blk})"}
        if env11:
            fn = dataclasses.replace(fn, node=ast.fix_missing_locations(_inl11(fn.node, env11)))
    g = CFG(fn.node)
    floops = [s for s in walk_no_nested(fn.node) if isinstance(s, ast.For)]
    wloops = [s for s in walk_no_nested(fn.node) if isinstance(s, ast.While)]
    if len(floops) == 1 and not wloops:
        return _tiling_by_range(ctx, fn, floops[0], blk, addr)
    loops = wloops
    if len(loops) != 1:
        raise AnalysisError("write_block: expected one loop")
    lp = loops[0]
    hdr = [c for c in calls_in(fn.node) if call_name(c) == "self.write_block_header"]
    dat = [c for c in calls_in(fn.node) if call_name(c) == "self.file.write"]
    if len(hdr) != 1:
        raise AnalysisError(f"write_block: expected one header call, found {len(hdr)}")
    hn = g.node_containing(hdr[0])
    # (1) a header is written only for a non-empty remainder
    kvar = None
    guarded = False
    guard_edge = (0, "")
    tests_seen = []
    for nid, node in g.nodes.items():
        if node.kind != "test":
            continue
        r = _nonempty_remainder_test(node.ast, blk)  # type: ignore[arg-type]
        if r is None:
            continue
        tests_seen.append(unparse(node.ast))
        cur, lab = r
        if g.dominated_by_edge(hn, (nid, lab)) or (g.dominated_by(hn, [nid]) and hn not in g.reachable([m for m, l in g.succ[nid] if l != lab], blocked=[nid])):
            kvar = cur
            guarded = True
            guard_edge = (nid, lab)
    if not guarded:
        ctx.fail("write_block:guard", "a record header can be written when nothing remains of the block (an empty block, or the step after the last slice): "
                 f"a zero-length record is a run-length record to every reader; remainder tests found: {tests_seen}")
        return
    ctx.ok("write_block:guard", "headers are written only while something remains (no zero-length record, nothing for an empty block)")
    # every slice gets its record: once something remains, no way back to the test or out of the function avoids the header
    gn, glab = guard_edge
    after = [m for m, l in g.succ[gn] if l == glab]
    skipping = g.reachable(after, blocked=[hn], labels_excluded=["exc"])
    ctx.check(gn not in skipping and EXIT not in skipping, "write_block:every-slice-recorded",
              "while something remains every path writes a record header: a slice skipped under some condition (already written, equal to an earlier one, ...) is missing from the patch")
    init = [s for s in walk_no_nested(fn.node) if isinstance(s, ast.Assign) and unparse(s.targets[0]) == kvar and s not in list(walk_no_nested(lp))]
    ctx.check(len(init) == 1 and unparse(init[0].value) == "0", "write_block:cursor-init", "the cursor starts at 0")
    body_env = {}
    for s in walk_no_nested(lp):
        if isinstance(s, ast.Assign) and isinstance(s.targets[0], ast.Name):
            body_env[s.targets[0].id] = s.value
    size_var = None
    for name, val in body_env.items():
        if isinstance(val, ast.Call) and call_name(val) == "min" and len(val.args) == 2:
            consts = [const_int(a) for a in val.args]
            others = [unparse(a) for a, c in zip(val.args, consts) if c is None]
            cs = [c for c in consts if c is not None]
            if len(cs) == 1 and others == [f"len({blk}) - {kvar}"]:
                size_var = name
                ctx.check(1 <= cs[0] <= 0xFFFF, "write_block:slice-bound", f"record length bound {hex(cs[0])} must fit the 16-bit length field (1..0xFFFF)")
    if size_var is None:
        raise AnalysisError("write_block: slice size `min(C, len(block) - k)` not recognised")
    slice_var = None
    for name, val in body_env.items():
        if unparse(val) in (f"{blk}[{kvar}:{kvar} + {size_var}]",):
            slice_var = name
    if slice_var is None:
        ctx.fail("write_block:slice", f"the data slice is not {blk}[{kvar}:{kvar} + {size_var}]")
        return
    ctx.ok("write_block:slice", f"{slice_var} = {blk}[{kvar}:{kvar}+{size_var}]")
    ctx.check([unparse(a) for a in hdr[0].args] == [slice_var, addr], "write_block:header-call", f"header is written for the slice at the running address; found {unparse(hdr[0])}")
    ctx.check(len(dat) == 1 and [unparse(a) for a in dat[0].args] == [slice_var], "write_block:data-write", f"exactly the slice follows its header; found {[unparse(d) for d in dat]}")
    augs = {unparse(s.target): s for s in walk_no_nested(lp) if isinstance(s, ast.AugAssign)}
    for cur in (addr, kvar):
        a = augs.get(cur)
        ok = a is not None and isinstance(a.op, ast.Add) and unparse(a.value) == size_var
        ctx.check(ok, f"write_block:advance:{cur}", f"advances by the slice size; found `{unparse(a) if a is not None else None}`")
        if ok:
            an = g.node_of(a)
            # every way from one header to the next passes the advance
            nxt = [m for m, _ in g.succ[hn]]
            ctx.check(hn not in g.reachable(nxt, blocked=[an]), f"write_block:advance-every-record:{cur}", "between two records the cursor always advances")
    if len(dat) == 1:
        dn = g.node_containing(dat[0])
        ctx.check(g.dominated_by(dn, [hn]) and hn not in g.reachable([m for m, _ in g.succ[hn]], blocked=[dn]), "write_block:order", "each header is followed by its data before the next header")
    for s in walk_no_nested(lp):
        if isinstance(s, (ast.Continue, ast.Return)):
            ctx.fail(f"write_block:{type(s).__name__.lower()}", "an early exit leaves part of the block unwritten")
    ctx.count("tiling_facts", 8)


def _tiling_by_range(ctx: Ctx, fn, lp: ast.For, blk: str, addr: str) -> None:
    """`for k in range(0, len(block), C)`: slice block[k:k+C] written at address + k"""
    it = lp.iter
    if not (isinstance(it, ast.Call) and call_name(it) == "range" and len(it.args) == 3 and const_int(it.args[0]) == 0 and unparse(it.args[1]) == f"len({blk})"
            and isinstance(lp.target, ast.Name)):
        raise AnalysisError(f"write_block: loop over `{unparse(it)}` not modelled")
    k = lp.target.id
    step = const_int(it.args[2])
    ctx.ok("write_block:guard", "one record per range step: nothing is written for an empty block")
    ctx.check(step is not None and 1 <= step <= 0xFFFF, "write_block:slice-bound", f"record length bound {step} must fit the 16-bit length field (1..0xFFFF)")
    hdr = [c for c in calls_in(lp) if call_name(c) == "self.write_block_header"]
    dat = [c for c in calls_in(lp) if call_name(c) == "self.file.write"]
    if len(hdr) != 1 or len(dat) != 1:
        ctx.fail("write_block:header-call", f"one header and one data write per slice; found {len(hdr)} / {len(dat)}")
        return
    sl = canon(fn.node, hdr[0].args[0])
    ctx.check(sl in (f"{blk}[{k}:{k} + {step}]", f"{blk}[{k}:{k} + {hex(step) if step else ''}]") or (step is not None and sl == f"{blk}[{k}:{k} + {step}]"), "write_block:slice", f"the slice is {blk}[{k}:{k}+step]; found {sl}")
    from ..poly import poly, poly_of_source, show as show_poly
    a = canon(fn.node, hdr[0].args[1])
    ctx.check(show_poly(poly(ast.parse(a, mode="eval").body)) == show_poly(poly_of_source(f"{addr} + {k}")), "write_block:header-call", f"the slice at offset k is recorded at address + k; found {a}")
    ctx.check(canon(fn.node, dat[0].args[0]) == sl, "write_block:data-write", "exactly the slice follows its header")
    g = CFG(fn.node)
    hn, dn = g.node_containing(hdr[0]), g.node_containing(dat[0])
    ctx.check(g.dominated_by(dn, [hn]) and not g.path_conditions(hn, fn.node) and not g.path_conditions(dn, fn.node), "write_block:order", "each header is followed by its data, unconditionally")
    writes_addr = [n for n in walk_no_nested(fn.node) if isinstance(n, (ast.Assign, ast.AugAssign)) and addr in {unparse(t) for t in (n.targets if isinstance(n, ast.Assign) else [n.target])}]
    ctx.check(not writes_addr, "write_block:advance", "the block address itself is not modified (each record uses address + k)")
    for s_ in walk_no_nested(lp):
        if isinstance(s_, (ast.Break, ast.Continue, ast.Return)):
            ctx.fail(f"write_block:{type(s_).__name__.lower()}", "an early exit leaves part of the block unwritten")
    ctx.count("tiling_facts", 8)


def r3_no_wrap_and_copier(ctx: Ctx) -> None:
    h = ctx.repo.func(W, "IPSWriter.write_block_header")
    addr = h.params()[2]
    def is_addr(name: str) -> bool:
        return name.isidentifier() and alias_root(h.node, name) == addr
    ifs = [s for s in walk_no_nested(h.node) if isinstance(s, ast.If) and unparse(s.test) == "self._copier_header"]
    ok = len(ifs) == 1 and len(ifs[0].body) == 1 and isinstance(ifs[0].body[0], ast.AugAssign) and isinstance(ifs[0].body[0].op, ast.Add) \
        and is_addr(unparse(ifs[0].body[0].target)) and const_int(ifs[0].body[0].value) == 0x200 and not ifs[0].orelse
    ctx.check(ok, "write_block_header:copier-delta", "adds exactly 0x200 when the copier-header flag is set, nothing otherwise")
    g3 = CFG(h.node)
    if ifs and ok:
        # the variable that received the delta is the one whose bytes are packed (a copy taken before the delta is not)
        shifted = unparse(ifs[0].body[0].target)  # type: ignore[attr-defined]
        shift_node = g3.node_of(ifs[0].test)
        copies = {unparse(n.targets[0]): n for n in walk_no_nested(h.node) if isinstance(n, ast.Assign) and len(n.targets) == 1 and isinstance(n.targets[0], ast.Name)
                  and isinstance(n.value, ast.Name)}

        def source(name: str, depth: int = 0) -> str:
            """a copy taken AFTER the delta was applied is the shifted value under another name; a copy taken before it is not"""
            c_ = copies.get(name)
            if c_ is not None and depth < 5 and name != shifted and g3.dominated_by(g3.node_of(c_), [shift_node]):
                return source(c_.value.id, depth + 1)  # type: ignore[attr-defined]
            return name

        packed_vars = {source(n.id) for w in _writes(h.node) for n in ast.walk(w) if isinstance(n, ast.Name) and is_addr(n.id)}
        if not packed_vars:
            raise AnalysisError("write_block_header: the packed offset is not an address variable written in place (built elsewhere); not decided")
        ctx.check(packed_vars == {shifted}, "write_block_header:delta-reaches-pack", f"the packed offset is the variable the copier delta was added to (`{shifted}`); packed: {sorted(packed_vars)}")
        ws = _writes(h.node)
        dn = g3.node_of(ifs[0].test)
        ctx.check(all(g3.dominated_by(g3.node_containing(w), [dn]) for w in ws), "write_block_header:delta-before-pack", "the delta is applied before the offset is packed")
    others = [s for s in walk_no_nested(h.node) if isinstance(s, ast.AugAssign) and is_addr(unparse(s.target))] + \
             [s for s in walk_no_nested(h.node) if isinstance(s, ast.Assign) and any(is_addr(unparse(t)) for t in s.targets) and not (isinstance(s.value, ast.Name) and is_addr(s.value.id))]
    ctx.check(len(others) == (1 if ifs else 0), "write_block_header:offset-untouched", f"the offset is modified only by the copier delta (no mask/modulo); found {[unparse(o) for o in others]}")
    init = ctx.repo.func(W, "IPSWriter.__init__")
    st = [n for n in walk_no_nested(init.node) if isinstance(n, ast.Assign) and unparse(n.targets[0]) == "self._copier_header"]
    ctx.check(len(st) == 1 and unparse(st[0].value) == init.params()[2], "IPSWriter.__init__:copier-flag", "the flag is the constructor argument")
    ctx.count("copier_facts", 3)


def r4_reserved_offset(ctx: Ctx) -> None:
    h = ctx.repo.func(W, "IPSWriter.write_block_header")
    addr = h.params()[2]
    g = CFG(h.node)
    checks = []
    for s in walk_no_nested(h.node):
        if isinstance(s, ast.If) and always_raises(s.body):
            for c in ast.walk(s.test):
                if isinstance(c, ast.Compare) and len(c.ops) == 1 and isinstance(c.ops[0], ast.Eq):
                    sides = [c.left, c.comparators[0]]
                    vals = [const_int(x) for x in sides]
                    names = [unparse(x) for x in sides]
                    if EOF_AS_OFFSET in vals and any(n.isidentifier() and alias_root(h.node, n) == addr for n in names):
                        checks.append(s)
    if not checks:
        ctx.fail("write_block_header:offset-0x454F46", "a record at offset 0x454F46 is written; its header reads as the 'EOF' marker and every reader stops there")
        return
    ws = _writes(h.node)
    tests = [g.node_of(c.test) for c in checks]
    ok = all(g.dominated_by(g.node_containing(w), tests) for w in ws)
    # the check must see the final offset: after the copier delta
    deltas = [s for s in walk_no_nested(h.node) if isinstance(s, ast.If) and unparse(s.test) == "self._copier_header"]
    after = all(g.dominated_by(g.node_of(c.test), [g.node_of(d.test)]) for c in checks for d in deltas)
    ctx.check(ok and after, "write_block_header:offset-0x454F46", "the final offset (after the copier delta) is compared with 0x454F46 and refused before anything is written")
    ctx.count("reserved_checks", len(checks))



def rb_binding_agreement(ctx: Ctx) -> None:
    from ..ownership import binding_agreement

    binding_agreement(ctx)


def rm_no_process_lifetime_results(ctx: Ctx) -> None:
    """memoising decorators, module-level stores and mutable defaults on this property's mechanism (shared rule, caches.py)"""
    from ..caches import state_rule

    state_rule(ctx)


def ru_names_bound(ctx: Ctx) -> None:
    """a local read but never bound raises NameError for every input that reaches the statement (shared rule, names.py)"""
    from ..names import names_rule

    names_rule(ctx)


RULES = [r1_framing, r2_tiling_loop, r3_no_wrap_and_copier, r4_reserved_offset, rb_binding_agreement, rm_no_process_lifetime_results, ru_names_bound]
