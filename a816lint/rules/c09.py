"""C09 — macro application equals the body inlined with parameters bound (binding-order clause)."""
from __future__ import annotations

import ast
import re

from ..cfg import handler_names
from ..core import AnalysisError, calls_in, call_name, const_str, dotted, unparse, walk_no_nested
from ..match import kwarg
from ..cfg import CFG
from ..facts import assign_facts, show
from ..match import canon, canonical_statements
from ..report import Ctx
from .c08 import _event, scope_units

LEVEL = "other"
CODEGEN = "a816.parse.codegen"
NODES = "a816.parse.nodes"
EXPLANATION = (
    "generate_macro_application: every evaluation of a call-site argument happens before the macro's scope is entered "
    "(or, when deferred, is marked to run in the caller's scope and SymbolNode honours that mark with a save/restore of "
    "the current scope); parameters are bound positionally through one shared index; missing arguments and undefined "
    "macros hit unguarded subscripts; a fresh scope per application; only SymbolNotDefined defers an argument and the "
    "deferral keeps it; code-block arguments are stored as blocks and spliced only by generate_code_lookup."
)
ASSUMPTIONS = ["equivalence with the inlined twin for arbitrary bodies is a metamorphic relation; not decided"]


def _fn(ctx: Ctx):
    return ctx.repo.func(CODEGEN, "generate_macro_application")


def _top_index(fn: ast.FunctionDef, node: ast.AST) -> int:
    for i, s in enumerate(fn.body):
        if any(x is node for x in ast.walk(s)):
            return i
    raise AnalysisError("node not in function body")


def r1_arguments_in_caller_scope(ctx: Ctx) -> None:
    fn = _fn(ctx)
    body = fn.node.body
    uses = [i for i, s in enumerate(body) if not isinstance(s, (ast.For, ast.If, ast.Try, ast.While)) and _event(s) == "use"]
    appends = [i for i, s in enumerate(body) if not isinstance(s, (ast.For, ast.If, ast.Try, ast.While)) and _event(s) == "append"]
    restores = [i for i, s in enumerate(body) if not isinstance(s, (ast.For, ast.If, ast.Try, ast.While)) and _event(s) == "restore"]
    if len(uses) != 1 or len(restores) != 1:
        raise AnalysisError("generate_macro_application: scope switch not at statement level (see C08.R1)")
    evals = [c for c in calls_in(fn.node) if call_name(c) == "eval_expression"]
    ctx.count("argument_evaluations", len(evals))
    if not evals:
        ctx.fail("generate_macro_application:eager-evaluation", "arguments are never evaluated at the call site")
    for c in evals:
        i = _top_index(fn.node, c)
        ctx.check(i < uses[0], f"generate_macro_application:eval@stmt{i}",
                  f"`{unparse(c)[:50]}` runs " + ("before" if i < uses[0] else "after") +
                  " the macro scope is entered; inside it, earlier parameters are already bound and capture call-site names equal to them")
    # deferred arguments
    sn = [c for c in calls_in(fn.node) if call_name(c) == "SymbolNode"]
    ctx.count("deferred_sites", len(sn))
    for c in sn:
        flag = kwarg(c, "in_parent_scope", 3)
        ctx.check(flag is not None and unparse(flag) == "True", "generate_macro_application:deferred-in-caller-scope",
                  "an argument deferred to label resolution is evaluated under the replayed macro scope unless marked in_parent_scope=True", fact=True)
    ctx.floor("deferred_sites", 1)
    # SymbolNode honours the mark
    pa = ctx.repo.func(NODES, "SymbolNode.pc_after")
    init = ctx.repo.func(NODES, "SymbolNode.__init__")
    st = {unparse(n.targets[0]): unparse(n.value) for n in walk_no_nested(init.node) if isinstance(n, ast.Assign)}
    ctx.check(st.get("self.in_parent_scope") == "in_parent_scope" and "in_parent_scope" in init.params(), "SymbolNode.__init__:flag", "stores the in_parent_scope argument")
    saved = [s for s in pa.node.body if isinstance(s, ast.Assign) and unparse(s.value) == "self.resolver.current_scope" and isinstance(s.targets[0], ast.Name)]
    if len(saved) != 1:
        ctx.fail("SymbolNode.pc_after:evaluates-in-parent", "the current scope is not saved before the evaluation, so it cannot be switched and restored")
        return
    S = saved[0].targets[0].id  # type: ignore[union-attr]
    facts = assign_facts(pa, "self.resolver.current_scope", keep=(S,))
    switch = [(v, c) for v, c in facts if v == f"{S}.parent"]
    others = [(v, c) for v, c in facts if v not in (f"{S}.parent", S)]
    ok_switch = len(switch) == 1 and ("self.in_parent_scope", True) in switch[0][1] and (f"{S}.parent is None", False) in switch[0][1]
    tries = [s for s in pa.node.body if isinstance(s, ast.Try) and s.finalbody]
    ok_restore = len(tries) == 1 and any(call_name(c) == "eval_expression" for b in tries[0].body for c in calls_in(b)) and \
        [unparse(f) for f in tries[0].finalbody] == [f"self.resolver.current_scope = {S}"]
    g = CFG(pa.node)
    sw_nodes = [g.node_of(n) for n in walk_no_nested(pa.node) if isinstance(n, ast.Assign) and unparse(n.targets[0]) == "self.resolver.current_scope"
                and n not in (tries[0].finalbody if tries else [])]
    ok_order = bool(tries) and all(pa.node.body.index(_top_stmt(pa.node, g.nodes[n].ast)) < pa.node.body.index(tries[0]) for n in sw_nodes)
    adds = [c for c in calls_in(pa.node) if (call_name(c) or "").endswith("add_symbol")]
    ok_add = len(adds) == 1 and unparse(adds[0].func.value) == S  # type: ignore[attr-defined]
    ctx.check(ok_switch and not others and ok_restore and ok_order and ok_add, "SymbolNode.pc_after:evaluates-in-parent",
              "switches to the parent scope for the evaluation only (when flagged and a parent exists), restores in finally, and defines the parameter in the macro's own scope; "
              f"found assignments: {show(facts)}")


def _top_stmt(fn: ast.FunctionDef, node: ast.AST) -> ast.stmt:
    for s in fn.body:
        if any(x is node for x in ast.walk(s)):
            return s
    raise AnalysisError("statement not found at top level")


def r2_positional_binding(ctx: Ctx) -> None:
    fn = _fn(ctx)
    loops = [s for s in fn.node.body if isinstance(s, ast.For)]
    ctx.count("binding_loops", len(loops))
    idx_vars = []
    zip_vars: list[tuple[ast.For, str]] = []
    for lp in loops:
        it = unparse(lp.iter)
        if it == "enumerate(macro_args)" and isinstance(lp.target, ast.Tuple) and len(lp.target.elts) == 2:
            idx_vars.append((lp, unparse(lp.target.elts[0]), unparse(lp.target.elts[1])))
            ctx.ok(f"generate_macro_application:loop `{it}`", "iterates the macro's parameter list with its position")
        elif it in ("range(len(macro_args))", "range(0, len(macro_args))") and isinstance(lp.target, ast.Name):
            idx_vars.append((lp, lp.target.id, f"macro_args[{lp.target.id}]"))
            ctx.ok(f"generate_macro_application:loop `{it}`", "iterates the positions of the macro's parameter list")
        elif isinstance(lp.iter, ast.Call) and call_name(lp.iter) == "zip" and "macro_args" in [unparse(a) for a in lp.iter.args]:
            strict = any(k.arg == "strict" and getattr(k.value, "value", False) is True for k in lp.iter.keywords)
            # without strict=True zip() stops at the shortest operand.  That is harmless only when an earlier positional loop over the
            # parameter list already read every other operand at each position (a plain subscript: too few arguments raised there) or
            # built it with one entry per parameter (the aligned-list obligation below).
            ops = [unparse(a) for a in lp.iter.args]
            others = [o for o in ops if o != "macro_args"]
            covered = set()
            for lp0, iv0, _pv0 in idx_vars:
                for n in walk_no_nested(lp0):
                    if isinstance(n, ast.Subscript) and unparse(n.slice) == iv0 and isinstance(n.ctx, ast.Load):
                        covered.add(unparse(n.value))
                for c in calls_in(lp0):
                    if (call_name(c) or "").endswith(".append") and isinstance(c.func, ast.Attribute):
                        covered.add(unparse(c.func.value))
            safe = strict or (bool(others) and all(o in covered for o in others))
            ctx.check(safe, f"generate_macro_application:loop `{it}`", "zip() stops at the shorter list: with too few arguments the remaining parameters are silently left unbound "
                      "instead of failing (only zip(..., strict=True) raises, or an earlier positional read of every zipped list)")
            if safe and isinstance(lp.target, ast.Tuple) and len(lp.target.elts) == len(ops):
                ctx.count("positional_reads", len(others))
                zip_vars.append((lp, unparse(lp.target.elts[ops.index("macro_args")])))
        else:
            raise AnalysisError(f"generate_macro_application: loop over `{it}` is not a recognised walk of the parameter list")
    for lp, iv, pv in idx_vars:
        for n in walk_no_nested(lp):
            if isinstance(n, ast.Subscript) and unparse(n.value) in ("macro_args_values", "evaluated_args", "node.args"):
                ctx.count("positional_reads")
                ctx.check(unparse(n.slice) == iv, f"generate_macro_application:{unparse(n)}", f"parameter #{iv} takes argument #{unparse(n.slice)}")
        for c in calls_in(lp):
            if (call_name(c) or "").endswith("add_symbol") or call_name(c) == "SymbolNode":
                ctx.check(unparse(c.args[0]) == pv, f"generate_macro_application:{unparse(c)[:40]}", "binds the loop's own parameter name")
    for lp, pv in zip_vars:
        bound = dict(zip([unparse(a) for a in lp.iter.args], [unparse(e) for e in lp.target.elts]))  # type: ignore[attr-defined]
        for c in calls_in(lp):
            if (call_name(c) or "").endswith("add_symbol") or call_name(c) == "SymbolNode":
                src = "evaluated_args" if (call_name(c) or "").endswith("add_symbol") else ("macro_args_values" if "macro_args_values" in bound else "node.args")
                ctx.check(unparse(c.args[0]) == pv and len(c.args) > 1 and unparse(c.args[1]) == bound.get(src), f"generate_macro_application:{unparse(c)[:40]}",
                          f"binds the loop's own parameter name to the entry of {src} at the same position")
    ctx.floor("positional_reads", 2)
    # the evaluated list stays aligned: every trip round the evaluation loop appends exactly one entry (value, or the deferral marker)
    for lp, iv, pv in idx_vars:
        apps = [c for c in calls_in(lp) if call_name(c) == "evaluated_args.append"]
        if not apps:
            continue
        g = CFG(fn.node)
        head = g.node_of(lp)
        app_nodes = [g.node_containing(c) for c in apps]
        inside = {id(x) for st_ in lp.body for x in ast.walk(st_)}
        outside = [nid for nid, n in g.nodes.items() if nid != head and (n.ast is None or id(n.ast) not in inside)]
        starts = [m for m, lab in g.succ[head] if lab == "loop"]
        # an 'exc' edge leaves a statement that did NOT complete: it bypasses that append
        bypass = [m for a in app_nodes for m, lab in g.succ[a] if lab == "exc"]
        skip = head in g.reachable(starts + bypass, blocked=app_nodes + outside)
        twice = any(a2 in g.reachable([m for m, lab in g.succ[a1] if lab != "exc"], blocked=[head] + outside) for a1 in app_nodes for a2 in app_nodes)
        ctx.check(not skip and not twice, "generate_macro_application:aligned-list",
                  "one entry per parameter on every path of the evaluation loop (normal and deferred); otherwise later parameters shift or the argument is dropped")
    # failures are not absorbed
    md = [n for n in walk_no_nested(fn.node) if isinstance(n, ast.Subscript) and unparse(n.value) == "macro_definitions"]
    ctx.check(len(md) == 1 and unparse(md[0].slice) == "node.name" and not [c for c in calls_in(fn.node) if unparse(c.func) == "macro_definitions.get"],
              "generate_macro_application:undefined-macro", "an undefined macro hits a plain subscript (KeyError)")
    for t in [n for n in walk_no_nested(fn.node) if isinstance(n, ast.Try)]:
        for h in t.handlers:
            names = handler_names(h)
            bad = names is None or bool(names & {"Exception", "BaseException", "IndexError", "LookupError", "KeyError"})
            ctx.check(not bad, f"generate_macro_application:except {unparse(h.type)}", "a handler that catches IndexError/KeyError hides a missing argument or an undefined macro")
    g = ctx.repo.func(CODEGEN, "generate_macro")
    ctx.check(canonical_statements(g.node) == ["macro_definitions[node.name] = node", "return []"], "generate_macro", "a definition is recorded under its name and emits nothing")


def r3_per_application_scope(ctx: Ctx) -> None:
    fn = _fn(ctx)
    units = scope_units(fn)
    from .c08 import dynamic_scope_dispatch

    dyn = dynamic_scope_dispatch(fn)
    if not units and dyn:
        raise AnalysisError(f"generate_macro_application: the scope is opened through a dynamic call `{dyn}`; not modelled")
    ctx.check(len(units) == 1 and units[0][0] == "FunctionDef", "generate_macro_application:fresh-scope", "one new scope per application (labels in the body are local to it)")
    cs = [c for c in calls_in(fn.node) if (call_name(c) or "") == "resolver.append_scope"]
    ctx.check(len(cs) == 1, "generate_macro_application:append_scope", "appends an anonymous scope")
    gen = [c for c in calls_in(fn.node) if call_name(c) == "_code_gen"]
    from ..match import canon as _cn9

    ctx.check(len(gen) == 1 and _cn9(fn.node, gen[0].args[0]) == "macro_definitions[node.name].block.body", "generate_macro_application:expands-body",
              "expands the macro's own block once")
    gl = ctx.repo.func(CODEGEN, "generate_code_lookup")
    v = [unparse(s.value) for s in gl.node.body if isinstance(s, ast.Assign)]
    ok = v == ["resolver.current_scope.value_for(node.symbol)"]
    arms = [s for s in gl.node.body if isinstance(s, ast.If)]
    ok = ok and len(arms) == 1 and unparse(arms[0].test) == "isinstance(value, BlockAstNode)" and \
        [unparse(b) for b in arms[0].body] == ["return _code_gen(value.body, resolver, macro_definitions)"] and \
        len(arms[0].orelse) == 1 and isinstance(arms[0].orelse[0], ast.Raise)
    ctx.check(ok, "generate_code_lookup", "splices the block bound to the parameter, found through the scope chain; a non-block raises")
    ctx.count("scope_facts", 4)


def r4_only_symbol_not_defined_defers(ctx: Ctx) -> None:
    fn = _fn(ctx)
    tries = [n for n in walk_no_nested(fn.node) if isinstance(n, ast.Try)]
    ctx.count("handlers", sum(len(t.handlers) for t in tries))
    for t in tries:
        for h in t.handlers:
            names = handler_names(h)
            ctx.check(names == {"SymbolNotDefined"}, f"generate_macro_application:defers-on {unparse(h.type)}", "only a not-yet-defined symbol (forward label) defers an argument")
            ctx.check(not any(isinstance(s_, (ast.Continue, ast.Return, ast.Break)) for s_ in h.body), f"generate_macro_application:handler-keeps {unparse(h.type)}",
                      "the handler does not leave the loop body early (the deferred argument is still recorded: see aligned-list)")
    # the None marker leads to a SymbolNode for the same position
    # (any layout: the SymbolNode construction is reached exactly when the evaluated value `is None`)
    from ..cfg import CFG as _CFG9

    g9 = _CFG9(fn.node)
    ok = False
    for c in calls_in(fn.node):
        if call_name(c) == "SymbolNode":
            conds = g9.path_conditions(g9.node_containing(c), fn.node, keep=["evaluated"])
            if any(t_.endswith(" is None") and pol for t_, pol in conds):
                ok = True
    ctx.check(ok, "generate_macro_application:deferred-becomes-SymbolNode", "a deferred position produces a SymbolNode bound at label resolution")
    ctx.floor("handlers", 1)



def r5_failures_inside_expansions_surface(ctx: Ctx) -> None:
    """`applying an undefined macro or supplying too few arguments fails` wherever the application stands: no recovering handler of
    the code generators encloses an expansion (shared with C14.R8)"""
    from .c14 import recovery_scope

    recovery_scope(ctx)


def r6_enclosing_scopes_stay_reachable(ctx: Ctx) -> None:
    """a macro body (and its arguments) may name anything visible at the call site: the outward lookup must not stop at an
    enclosing scope that merely binds nothing (shared with C08.R3's truthiness clause)"""
    from .c08 import scope_truthiness

    scope_truthiness(ctx)


def scope_log_is_not_a_depth(ctx: Ctx, props_owned: bool = True) -> None:
    """Resolver.scopes is the append-only log of every scope the program ever opened (one per block, application, iteration), not
    the nesting stack.  A rejection guarded by `len(<resolver>.scopes) > K` therefore refuses every program that opens more than K
    scopes, however shallow: the (K+1)-th macro application, or any application after a loop of K iterations, fails although
    applications are independent of each other."""
    from ..ownership import owned

    # (1) the log only grows
    shrink = []
    for fn in ctx.repo.all_functions():
        for n in walk_no_nested(fn.node):
            if isinstance(n, ast.Call) and isinstance(n.func, ast.Attribute) and n.func.attr in ("pop", "remove", "clear") and unparse(n.func.value).endswith(".scopes"):
                shrink.append(f"{fn.where}:{unparse(n)[:40]}")
            if isinstance(n, ast.Delete) and any(".scopes" in unparse(t) for t in n.targets):
                shrink.append(f"{fn.where}:{unparse(n)[:40]}")
            if isinstance(n, ast.Assign) and any(unparse(t).endswith(".scopes") for t in n.targets) and fn.name != "__init__":
                shrink.append(f"{fn.where}:{unparse(n)[:40]}")
    n_guards = 0
    for fn in ctx.repo.all_functions():
        if not fn.module.name.startswith("a816.parse.codegen"):
            continue
        raises = [r for r in walk_no_nested(fn.node) if isinstance(r, ast.Raise)]
        if not raises:
            continue
        g = CFG(fn.node)
        for r in raises:
            for t, pol in g.path_conditions(g.node_of(r), fn.node):
                m = re.match(r"^len\((\w+(?:\.\w+)*)\.scopes\) (>|>=|<|<=) (\w+)$", t)
                if not m:
                    continue
                n_guards += 1
                if shrink:
                    raise AnalysisError(f"{fn.where}: limit on len(scopes) while the log can shrink ({shrink[0]}); not modelled")
                if props_owned and not owned(ctx.prop, fn.fq):
                    continue
                ctx.fail(f"{fn.where}:raise under `{t}`", "Resolver.scopes only ever grows (one entry per scope opened anywhere in the program): this limit rejects every "
                         "program with that many scopes, not deep nesting; a valid application placed after enough blocks, loop iterations or other applications fails")
    ctx.ok("a816.parse.codegen:no-limit-on-scope-log", f"{n_guards} rejection(s) keyed on the size of Resolver.scopes") if n_guards == 0 else None


def r7_no_capacity_limit_on_scope_log(ctx: Ctx) -> None:
    scope_log_is_not_a_depth(ctx)


def r8_argument_list_separators(ctx: Ctx) -> None:
    """arguments of either kind (expression or code block) are separated by commas: in parse_expression_list_inner every way from an
    appended item back to the top of the loop goes through the comma test, and the loop ends when there is no comma.  If the test is
    reachable after one kind of item only, a code-block argument that is not the last one is a syntax error."""
    pel = ctx.repo.func("a816.parse.parser_states", "parse_expression_list_inner")
    loops = [n for n in walk_no_nested(pel.node) if isinstance(n, (ast.While,))]
    if len(loops) != 1:
        raise AnalysisError("parse_expression_list_inner: expected one loop")
    lp = loops[0]
    g = CFG(pel.node)
    head = g.node_of(lp.test)
    items = [g.node_containing(c) for c in calls_in(lp) if isinstance(c.func, ast.Attribute) and c.func.attr == "append"]
    commas = [nid for nid, nd in g.nodes.items() if nd.kind == "test" and "COMMA" in unparse(nd.ast)]
    if not items or not commas:
        raise AnalysisError(f"parse_expression_list_inner: {len(items)} item appends / {len(commas)} comma tests; not modelled")
    for it in items:
        ctx.count("argument_kinds")
        after = [m for m, l in g.succ[it] if l != "exc"]
        skips = head in g.reachable(after, blocked=commas, labels_excluded=["exc"]) and head != it
        ctx.check(not skips, f"parse_expression_list_inner:comma-after `{g.nodes[it].text()[:40]}`", "after this kind of argument the comma test decides whether another argument follows")
    ctx.floor("argument_kinds", 1)


def r9_application_scope_replay(ctx: Ctx) -> None:
    """`labels defined in the body are local to one application`: the scope an application opens is entered and left again in every
    pass - ScopeNode / PopScopeNode do in pc_after and in emit what the generator did, and the resolver hands out scopes in
    creation order (shared with C08.R2)"""
    from .c08 import r2_replay_agreement

    r2_replay_agreement(ctx)


def rb_binding_agreement(ctx: Ctx) -> None:
    from ..ownership import binding_agreement

    binding_agreement(ctx)


def rm_no_process_lifetime_results(ctx: Ctx) -> None:
    """memoising decorators, module-level stores and mutable defaults on this property's mechanism (shared rule, caches.py)"""
    from ..caches import state_rule

    state_rule(ctx)


def ru_names_bound(ctx: Ctx) -> None:
    """a local read but never bound raises NameError for every input that reaches the statement (shared rule, names.py)"""
    from ..names import names_rule

    names_rule(ctx)


def r10_block_splice_tokens(ctx: Ctx) -> None:
    """`{{ name }}` splices a code-block argument: the scanner turns `{{` / `}}` into DOUBLE_LBRACE / DOUBLE_RBRACE (and the single braces into
    LBRACE / RBRACE), and parse_code_lookup both requires and consumes the closing `}}` so the statement after the splice is parsed from its
    own first token"""
    from ..match import if_chain

    li = ctx.repo.func("a816.parse.scanner_states", "lex_initial")
    chains = [st for st in li.node.body if isinstance(st, ast.If)]
    if len(chains) != 1:
        raise AnalysisError("lex_initial: expected one top-level if-chain")
    arms, _ = if_chain(chains[0])
    want = {"{": ("DOUBLE_LBRACE", "LBRACE"), "}": ("DOUBLE_RBRACE", "RBRACE")}
    seen = set()
    for test, body in arms:
        if not (isinstance(test, ast.Call) and call_name(test) == "s.accept" and test.args and const_str(test.args[0]) in want):
            continue
        ch = const_str(test.args[0])
        seen.add(ch)
        ctx.count("brace_arms")
        if not (len(body) == 1 and isinstance(body[0], ast.If) and isinstance(body[0].test, ast.Call) and call_name(body[0].test) == "s.accept"
                and body[0].test.args and const_str(body[0].test.args[0]) == ch and len(body[0].body) == 1 and len(body[0].orelse) == 1):
            raise AnalysisError(f"lex_initial: arm for `{ch}` is not `if s.accept({ch!r}): emit(double) else: emit(single)`; layout not modelled")
        got = []
        for st in (body[0].body[0], body[0].orelse[0]):
            c = st.value if isinstance(st, ast.Expr) else None
            if not (isinstance(c, ast.Call) and call_name(c) == "s.emit" and len(c.args) == 1 and (dotted(c.args[0]) or "").startswith("TokenType.")):
                raise AnalysisError(f"lex_initial: arm for `{ch}` emits through `{unparse(st)[:40]}`; not modelled")
            got.append((dotted(c.args[0]) or "").split(".")[-1])
        ctx.check(tuple(got) == want[ch], f"lex_initial:`{ch}`-arm", f"`{ch}{ch}` is {want[ch][0]} and a single `{ch}` is {want[ch][1]}; found {got}", fact=True)
    if seen != set(want):
        raise AnalysisError(f"lex_initial: brace arms found for {sorted(seen)} only")
    pc = ctx.repo.func("a816.parse.parser_states", "parse_code_lookup")
    closers = [c for c in calls_in(pc.node) if call_name(c) == "expect_token" and len(c.args) == 2 and (dotted(c.args[1]) or "").endswith("DOUBLE_RBRACE")]
    if not ctx.check(len(closers) == 1, "parse_code_lookup:closer-required", "the splice must be closed by `}}`", fact=True):
        return
    arg = closers[0].args[0]
    src = canon(pc.node, arg) if not isinstance(arg, ast.Call) else unparse(arg)
    stmts = [st for st in pc.node.body]
    idx = next((k for k, st in enumerate(stmts) if any(c is closers[0] for c in calls_in(st))), None)
    if idx is None:
        raise AnalysisError("parse_code_lookup: closer test is nested; layout not modelled")
    later_next = any(isinstance(st, ast.Expr) and isinstance(st.value, ast.Call) and call_name(st.value) == "p.next" for st in stmts[idx + 1:])
    if src not in ("p.next()", "p.current()", "p.peek()"):
        raise AnalysisError(f"parse_code_lookup: closer token comes from `{src[:40]}`; not modelled")
    ctx.check(src == "p.next()" or (src == "p.current()" and later_next), "parse_code_lookup:closer-consumed",
              f"the `}}}}` token is consumed (tested through `{src}`{', then p.next()' if later_next else ''}): left in place, it is the first token of the next statement", fact=True)


def r11_every_node_gets_its_second_pass(ctx: Ctx) -> None:
    """`arguments may refer to labels defined later`: a deferred argument is evaluated in the second pass of resolve_labels, which has to
    reach every node of the program (C02.R3)"""
    from .c02 import r3_traversal_agreement

    r3_traversal_agreement(ctx)


RULES = [r1_arguments_in_caller_scope, r2_positional_binding, r3_per_application_scope, r4_only_symbol_not_defined_defers, r5_failures_inside_expansions_surface, r6_enclosing_scopes_stay_reachable, r7_no_capacity_limit_on_scope_log, r8_argument_list_separators, r9_application_scope_replay, r10_block_splice_tokens, r11_every_node_gets_its_second_pass, rb_binding_agreement, rm_no_process_lifetime_results, ru_names_bound]
