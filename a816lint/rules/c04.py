"""C04 — bus laws (configuration, binding, rejection and formula-normal-form clauses)."""
from __future__ import annotations

import ast
import json
import os

from ..cfg import always_raises
from ..const import CallVal, ConstEval, EnumVal, NameRef, NotConst, module_const
from ..core import AnalysisError, calls_in, call_name, const_str, dotted, unparse, walk_no_nested
from ..match import canon, if_chain, inline, kwarg, returns_of, single_assignments
from ..poly import atoms, poly, poly_of_source, show
from ..facts import assign_facts, return_facts
from ..facts import show as show_facts
from ..report import VERIF, Ctx

LEVEL = "other"
SYMBOLS = "a816.symbols"
MAPPING = "a816.cpu.mapping"
EXPLANATION = (
    "Built-in bus definitions (module-level map() calls, bound to Bus.map's parameters) compared with the hand-written "
    "reference layout, plus internal consistency (window start/size vs mask, mirror width, RAM mapped last where it "
    "overlaps); BUS_MAPPING covers every RomType; mirror mapping built from the same range/mask/writability and both "
    "lookups filled over inclusive ranges; argument binding of Mapping()/Bus.map()/Address() and of .map keys from parser "
    "to generator; unmapped banks rejected by plain subscripts; RAM has no offset; the offset formula, its inverse and "
    "Address.__add__ compared in polynomial normal form with the reference formulas."
)
ASSUMPTIONS = ["the arithmetic laws themselves (advance m then n = m+n over 2^24 addresses) are value laws; R5 decides that the code "
               "computes the reference formulas, which satisfy them, not the laws by enumeration"]


def _bind(call: CallVal, params: list[str], defaults: dict[str, object]) -> dict[str, object]:
    out = dict(defaults)
    for p, a in zip(params, call.args):
        out[p] = a
    for k, v in call.kwargs:
        out[k] = v
    return out


def _module_bus_calls(ctx: Ctx) -> tuple[dict[str, list[dict[str, object]]], dict[str, list[str]]]:
    """bus variable -> ordered list of bound map() calls; and the order of statements per bus."""
    mi = ctx.repo.module(SYMBOLS)
    mp = ctx.repo.func(MAPPING, "Bus.map")
    params = mp.params()[1:]
    defaults = {"writeable": False, "mirror_bank_range": None}
    ce = ConstEval(ctx.repo, mi)
    buses: dict[str, list[dict[str, object]]] = {}
    events: dict[str, list[str]] = {}
    for st in mi.tree.body:
        if isinstance(st, ast.Assign) and isinstance(st.value, ast.Call) and call_name(st.value) == "Bus" and isinstance(st.targets[0], ast.Name):
            buses[st.targets[0].id] = []
            events[st.targets[0].id] = ["create"]
        elif isinstance(st, ast.Expr) and isinstance(st.value, ast.Call) and isinstance(st.value.func, ast.Attribute):
            recv = dotted(st.value.func.value)
            if recv in buses and st.value.func.attr == "map":
                try:
                    cv = ce.ev(st.value)
                except NotConst as e:
                    raise AnalysisError(f"{recv}.map(...) arguments are not literals: {e}") from e
                buses[recv].append(_bind(cv, params, defaults))
                events[recv].append("map")
            elif recv in buses:
                events[recv].append(st.value.func.attr)
        elif isinstance(st, ast.Assign) and isinstance(st.targets[0], ast.Attribute) and dotted(st.targets[0].value) in buses:
            events[dotted(st.targets[0].value)].append(f"{st.targets[0].attr}={unparse(st.value)}")  # type: ignore[index]
    return buses, events


def r1_builtin_maps(ctx: Ctx) -> None:
    with open(os.path.join(VERIF, "refdata", "bus_textbook.json")) as f:
        ref = json.load(f)
    buses, events = _module_bus_calls(ctx)
    bm = module_const(ctx.repo, SYMBOLS, "BUS_MAPPING")
    if not isinstance(bm, dict):
        raise AnalysisError("BUS_MAPPING is not a dict literal")
    mi = ctx.repo.module(SYMBOLS)
    raw = mi.assigns["BUS_MAPPING"]
    key_to_var = {}
    if isinstance(raw, ast.Dict):
        for k, v in zip(raw.keys, raw.values):
            key_to_var[(dotted(k) or "").split(".")[-1]] = dotted(v)
    for rom, spec in ref.items():
        if rom.startswith("_"):
            continue
        var = key_to_var.get(rom)
        ctx.count("rom_types")
        if not ctx.check(var is not None and var in buses, f"BUS_MAPPING[{rom}]", f"maps to a module-level Bus (found {var})"):
            continue
        got = buses[var]
        ctx.check(len(got) == len(spec["maps"]), f"{var}:map-count", f"{len(got)} map() calls, reference layout has {len(spec['maps'])}")
        for i, (g, w) in enumerate(zip(got, spec["maps"])):
            for field in ("bank_range", "address_range", "mask", "writeable", "mirror_bank_range"):
                gv = g.get(field)
                gv = list(gv) if isinstance(gv, tuple) else gv
                ctx.count("map_fields")
                ctx.check(gv == w[field], f"{var}.map#{i}:{field}", f"is {gv}, reference layout says {w[field]}")
    # internal consistency of every built-in map (also holds for maps added later)
    for var, maps in buses.items():
        for i, g in enumerate(maps):
            ar, mask, br, mr = g.get("address_range"), g.get("mask"), g.get("bank_range"), g.get("mirror_bank_range")
            if not (isinstance(ar, tuple) and isinstance(br, tuple) and isinstance(mask, int)):
                raise AnalysisError(f"{var}.map#{i}: non-literal ranges")
            ctx.check(ar[1] - ar[0] + 1 == mask, f"{var}.map#{i}:window-size", f"window {hex(ar[0])}..{hex(ar[1])} holds {ar[1] - ar[0] + 1} bytes, the bank size (mask) is {mask}")
            ctx.check(ar[0] == (mask & 0xFFFF), f"{var}.map#{i}:window-start", f"window starts at {hex(ar[0])}; the inverse formula places offsets at {hex(mask & 0xFFFF)}")
            if mr is not None:
                ctx.check(isinstance(mr, tuple) and 0 <= mr[1] - mr[0] <= br[1] - br[0], f"{var}.map#{i}:mirror-width",
                          f"every mirror bank of {mr} must have a primary bank in {br} with the same offset (mirror not wider than primary)")
        # Bus.map files a mapping under its identifier (and `<identifier>_mirror`): two map() calls of one bus under the same key
        # leave the first one's banks pointing at the second one's mapping
        keys: dict[str, int] = {}
        for i, g in enumerate(maps):
            ident = g.get("identifier")
            if not isinstance(ident, str):
                raise AnalysisError(f"{var}.map#{i}: identifier is not a string literal")
            for key in [ident] + ([f"{ident}_mirror"] if g.get("mirror_bank_range") else []):
                ctx.count("map_keys")
                ctx.check(key not in keys, f"{var}.map#{i}:identifier", f"mapping key {key!r} is already used by {var}.map#{keys.get(key)}: the later "
                          "mapping replaces the earlier one for the earlier one's banks", fact=True)
                keys.setdefault(key, i)
        # overlapping ranges: the later map wins the lookup, RAM must be the later one
        for i, a in enumerate(maps):
            for j in range(i + 1, len(maps)):
                b = maps[j]
                ra = [a["bank_range"]] + ([a["mirror_bank_range"]] if a.get("mirror_bank_range") else [])
                rb = [b["bank_range"]] + ([b["mirror_bank_range"]] if b.get("mirror_bank_range") else [])
                for x in ra:
                    for y in rb:
                        if x[0] <= y[1] and y[0] <= x[1]:  # type: ignore[index]
                            ctx.check(bool(b.get("writeable")) and not a.get("writeable"), f"{var}:overlap#{i}/{j}",
                                      f"banks {x} and {y} overlap; the map() called last owns them and must be the RAM one")
    enum = ctx.repo.cls("a816.cpu.cpu_65c816", "RomType")
    members = [t.id for st in enum.node.body if isinstance(st, ast.Assign) for t in st.targets if isinstance(t, ast.Name)]
    for m in members:
        ctx.check(m in key_to_var, f"BUS_MAPPING:{m}", "every RomType has a bus (Resolver.get_bus subscripts BUS_MAPPING)")
    ctx.floor("rom_types", 2)


def _project(ctx: Ctx, text: str) -> str:
    """`Mapping(a, b, c, d).bank_range` is `a`: a field of a freshly constructed Mapping is the constructor argument stored in it"""
    init = ctx.repo.func(MAPPING, "Mapping.__init__")
    params = init.params()[1:]
    field_of = {unparse(n.targets[0]).split(".", 1)[1]: unparse(n.value) for n in walk_no_nested(init.node)
                if isinstance(n, ast.Assign) and unparse(n.targets[0]).startswith("self.") and unparse(n.value) in params}

    class T(ast.NodeTransformer):
        def visit_Attribute(self, node: ast.Attribute) -> ast.AST:
            self.generic_visit(node)
            if isinstance(node.value, ast.Call) and call_name(node.value) == "Mapping" and node.attr in field_of:
                p = field_of[node.attr]
                args = dict(zip(params, node.value.args))
                args.update({k.arg: k.value for k in node.value.keywords if k.arg})
                if p in args:
                    return args[p]
            return node

    try:
        return unparse(T().visit(ast.parse(text, mode="eval").body))
    except SyntaxError:
        return text


def r2_mirror_construction(ctx: Ctx) -> None:
    mp = ctx.repo.func(MAPPING, "Bus.map")
    P = mp.params()
    ident, br, ar, mask, wr, mir = P[1:7]
    ctor = calls_in(mp.node, "Mapping")
    if len(ctor) != 2:
        raise AnalysisError(f"Bus.map: expected two Mapping() constructions, found {len(ctor)}")
    cparams = ctx.repo.func(MAPPING, "Mapping.__init__").params()[1:]

    def bound(c: ast.Call) -> dict[str, str]:
        out = {p: canon(mp.node, a) for p, a in zip(cparams, c.args)}
        out.update({k.arg: canon(mp.node, k.value) for k in c.keywords if k.arg})
        return out

    prim, mirr = bound(ctor[0]), bound(ctor[1])
    ctx.check(prim == {"bank_range": br, "address_range": ar, "mask": mask, "writeable": wr}, "Bus.map:primary-mapping", f"Mapping bound as {prim}")
    ctx.check(mirr == {"bank_range": mir, "address_range": ar, "mask": mask, "writeable": wr}, "Bus.map:mirror-mapping",
              f"the mirror maps its own banks through the same window, mask and writability; bound as {mirr}")
    loops = [n for n in walk_no_nested(mp.node) if isinstance(n, ast.For)]
    seen = {}
    for lp in loops:
        it = lp.iter
        if isinstance(it, ast.Call) and call_name(it) == "range" and len(it.args) == 2:
            lo, hi = _project(ctx, canon(mp.node, it.args[0])), _project(ctx, canon(mp.node, it.args[1]))
            for rng in (br, mir):
                if lo == f"{rng}[0]":
                    store = [s for s in lp.body if isinstance(s, ast.Assign) and unparse(s.targets[0]) == f"self.lookup[{unparse(lp.target)}]"]
                    seen[rng] = (hi, canon(mp.node, store[0].value) if store else None)
    ctx.check(seen.get(br, (None,))[0] == f"{br}[1] + 1" and seen.get(br, (None, None))[1] == ident, "Bus.map:primary-lookup",
              f"every bank of the inclusive range resolves to the mapping; found {seen.get(br)}")
    mid = [unparse(s.value) for s in walk_no_nested(mp.node) if isinstance(s, ast.Assign) and unparse(s.targets[0]) == "mirror_identifier"]
    ctx.check(seen.get(mir, (None,))[0] == f"{mir}[1] + 1" and seen.get(mir, (None, None))[1] == f"f'{{{ident}}}_mirror'", "Bus.map:mirror-lookup",
              f"every mirror bank resolves to the mirror mapping; found {seen.get(mir)}")
    stores = {canon(mp.node, s.targets[0].slice): canon(mp.node, s.value) for s in walk_no_nested(mp.node) if isinstance(s, ast.Assign) and unparse(s.targets[0]).startswith("self.mappings[")}
    ctx.check(stores.get(ident) == canon(mp.node, ctor[0]) and stores.get(f"f'{{{ident}}}_mirror'") == canon(mp.node, ctor[1]),
              "Bus.map:stores", "the two mappings are stored under the identifiers the lookups use")
    ctx.count("mirror_facts", 5)
    # unmap removes what map stored: the mapping and its mirror (a mirror left behind keeps translating addresses of a range that is gone)
    um = ctx.repo.func(MAPPING, "Bus.unmap")
    uid = um.params()[1]
    removed: set[str] = set()

    def keys_of(node: ast.AST, loopvar: str | None, elts: list[str]) -> None:
        for n in ast.walk(node):
            key = None
            if isinstance(n, ast.Delete):
                for t in n.targets:
                    if isinstance(t, ast.Subscript) and unparse(t.value) == "self.mappings":
                        key = t.slice
            if isinstance(n, ast.Call) and call_name(n) == "self.mappings.pop" and n.args:
                key = n.args[0]
            if key is not None:
                text = canon(um.node, key)
                if loopvar is not None and unparse(key) == loopvar:
                    removed.update(elts)
                else:
                    removed.add(text)

    loops_u = [n for n in walk_no_nested(um.node) if isinstance(n, ast.For)]
    inside_u: set[int] = set()
    for lp_u in loops_u:
        if isinstance(lp_u.iter, (ast.Tuple, ast.List)) and isinstance(lp_u.target, ast.Name):
            keys_of(ast.Module(lp_u.body, []), lp_u.target.id, [canon(um.node, e) for e in lp_u.iter.elts])
            inside_u |= {id(x) for b in lp_u.body for x in ast.walk(b)}
        else:
            raise AnalysisError("Bus.unmap: loop over something else than a literal tuple of identifiers; not modelled")
    for st_u in um.node.body:
        if not isinstance(st_u, ast.For):
            keys_of(st_u, None, [])
    want_u = {uid, f"f'{{{uid}}}_mirror'"}
    ctx.check(removed == want_u, "Bus.unmap:removes-both", f"the mapping and its `_mirror` twin are both removed; keys removed: {sorted(removed)}")


def _callee_params(ctx: Ctx, name: str) -> list[str] | None:
    if name == "Mapping":
        return ctx.repo.func(MAPPING, "Mapping.__init__").params()[1:]
    if name == "Address":
        return ctx.repo.func(MAPPING, "Address.__init__").params()[1:]
    return None


def r3_argument_binding(ctx: Ctx) -> None:
    # positional Name arguments must bind like-named parameters (catches swapped ranges)
    synonyms = {"mirror_bank_range": "bank_range", "logical_address": "logical_value", "addr": "logical_value", "self.bus": "bus", "self": "bus"}
    for fn in ctx.repo.all_functions():
        if not fn.module.name.startswith("a816"):
            continue
        for c in calls_in(fn.node):
            nm = call_name(c)
            if nm not in ("Mapping", "Address"):
                continue
            params = _callee_params(ctx, nm)
            assert params is not None
            for p, a in zip(params, c.args):
                an = unparse(a)
                if isinstance(a, (ast.Name, ast.Attribute)) :
                    ctx.count("bound_arguments")
                    base = synonyms.get(an, an)
                    ctx.check(base == p or (p == "bus" and base.endswith("bus")), f"{fn.where}:{nm}({p}={an})", f"positional argument `{an}` binds parameter `{p}`")
    ctx.floor("bound_arguments", 5)
    # .map key plumbing
    pm = ctx.repo.func("a816.parse.parser_states", "parse_map")
    written: set[str] | None = None
    for n in walk_no_nested(pm.node):
        if isinstance(n, ast.Compare) and isinstance(n.ops[0], (ast.In, ast.NotIn)):
            coll: ast.AST | None = n.comparators[0]
            if isinstance(coll, ast.Name):  # a module-level literal (frozenset / tuple) bound once
                mi_ = pm.module
                coll = mi_.assigns.get(coll.id) if sum(1 for n_, _s in mi_.assigns_all if n_ == coll.id) == 1 else None
                if isinstance(coll, ast.Call) and call_name(coll) in ("frozenset", "tuple", "set") and len(coll.args) == 1:
                    coll = coll.args[0]
            if isinstance(coll, (ast.Set, ast.List, ast.Tuple)) and all(const_str(e) is not None for e in coll.elts):
                written = {const_str(e) for e in coll.elts}  # type: ignore[misc]
    if written is None:
        raise AnalysisError("parse_map: accepted key set not found")
    gm = ctx.repo.func("a816.parse.codegen", "generate_map")
    call = [c for c in calls_in(gm.node) if (call_name(c) or "").endswith(".map")]
    if len(call) != 1:
        raise AnalysisError("generate_map: expected one bus.map call")
    params = ctx.repo.func(MAPPING, "Bus.map").params()[1:]
    want = {"identifier": "identifier", "bank_range": "bank_range", "address_range": "addr_range", "mask": "mask",
            "writeable": "writable", "mirror_bank_range": "mirror_bank_range"}
    bound = {p: a for p, a in zip(params, call[0].args)}
    bound.update({k.arg: k.value for k in call[0].keywords if k.arg})
    for p, key in want.items():
        ctx.count("map_keys")
        a = bound.get(p)
        keys = {const_str(x.slice) for x in ast.walk(a) if isinstance(x, ast.Subscript)} | \
               {const_str(x.args[0]) for x in ast.walk(a) if isinstance(x, ast.Call) and isinstance(x.func, ast.Attribute) and x.func.attr == "get" and x.args} if a is not None else set()
        ctx.check(keys == {key}, f"generate_map:{p}", f"Bus.map parameter `{p}` receives the `.map` attribute {sorted(k for k in keys if k)}; must be `{key}`")
        ctx.check(key in written, f"parse_map:{key}", "the parser accepts the attribute the generator reads")
    # attribute values are NUMBER tokens (decimal, 0x hexadecimal, 0b binary): they are decoded base-aware
    n_dec = 0
    for c in calls_in(pm.node):
        if not (c.args and isinstance(c.args[0], ast.Attribute) and c.args[0].attr == "value"):
            continue
        cn = call_name(c) or ""
        if cn in ("expect_token", "accept_token", "ParserSyntaxError", "cast", "len", "str"):
            continue
        n_dec += 1
        base = unparse(c.args[1]) if len(c.args) > 1 else (unparse(kwarg(c, "base")) if kwarg(c, "base") is not None else None)
        if cn in ("ast.literal_eval", "literal_eval", "eval_number") or (cn == "int" and base == "0"):
            ctx.ok(f"parse_map:{unparse(c)[:40]}", "decodes the literal in the base its prefix says")
        elif cn == "int":
            ctx.fail(f"parse_map:{unparse(c)[:40]}", f"reads every `.map` number in base {base or 10}: a literal written in another base the scanner accepts "
                     "(decimal / 0x / 0b) is misread or refused, so the mapping differs from the one written")
        else:
            raise AnalysisError(f"parse_map: number decoder `{unparse(c)[:50]}` not modelled")
    ctx.count("map_number_decoders", n_dec)
    ctx.floor("map_number_decoders", 2)
    wdef = [x for x in ast.walk(bound["writeable"]) if isinstance(x, ast.Call)] if "writeable" in bound else []
    ctx.check(bool(wdef) and len(wdef[0].args) == 2 and unparse(wdef[0].args[1]) == "False", "generate_map:writable-default", "a map is read-only (ROM) unless declared writable")


def ram_has_no_offset(ctx: Ctx) -> None:
    pa = ctx.repo.func(MAPPING, "Mapping.physical_address")
    pf = return_facts(pa)

    def ram_cond(c: frozenset) -> bool | None:
        """True = this return is reached only for writable mappings, False = only for read-only ones"""
        for t, pol in c:
            if t == "self.writable is False":
                return not pol
            if t in ("self.writable", "self.writable is True"):
                return pol
        return None

    none_facts = [f for f in pf if f[0] == "None"]
    value_facts = [f for f in pf if f[0] != "None"]
    ok = bool(none_facts) and bool(value_facts) and all(ram_cond(c) is True for _v, c in none_facts) and all(ram_cond(c) is False for _v, c in value_facts)
    ctx.check(ok, "Mapping.physical_address:ram-has-no-offset", f"returns None exactly for writable (RAM) mappings and an offset for ROM; found: {show_facts(pf)}")


def r4_rejection(ctx: Ctx) -> None:
    gm = ctx.repo.func(MAPPING, "Bus.get_mapping_for_bank")
    rets = returns_of(gm.node)
    got = canon(gm.node, rets[0].value) if len(rets) == 1 else None
    ctx.check(got == f"self.mappings[self.lookup[{gm.params()[1]}]]", "Bus.get_mapping_for_bank", f"plain subscripts: an unmapped bank raises KeyError; found `{got}`", fact=".get(" in got or "next(" in got)
    for t in [n for n in walk_no_nested(gm.node) if isinstance(n, ast.Try)]:
        ctx.fail("Bus.get_mapping_for_bank:try", "a handler can turn an unmapped bank into some mapping")
    ram_has_no_offset(ctx)
    init = ctx.repo.func(MAPPING, "Mapping.__init__")
    st = {unparse(n.targets[0]): unparse(n.value) for n in walk_no_nested(init.node) if isinstance(n, ast.Assign)}
    P = init.params()
    ctx.check(st.get("self.bank_range") == P[1] and st.get("self.address_range") == P[2] and st.get("self.mask") == P[3] and st.get("self.writable") == P[4],
              "Mapping.__init__:fields", f"fields hold the like-named arguments; found {st}")
    ad = ctx.repo.func(MAPPING, "Address.__add__")
    af = _add_facts(ad)
    phys = "self._get_mapping().physical_address(self.logical_value) is None"
    rom = [f for f in af if (phys, False) in f[1]]
    ram = [f for f in af if (phys, True) in f[1]]
    ctx.check(bool(rom) and bool(ram) and len(af) == len(rom) + len(ram), "Address.__add__:rom-vs-ram",
              f"branches on whether the address has a file offset; found: {show_facts(af)}")
    ai = ctx.repo.func(MAPPING, "Address.__init__")
    st = {unparse(n.targets[0]): unparse(n.value) for n in walk_no_nested(ai.node) if isinstance(n, (ast.Assign, ast.AnnAssign)) for _ in [0] if (isinstance(n, ast.Assign) or n.value is not None)} if False else {}
    for n in walk_no_nested(ai.node):
        if isinstance(n, ast.Assign):
            st[unparse(n.targets[0])] = unparse(n.value)
        elif isinstance(n, ast.AnnAssign) and n.value is not None:
            st[unparse(n.target)] = unparse(n.value)
    ctx.check(st.get("self.mapping") == "self._get_mapping()", "Address.__init__:resolves-bank", "constructing an address resolves its bank's mapping (unmapped banks are rejected at once)")
    gmap = ctx.repo.func(MAPPING, "Address._get_mapping")
    r = returns_of(gmap.node)
    ctx.check(len(r) == 1 and unparse(r[0].value) == "self.bus.get_mapping_for_bank(self._get_bank())", "Address._get_mapping", "mapping of the address's own bank on its bus")
    gb = ctx.repo.func(MAPPING, "Address._get_bank")
    r = returns_of(gb.node)
    ctx.check(len(r) == 1 and show(poly(r[0].value)) == show(poly_of_source("self.logical_value >> 16")), "Address._get_bank", "bank = address >> 16")
    ctx.count("rejection_facts", 7)


def _leaves(p) -> set:
    """identifier-like leaves (names, attributes, subscripts) mentioned anywhere in a polynomial's atoms"""
    import re as _re
    out = set()
    for a in atoms(p):
        out |= set(_re.findall(r"[A-Za-z_][A-Za-z_0-9.]*(?:\[[0-9]+\])?", a)) - {"and", "or", "xor", "inv", "shr", "shl", "fdiv", "mod", "div", "pow"}
    return out


MAPPING_FIELDS = {"self.address_range[0]", "self.address_range[1]", "self.bank_range[0]", "self.bank_range[1]", "self.mask"}


def _fields_independent(ctx: Ctx) -> bool:
    """Mapping.__init__ stores bank_range, address_range and mask unchanged from its own parameters (so they vary independently)"""
    init = ctx.repo.func(MAPPING, "Mapping.__init__")
    stored = {unparse(a.targets[0]): unparse(a.value) for a in walk_no_nested(init.node) if isinstance(a, ast.Assign) and len(a.targets) == 1}
    return all(stored.get(f"self.{f}") == f and f in init.params() for f in ("bank_range", "address_range", "mask"))


REF_FORMULAS = {
    # function -> (parameter name, reference formula over self.* and the parameter)
    "Mapping.physical_address": "((value >> 16) - self.bank_range[0]) * self.mask + (value & ~self.mask & 0xFFFF)",
    "Mapping.logical_address": "((value // self.mask) + self.bank_range[0]) << 16 | (self.mask & 0xFFFF) + value % self.mask",
}


def _add_facts(ad) -> set:
    """{(new logical address expression, conditions)} of Address.__add__, whichever way it is laid out"""
    rf = return_facts(ad)
    out = set()
    for v, c in rf:
        if v.startswith("Address(self.bus, ") and v.endswith(")"):
            inner = v[len("Address(self.bus, "):-1]
            if inner.isidentifier():
                for v2, c2 in assign_facts(ad, inner):
                    out.add((v2, frozenset(c | c2)))
            else:
                out.add((inner, c))
        else:
            raise AnalysisError(f"Address.__add__: returns `{v[:60]}`, not an Address on the same bus")
    return out


def r5_formula_normal_form(ctx: Ctx) -> None:
    for q, ref_src in REF_FORMULAS.items():
        fn = ctx.repo.func(MAPPING, q)
        env = single_assignments(fn.node)
        rets = [r.value for r in returns_of(fn.node) if r.value is not None and unparse(r.value) != "None"]
        if len(rets) != 1:
            raise AnalysisError(f"{q}: expected one value return")
        p = fn.params()[1]
        ref = poly_of_source(ref_src.replace("value", p))
        got = poly(rets[0], env)
        ctx.count("formulas")
        if got == ref:
            ctx.ok(q + ":formula", show(got)[:160])
        elif _leaves(got) <= _leaves(ref):
            ctx.fail(q + ":formula", f"computes {show(got)[:200]}; the bus law is {show(ref)[:200]}")
        elif all(x in MAPPING_FIELDS for x in _leaves(got) - _leaves(ref)) and _fields_independent(ctx):
            # the other constructor parameters of a Mapping are chosen freely by `.map` / Bus.map: two different polynomials over independent
            # parameters differ for some mapping a user can declare (the built-in tables may happen to agree)
            ctx.fail(q + ":formula", f"computes {show(got)[:200]}, which brings in {sorted(_leaves(got) - _leaves(ref))}; the bus law is {show(ref)[:200]} "
                     "(the two agree only for mappings whose parameters happen to coincide)")
        else:
            raise AnalysisError(f"{q}: formula uses terms outside the reference vocabulary ({sorted(_leaves(got) - _leaves(ref))[:4]}); cannot compare")
    ad = ctx.repo.func(MAPPING, "Address.__add__")
    other = ad.params()[1]
    af = _add_facts(ad)
    phys = "self._get_mapping().physical_address(self.logical_value) is None"
    rom = {v for v, c in af if (phys, False) in c}
    ram = {v for v, c in af if (phys, True) in c}
    want_rom = f"self._get_mapping().logical_address(self._get_mapping().physical_address(self.logical_value) + {other})"
    rom_ok = len(rom) == 1 and show(poly(ast.parse(next(iter(rom)), mode="eval").body)) == show(poly_of_source(want_rom))
    ram_ok = len(ram) == 1 and show(poly(ast.parse(next(iter(ram)), mode="eval").body)) == show(poly_of_source(f"self.logical_value + {other}"))
    ctx.check(rom_ok, "Address.__add__:advance-rom", f"ROM: the address whose offset is offset+n in the address's own mapping; found {sorted(rom)}")
    ctx.check(ram_ok, "Address.__add__:advance-ram", f"RAM: address+n; found {sorted(ram)}")
    ph = ctx.repo.func(MAPPING, "Address.physical")
    r = returns_of(ph.node)
    ctx.check(len(r) == 1 and unparse(r[0].value) == "self.mapping.physical_address(self.logical_value)", "Address.physical", "offset of this address through its mapping")
    ctx.floor("formulas", 2)



def r6_user_bus_is_per_resolver(ctx: Ctx) -> None:
    """`.map` definitions belong to one Resolver: its bus is created in the constructor body, never shared through a default
    argument or a module object; get_bus prefers it exactly when it has mappings."""
    init = ctx.repo.func(SYMBOLS, "Resolver.__init__")
    st = [n for n in walk_no_nested(init.node) if isinstance(n, (ast.Assign, ast.AnnAssign)) and unparse(n.targets[0] if isinstance(n, ast.Assign) else n.target) == "self.bus"]
    ok = len(st) == 1 and isinstance(st[0].value, ast.Call) and call_name(st[0].value) == "Bus" and not st[0].value.args
    ctx.check(ok, "Resolver.__init__:self.bus", f"a fresh, empty Bus() per Resolver; found `{unparse(st[0].value) if st else None}`")
    a = init.node.args
    for d in list(a.defaults) + [k for k in a.kw_defaults if k is not None]:
        ctx.check(not isinstance(d, ast.Call), f"Resolver.__init__:default {unparse(d)[:30]}", "a default argument built by a call is created once and shared by every Resolver")
    gb = ctx.repo.func(SYMBOLS, "Resolver.get_bus")
    gf = return_facts(gb)
    want = {("self.bus", frozenset({("self.bus.has_mappings()", True)})), ("BUS_MAPPING[self.rom_type]", frozenset({("self.bus.has_mappings()", False)}))}
    ctx.check(gf == want, "Resolver.get_bus:prefers-user-bus", f"the user bus is used exactly when it has mappings; found: {show_facts(gf)}")
    hm = ctx.repo.func(MAPPING, "Bus.has_mappings")
    r = returns_of(hm.node)
    ctx.check(len(r) == 1 and unparse(r[0].value) in ("self.mappings != {}", "bool(self.mappings)", "len(self.mappings) > 0"), "Bus.has_mappings", "true iff some mapping was defined")


def rb_binding_agreement(ctx: Ctx) -> None:
    from ..ownership import binding_agreement

    binding_agreement(ctx)


def rm_no_process_lifetime_results(ctx: Ctx) -> None:
    """memoising decorators, module-level stores and mutable defaults on this property's mechanism (shared rule, caches.py)"""
    from ..caches import state_rule

    state_rule(ctx)


def ru_names_bound(ctx: Ctx) -> None:
    """a local read but never bound raises NameError for every input that reaches the statement (shared rule, names.py)"""
    from ..names import names_rule

    names_rule(ctx)



def r7_selected_mapping_is_applied(ctx: Ctx) -> None:
    """the mapping a front end was asked for is the one the bus laws are evaluated with: both file entry points select it before assembling
    (shared with C12.R1)"""
    from .c12 import mapping_applied

    mapping_applied(ctx)


RULES = [r1_builtin_maps, r2_mirror_construction, r3_argument_binding, r4_rejection, r5_formula_normal_form, r6_user_bus_is_per_resolver, r7_selected_mapping_is_applied, rb_binding_agreement, rm_no_process_lifetime_results, ru_names_bound]
