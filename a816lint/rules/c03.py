"""C03 — output holds exactly the emitted bytes at their mapped offsets (block-assembly clause)."""
from __future__ import annotations

import ast

from ..cfg import CFG, EXIT
from ..core import AnalysisError, calls_in, call_name, dotted, unparse, walk_no_nested
from ..facts import assign_facts, return_facts, show
from ..match import canonical_statements
from ..report import Ctx
from ..terms import NODES, node_class_terms

LEVEL = "other"
PROGRAM = "a816.program"
SYMBOLS = "a816.symbols"
EXPLANATION = (
    "Shape of Program.emit, the only producer of writer calls: who may call write_block / assign Resolver.pc / call "
    "set_position; accumulate-then-flush typestate of current_block (append in order, flush before every reset and at "
    "exit, flush only on *=, block address read from resolver.pc after the position node ran); sibling agreement of the "
    "position nodes' emit and pc_after; set_position moves the file offset only for ROM targets."
)
ASSUMPTIONS = ["logical->physical arithmetic (Mapping.physical_address / Address.__add__) is a value law, not decided here (C04 residue)"]

NONEMPTY_TESTS = ("len(current_block) > 0", "current_block", "len(current_block)", "current_block != b''", "len(current_block) != 0",
                  "len(current_block) >= 1")


def r1_who_may_call(ctx: Ctx) -> None:
    repo = ctx.repo
    allowed_wb = {"a816.program:Program.emit"}
    allowed_pc = {"a816.symbols:Resolver.__init__", "a816.symbols:Resolver.set_position", "a816.program:Program.resolver_reset",
                  "a816.program:Program.emit"}
    allowed_sp = {"a816.symbols:Resolver.__init__", "a816.parse.nodes:CodePositionNode.emit", "a816.parse.nodes:RelocationAddressNode.emit"}
    allowed_ra = {"a816.symbols:Resolver.set_position", "a816.program:Program.emit"}
    for fn in repo.all_functions():
        if not fn.module.name.startswith("a816"):
            continue
        for c in calls_in(fn.node):
            if isinstance(c.func, ast.Attribute) and c.func.attr == "write_block":
                ctx.count("write_block_calls")
                ctx.check(fn.fq in allowed_wb, f"{fn.where}:{unparse(c)[:50]}", "write_block is called only from Program.emit (a second producer writes bytes no statement emitted)")
            if isinstance(c.func, ast.Attribute) and c.func.attr == "set_position":
                ctx.count("set_position_calls")
                ctx.check(fn.fq in allowed_sp, f"{fn.where}:{unparse(c)[:50]}", "set_position is called only by the resolver constructor and the two position nodes' emit")
        for n in walk_no_nested(fn.node):
            tgts: list[ast.AST] = []
            if isinstance(n, ast.Assign):
                tgts = list(n.targets)
            elif isinstance(n, (ast.AugAssign, ast.AnnAssign)):
                tgts = [n.target]
            for t in tgts:
                for sub in ast.walk(t):
                    if isinstance(sub, ast.Attribute) and isinstance(sub.ctx, ast.Store):
                        recv = unparse(sub.value)
                        if sub.attr == "pc" and (recv.endswith("resolver") or (recv == "self" and fn.cls and fn.cls.name == "Resolver")):
                            ctx.count("pc_writes")
                            ctx.check(fn.fq in allowed_pc, f"{fn.where}:{unparse(n)[:50]}", "the output offset is written only by set_position, resolver_reset and Program.emit")
                        if sub.attr == "reloc_address" and isinstance(n, (ast.Assign, ast.AugAssign)):
                            ctx.count("reloc_writes")
                            ctx.check(fn.fq in allowed_ra, f"{fn.where}:{unparse(n)[:50]}", "the run address is written only by set_position and Program.emit")
    ctx.floor("write_block_calls", 2)
    ctx.floor("pc_writes", 2)
    ctx.floor("set_position_calls", 2)


def emit_canonical(pe_node: ast.FunctionDef) -> ast.FunctionDef:
    """Program.emit with its three working locals renamed to the names the rules speak of, whatever a refactoring calls them:
    node_bytes (what `node.emit(...)` returned), current_block / current_block_addr (the two arguments of the pending-block
    write, i.e. of a `write_block(Name, Name)` call that occurs more than once or outside any IncludeIpsNode arm)."""
    import copy

    fn = copy.deepcopy(pe_node)
    ren: dict[str, str] = {}
    for n in walk_no_nested(fn):
        if isinstance(n, ast.Assign) and len(n.targets) == 1 and isinstance(n.targets[0], ast.Name) and isinstance(n.value, ast.Call) \
                and isinstance(n.value.func, ast.Attribute) and n.value.func.attr == "emit" and unparse(n.value.func.value) == "node":
            ren[n.targets[0].id] = "node_bytes"
    pairs: dict[tuple[str, str], int] = {}
    for c in calls_in(fn):
        if isinstance(c.func, ast.Attribute) and c.func.attr == "write_block" and len(c.args) == 2 and all(isinstance(a, ast.Name) for a in c.args):
            k = (c.args[0].id, c.args[1].id)  # type: ignore[union-attr]
            pairs[k] = pairs.get(k, 0) + 1
    top = [c for st in fn.body if not isinstance(st, ast.For) for c in calls_in(st) if isinstance(c.func, ast.Attribute) and c.func.attr == "write_block"
           and len(c.args) == 2 and all(isinstance(a, ast.Name) for a in c.args)]
    best = None
    if top:
        best = (top[-1].args[0].id, top[-1].args[1].id)  # type: ignore[union-attr]
    elif pairs:
        best = max(pairs, key=lambda k: pairs[k])
    if best and best[0] != best[1]:
        ren[best[0]] = "current_block"
        ren[best[1]] = "current_block_addr"
    clash = {x.id for x in ast.walk(fn) if isinstance(x, ast.Name)} & (set(ren.values()) - set(ren))
    if clash - set(ren):
        return fn  # a target name is already used for something else: leave as written
    for x in ast.walk(fn):
        if isinstance(x, ast.Name) and x.id in ren:
            x.id = ren[x.id]
    return fn


def _is_flush(st: ast.stmt) -> bool:
    return (isinstance(st, ast.If) and unparse(st.test) in NONEMPTY_TESTS and not st.orelse and len(st.body) == 1
            and isinstance(st.body[0], ast.Expr) and unparse(st.body[0].value) == "writer.write_block(current_block, current_block_addr)")


def r2_accumulate_then_flush(ctx: Ctx) -> None:
    import copy as _copy

    pe0 = ctx.repo.func(PROGRAM, "Program.emit")
    if pe0.params()[1:] != ["program", "writer"]:
        raise AnalysisError("Program.emit signature changed")
    pe = _copy.copy(pe0)
    pe.node = emit_canonical(pe0.node)
    body = pe.node.body
    loops = [s for s in body if isinstance(s, ast.For)]
    if len(loops) != 1:
        raise AnalysisError("Program.emit: expected one loop")
    lp = loops[0]
    # (a) current_block is only ever initialised empty and appended to
    for n in walk_no_nested(pe.node):
        if isinstance(n, ast.Assign) and any(unparse(t) == "current_block" for t in n.targets):
            ctx.count("block_writes")
            ctx.check(unparse(n.value) in ("b''",), f"Program.emit:{unparse(n)[:50]}", "current_block is only reset to empty")
        if isinstance(n, ast.AugAssign) and unparse(n.target) == "current_block":
            ctx.count("block_writes")
            ctx.check(isinstance(n.op, ast.Add) and unparse(n.value) == "node_bytes", f"Program.emit:{unparse(n)[:50]}",
                      "bytes are appended after what is already in the block (source order)")
    nb = [n for n in walk_no_nested(lp) if isinstance(n, ast.Assign) and unparse(n.targets[0]) == "node_bytes"]
    ctx.check(len(nb) == 1 and call_name(nb[0].value) == "node.emit", "Program.emit:node_bytes", "node_bytes is the node's own emit() result")
    appended = [n for n in walk_no_nested(lp) if isinstance(n, ast.AugAssign) and unparse(n.target) == "current_block"]
    ctx.check(len(appended) == 1, "Program.emit:append-once", "each node's bytes are appended exactly once")
    # (b) every reset and the exit are preceded by the guarded flush
    resets = []
    for parent in walk_no_nested(pe.node):
        for field in ("body", "orelse"):
            seq = getattr(parent, field, None)
            if not isinstance(seq, list):
                continue
            for i, st in enumerate(seq):
                if isinstance(st, ast.Assign) and unparse(st.targets[0]) == "current_block" and not (parent is pe.node and i == 0 or _initial(pe.node, st)):
                    resets.append((seq, i, st))
    for seq, i, st in resets:
        ctx.count("flush_sites")
        before = seq[:i]
        flushed = any(_is_flush(b) for b in before)
        # nothing between the flush and the reset may append
        ctx.check(flushed, "Program.emit:flush-before-reset", "current_block is written out (when non-empty) before it is cleared; otherwise its bytes are lost")
    last = body[-1]
    ctx.count("flush_sites")
    ctx.check(_is_flush(last), "Program.emit:flush-at-exit", f"the function ends by writing the pending block; last statement is `{unparse(last)[:60]}`")
    for n in walk_no_nested(pe.node):
        if isinstance(n, (ast.Return,)):
            ctx.fail("Program.emit:early-return", "an early return skips the final flush")
    # (c) the flush inside the loop happens exactly on `*=` nodes, after the node ran
    flush_ifs = [s for s in lp.body if isinstance(s, ast.If) and any(_is_flush(b) for b in s.body)]
    if len(flush_ifs) != 1:
        ctx.fail("Program.emit:flush-condition", f"expected one flush arm in the loop, found {len(flush_ifs)}")
        return
    fi = flush_ifs[0]
    ctx.check(unparse(fi.test) == "isinstance(node, CodePositionNode)", "Program.emit:flush-condition",
              f"a new block starts on `*=` only (`@=` keeps storing contiguously); test is `{unparse(fi.test)}`")
    # isinstance() also answers yes for subclasses: no other node kind may derive from the `*=` node
    cpn = ctx.repo.cls("a816.parse.nodes", "CodePositionNode")
    subs = sorted(c.name for c in ctx.repo.all_classes() if c is not cpn and cpn in ctx.repo.mro(c))
    ctx.check(not subs, "Program.emit:flush-condition:subclasses", f"only the `*=` node is a CodePositionNode; subclasses found: {subs} (they would start a new block too)")
    order = [unparse(s)[:40] for s in lp.body]
    idx_emit = next(i for i, s in enumerate(lp.body) if s is nb[0]) if nb and nb[0] in lp.body else -1
    idx_flush = lp.body.index(fi)
    ctx.check(0 <= idx_emit < idx_flush, "Program.emit:flush-after-node-ran", "the position node's emit() (which moves resolver.pc) runs before the block address is re-read")
    # (d) block address
    addr_assigns = [n for n in walk_no_nested(pe.node) if isinstance(n, ast.Assign) and unparse(n.targets[0]) == "current_block_addr"]
    ctx.check(len(addr_assigns) == 2 and all(unparse(a.value) == "self.resolver.pc" for a in addr_assigns), "Program.emit:block-address-source",
              f"the block address is resolver.pc, read at start and after each *=; found {[unparse(a) for a in addr_assigns]}")
    i_flush = next(i for i, b in enumerate(fi.body) if _is_flush(b))
    cleared = [i for i, b in enumerate(fi.body) if isinstance(b, ast.Assign) and unparse(b.targets[0]) == "current_block" and unparse(b.value) in ("b''", "bytes()")]
    ctx.check(bool(cleared) and cleared[0] > i_flush, "Program.emit:cleared-after-flush",
              "once written, the pending block is emptied: otherwise its bytes are written again in front of the next block")
    in_flush = [a for a in addr_assigns if a in fi.body]
    if in_flush:
        i_fl = next(i for i, b in enumerate(fi.body) if _is_flush(b))
        ctx.check(fi.body.index(in_flush[0]) > i_fl, "Program.emit:address-after-flush", "the old block is written with its own address before the address is replaced")
    else:
        ctx.fail("Program.emit:address-after-flush", "the block address is not re-read in the *= arm")
    # append happens before the flush arm in the loop body (the position node itself emits nothing)
    ctx.check(all(lp.body.index(_top(lp, a)) < idx_flush for a in appended), "Program.emit:append-before-flush", "bytes are appended before the flush test of the same node")
    reset_offset(ctx)


def reset_offset(ctx: Ctx) -> None:
    """label resolution and emission both start from the offset the resolver was created with: resolver_reset puts the output offset
    back to the constructor's default (0), so a program without `*=` is written from the start of the file"""
    rr = ctx.repo.func(PROGRAM, "Program.resolver_reset")
    init = ctx.repo.func("a816.symbols", "Resolver.__init__")
    from ..match import const_int as _ci3

    d = init.node.args.defaults
    default_pc = _ci3(d[0]) if d else None
    sets = [n for n in walk_no_nested(rr.node) if isinstance(n, ast.Assign) and unparse(n.targets[0]).endswith("resolver.pc")]
    if len(sets) != 1 or default_pc is None:
        raise AnalysisError("resolver_reset: assignment of resolver.pc / Resolver default pc not found")
    ctx.check(_ci3(sets[0].value) == default_pc, "resolver_reset:pc", f"the output offset is reset to the resolver's initial offset {default_pc}; it is reset to {unparse(sets[0].value)}")


def _initial(fn: ast.FunctionDef, st: ast.stmt) -> bool:
    return st in fn.body and all(not isinstance(s, (ast.For, ast.While)) for s in fn.body[:fn.body.index(st)])


def _top(lp: ast.For, n: ast.AST) -> ast.stmt:
    for s in lp.body:
        if any(x is n for x in ast.walk(s)):
            return s
    raise AnalysisError("statement not in loop body")


def r3_position_nodes(ctx: Ctx) -> None:
    repo = ctx.repo
    terms = node_class_terms(repo)
    for cname in ("CodePositionNode", "RelocationAddressNode"):
        if cname not in terms:
            raise AnalysisError(f"anchor missing: {cname}")
        ci, et, at, em, pa = terms[cname]
        ctx.count("position_nodes")
        sp = calls_in(em.node, suffix="set_position")
        ctx.check(len(sp) == 1 and at.kind == "jump" and unparse(sp[0].args[0]) == at.value, f"{cname}:same-target",
                  f"emit() moves to {unparse(sp[0].args[0]) if sp else None}, pc_after() to {at.value}")
        ctx.check(len(sp) == 1 and unparse(sp[0].func) == "self.resolver.set_position", f"{cname}:moves-resolver", "emit() calls resolver.set_position")
    sp = repo.func(SYMBOLS, "Resolver.set_position")
    P = sp.params()[1]
    addr_expr = f"self.get_bus().get_address({P})"
    pc_facts = assign_facts(sp, "self.pc")
    want_pc = {(f"{addr_expr}.physical", frozenset({(f"{addr_expr}.physical is None", False)}))}
    ctx.check(pc_facts == want_pc, "Resolver.set_position:pc-only-for-rom",
              f"the file offset moves only when the target has a physical address, and to that address; found: {show(pc_facts)}")
    ra_facts = assign_facts(sp, "self.reloc_address")
    ctx.check(ra_facts == {(addr_expr, frozenset())}, "Resolver.set_position:run-address",
              f"the run address always becomes the bus address of the argument; found: {show(ra_facts)}")
    _statement_routing(ctx)
    gb = repo.func(SYMBOLS, "Resolver.get_bus")
    gf = return_facts(gb)
    want = {("self.bus", frozenset({("self.bus.has_mappings()", True)})), ("BUS_MAPPING[self.rom_type]", frozenset({("self.bus.has_mappings()", False)}))}
    ctx.check(gf == want, "Resolver.get_bus", f"the active mapping is the user bus when it has mappings, else BUS_MAPPING[rom_type]; found: {show(gf)}")


def _statement_routing(ctx: Ctx) -> None:
    """`*=` starts a new output block (Program.emit flushes on CodePositionNode), `@=` only changes the run address: the statement token
    must reach the node class of its own kind -- parser arm -> AST class -> kind string -> generators entry -> node constructed"""
    from ..const import NameRef, module_const
    from ..core import const_str

    repo = ctx.repo
    gens = module_const(repo, "a816.parse.codegen", "generators")
    if not isinstance(gens, dict):
        raise AnalysisError("generators is not a dict literal")
    arms: dict[str, str] = {}
    for fi in repo.module("a816.parse.parser_states").functions.values():
        for n in walk_no_nested(fi.node):
            if isinstance(n, ast.If) and isinstance(n.test, ast.Call) and call_name(n.test) == "accept_token" and len(n.test.args) == 2:
                tok = (dotted(n.test.args[1]) or "").split(".")[-1]
                if tok in ("STAR_EQ", "AT_EQ"):
                    if not (len(n.body) == 1 and isinstance(n.body[0], ast.Return) and isinstance(n.body[0].value, ast.Call)):
                        raise AnalysisError(f"{fi.where}: arm for {tok} is not a single `return parse_...(p)`")
                    if tok in arms:
                        raise AnalysisError(f"two parser arms test {tok}")
                    arms[tok] = call_name(n.body[0].value) or ""
    for tok, sign, want_cls in (("STAR_EQ", "*=", "CodePositionNode"), ("AT_EQ", "@=", "RelocationAddressNode")):
        if tok not in arms:
            raise AnalysisError(f"anchor missing: parser arm for TokenType.{tok}")
        ctx.count("position_statement_routes")
        pf = repo.func("a816.parse.parser_states", arms[tok])
        from ..match import returns_of

        built = {call_name(r.value) for r in returns_of(pf.node) if isinstance(r.value, ast.Call)}
        if len(built) != 1 or len(returns_of(pf.node)) != 1:
            raise AnalysisError(f"{pf.where}: expected one `return <AstNode>(...)`")
        ast_cls = repo.cls("a816.parse.ast.nodes", built.pop() or "")
        sup = [c for c in calls_in(ast_cls.methods["__init__"].node) if call_name(c) == "super().__init__"]
        kind = const_str(sup[0].args[0]) if sup and sup[0].args else None
        g = gens.get(kind) if kind is not None else None
        if not isinstance(g, NameRef):
            raise AnalysisError(f"`{sign}`: kind string of {ast_cls.name} / generators entry not found")
        gf_ = repo.func("a816.parse.codegen", g.name)
        classes = [call_name(c) for c in calls_in(gf_.node) if (call_name(c) or "").endswith("Node") and call_name(c) != "ExpressionNode"]
        if len(classes) != 1:
            raise AnalysisError(f"{gf_.where}: expected exactly one node construction, found {classes}")
        ctx.check(classes[0] == want_cls, f"`{sign}`:node-class",
                  f"`{sign}` is parsed by {pf.name} into {ast_cls.name} (kind {kind!r}); generators[{kind!r}] = {g.name} builds {classes[0]}, "
                  f"and Program.emit starts a new block exactly on CodePositionNode: `{sign}` needs {want_cls}", fact=True)


def r4_writers_place_blocks(ctx: Ctx) -> None:
    """each block handed to a writer lands at its address: IPS record tiling and header packing, SFC seek-then-write"""
    from .c11 import r1_framing, r2_tiling_loop, r3_no_wrap_and_copier
    from .c12 import r4_one_pipeline

    r1_framing(ctx)
    r2_tiling_loop(ctx)
    r3_no_wrap_and_copier(ctx)  # the offset a record is filed under: the block's own, plus the copier displacement when asked for
    sw = ctx.repo.func("a816.writers", "SFCWriter.write_block")
    body = canonical_statements(sw.node)
    ctx.check(body == [f"self.file.seek({sw.params()[2]})", f"self.file.write({sw.params()[1]})"], "SFCWriter.write_block", f"seek to the block's offset, then write the block; found {body}")


def r5_mapping_laws(ctx: Ctx) -> None:
    """each byte goes to the offset the active mapping assigns, code past a bank end continues in the next bank's window
    (the C04.R1 / R2 / R5 obligations: built-in layouts, bank lookup construction, offset formulas and address advance)"""
    from .c04 import r1_builtin_maps, r2_mirror_construction, r5_formula_normal_form
    from .c12 import r2_mapping_choices_total

    r2_mapping_choices_total(ctx)  # "the active address mapping": the mapping name given selects the bus of that name

    r1_builtin_maps(ctx)
    r2_mirror_construction(ctx)
    r5_formula_normal_form(ctx)


def r6_layout_agreement(ctx: Ctx) -> None:
    """bytes sit at the offset of the address they were assembled for only if every statement advances the address by what it emits
    (the C02.R1 obligation)"""
    from .c02 import r1_per_class_length_agreement

    r1_per_class_length_agreement(ctx)


def rb_binding_agreement(ctx: Ctx) -> None:
    from ..ownership import binding_agreement

    binding_agreement(ctx)


def rm_no_process_lifetime_results(ctx: Ctx) -> None:
    """memoising decorators, module-level stores and mutable defaults on this property's mechanism (shared rule, caches.py)"""
    from ..caches import state_rule

    state_rule(ctx)


def ru_names_bound(ctx: Ctx) -> None:
    """a local read but never bound raises NameError for every input that reaches the statement (shared rule, names.py)"""
    from ..names import names_rule

    names_rule(ctx)


RULES = [r1_who_may_call, r2_accumulate_then_flush, r3_position_nodes, r4_writers_place_blocks, r5_mapping_laws, r6_layout_agreement, rb_binding_agreement, rm_no_process_lifetime_results, ru_names_bound]
