"""C07 — data directives emit the exact little-endian bytes of their values (packing / chain / order clauses)."""
from __future__ import annotations

import ast

from ..const import NameRef, module_const
from ..core import AnalysisError, calls_in, call_name, const_str, dotted, unparse, walk_no_nested
from ..match import packed_bytes, want_le_bytes
from ..match import Field, eq_const_test, field_of, if_chain, inline, pack_call, returns_of, single_assignments
from ..report import Ctx
from ..terms import NODES, Term, node_class_terms

LEVEL = "other"
CODEGEN = "a816.parse.codegen"
PSTATES = "a816.parse.parser_states"
EXPLANATION = (
    "For every fixed-width data node class: struct format size, little-endian order and per-field shift/mask normal "
    "form of the packed value; three-way agreement KEYWORDS / parse_keyword arm / generators entry / node class width "
    "for .db .dw .dl .pointer .ascii .incbin; one node per list element in source order; .ascii/.incbin byte sources "
    "and the incbin start/size symbols. Decides packing and plumbing, not file-system behaviour or symbol values."
)
ASSUMPTIONS = ["expression values are computed correctly (C06)", "open()/read() return the file's bytes",
               "layout (addresses) of each directive is the C02 size-agreement clause"]

WIDTHS = {"db": 1, "dw": 2, "dl": 3, "pointer": 3}


def _data_generators(ctx: Ctx) -> dict[str, tuple[str, str]]:
    """directive kind -> (generator function, node class it instantiates per element)"""
    gens = module_const(ctx.repo, CODEGEN, "generators")
    if not isinstance(gens, dict):
        raise AnalysisError("generators is not a dict literal")
    out = {}
    for kind in list(WIDTHS) + ["ascii", "incbin", "text"]:
        g = gens.get(kind)
        if not isinstance(g, NameRef):
            ctx.fail(f"generators[{kind}]", "directive has no code generator entry", rule="C07.R2")
            continue
        fn = ctx.repo.func(CODEGEN, g.name)
        classes = [call_name(c) for c in calls_in(fn.node) if (call_name(c) or "").endswith("Node") and call_name(c) != "ExpressionNode"]
        if len(classes) != 1:
            raise AnalysisError(f"{fn.where}: expected exactly one node construction, found {classes}")
        out[kind] = (g.name, classes[0])
    return out


def r1_field_packing(ctx: Ctx) -> None:
    terms = node_class_terms(ctx.repo)
    gens = _data_generators(ctx)
    for kind, width in WIDTHS.items():
        if kind not in gens:
            continue
        cname = gens[kind][1]
        if cname not in terms:
            raise AnalysisError(f"node class {cname} not found")
        ci, et, at, em, pa = terms[cname]
        ctx.count("data_classes")
        construct = f".{kind}->{cname}"
        if not ctx.check(et == Term("const", width), construct + ":size", f"emits {et}, the directive is {width} byte(s) per value"):
            continue
        rets = [r.value for r in returns_of(em.node) if r.value is not None]
        expr = inline(rets[0], single_assignments(em.node))
        got = packed_bytes(expr)
        want = want_le_bytes("self.value_node.get_value()", width)
        for j, (g, w) in enumerate(zip(got, want)):
            ok = (g.source, g.bit) == (w.source, w.bit) and not g.signed and not g.checked
            ctx.check(ok, f"{construct}:byte{j}", f"emits {g}; truncation to the field (two's complement for negatives), little-endian, needs {w} masked")
    ctx.floor("data_classes", 2)


def r2_directive_chain(ctx: Ctx) -> None:
    kw = module_const(ctx.repo, "a816.parse.scanner_states", "KEYWORDS")
    kwset = set(kw) if isinstance(kw, (set, frozenset, list, tuple)) else None
    if kwset is None:
        raise AnalysisError("KEYWORDS is not a set literal")
    pk = ctx.repo.func(PSTATES, "parse_keyword")
    chain = [st for st in pk.node.body if isinstance(st, ast.If)]
    if len(chain) != 1:
        raise AnalysisError("parse_keyword: expected one if-chain")
    arms, _ = if_chain(chain[0])
    arm_of: dict[str, list[ast.stmt]] = {}
    member_arms: dict[str, list[ast.stmt]] = {}
    for test, body in arms:
        t = eq_const_test(test)
        if t is not None and t[0].endswith(".value"):
            arm_of[t[1]] = body
            continue
        if isinstance(test, ast.Compare) and len(test.ops) == 1 and isinstance(test.ops[0], ast.In) and unparse(test.left).endswith(".value"):
            try:
                from ..const import ConstEval
                vals = ConstEval(ctx.repo, pk.module).ev(test.comparators[0])
            except AnalysisError:
                vals = None
            if isinstance(vals, (tuple, list, set, frozenset)) and all(isinstance(v, str) for v in vals):
                for v in vals:
                    arm_of[v] = body
                    member_arms[v] = body
                continue
        raise AnalysisError(f"parse_keyword: arm test `{unparse(test)}` not modelled")
    gens = _data_generators(ctx)
    terms = node_class_terms(ctx.repo)
    for kind in list(WIDTHS) + ["ascii", "incbin"]:
        ctx.count("directives")
        ctx.check(kind in kwset, f".{kind}:keyword", "directive is a scanner keyword")
        body = arm_of.get(kind)
        if body is None:
            ctx.fail(f".{kind}:parser-arm", "no parse_keyword arm")
            continue
        ret = body[-1]
        if not isinstance(ret, ast.Return) or not isinstance(ret.value, ast.Call):
            raise AnalysisError(f"parse_keyword[{kind}]: arm does not end in a constructor return")
        ctor = call_name(ret.value)
        if kind in WIDTHS:
            k2 = const_str(ret.value.args[0]) if ret.value.args else None
            if k2 is None and kind in member_arms and ret.value.args and unparse(ret.value.args[0]).endswith(".value"):
                k2 = kind  # DataNode(keyword.value, ...) inside a `keyword.value in (...)` arm keeps the directive's own kind
            ctx.check(ctor == "DataNode" and k2 == kind, f".{kind}:ast-kind", f"parsed into DataNode({k2!r}); must keep its own kind so the {WIDTHS[kind]}-byte generator runs")
            src = [s for s in body if isinstance(s, ast.Assign) and call_name(s.value) == "parse_expression_list_inner"]
            direct = len(ret.value.args) > 1 and isinstance(ret.value.args[1], ast.Call) and call_name(ret.value.args[1]) == "parse_expression_list_inner" and not src
            ctx.check(direct or (len(src) == 1 and len(ret.value.args) > 1 and unparse(ret.value.args[1]) == unparse(src[0].targets[0])), f".{kind}:operands",
                      "the parsed expression list is the node's data")
        else:
            want = {"ascii": "AsciiAstNode", "incbin": "IncludeBinaryAstNode"}[kind]
            ctx.check(ctor == want, f".{kind}:ast-kind", f"parsed into {ctor}")
        if kind in gens:
            cname = gens[kind][1]
            if kind in WIDTHS:
                ctx.check(terms[cname][1] == Term("const", WIDTHS[kind]), f".{kind}:generator-width",
                          f"generators[{kind!r}] = {gens[kind][0]} builds {cname} ({terms[cname][1]}); the directive is {WIDTHS[kind]} byte(s) per value")
            else:
                want_cls = {"ascii": "AsciiNode", "incbin": "BinaryNode"}[kind]
                ctx.check(cname == want_cls, f".{kind}:generator-class", f"generators[{kind!r}] builds {cname}")
    # the kind strings of the AST classes route to the same-named generator
    gens_all = module_const(ctx.repo, CODEGEN, "generators")
    for cls, kind in (("AsciiAstNode", "ascii"), ("IncludeBinaryAstNode", "incbin"), ("TextAstNode", "text")):
        ci = ctx.repo.cls("a816.parse.ast.nodes", cls)
        init = ci.methods["__init__"]
        sup = [c for c in calls_in(init.node) if call_name(c) == "super().__init__"]
        k = const_str(sup[0].args[0]) if sup and sup[0].args else None
        ctx.check(k == kind and kind in gens_all, f"{cls}:kind", f"kind string {k!r} selects generators[{kind!r}]")


def r3_order_and_multiplicity(ctx: Ctx) -> None:
    gens = _data_generators(ctx)
    for kind in WIDTHS:
        if kind not in gens:
            continue
        fn = ctx.repo.func(CODEGEN, gens[kind][0])
        ctx.count("list_generators")
        loops = [n for n in walk_no_nested(fn.node) if isinstance(n, (ast.For, ast.While, ast.ListComp, ast.GeneratorExp))]
        construct = f"{fn.qualname}[{kind}]"
        if len(loops) != 1 or not isinstance(loops[0], ast.For):
            raise AnalysisError(f"{fn.where}: expected one plain for-loop over node.data")
        lp = loops[0]
        ctx.check(unparse(lp.iter) == f"{fn.params()[0]}.data", construct + ":iterates", f"iterates `{unparse(lp.iter)}`; must be the directive's list as written (no slice/reverse/dedup)")
        appends = [c for c in calls_in(lp) if isinstance(c.func, ast.Attribute) and c.func.attr == "append"]
        others = [c for c in calls_in(lp) if isinstance(c.func, ast.Attribute) and c.func.attr in ("insert", "extend", "pop", "remove", "reverse", "sort")]
        tgt = unparse(lp.target)
        ok = len(appends) == 1 and not others and f"ExpressionNode({tgt}, " in unparse(appends[0]) and \
            all(not isinstance(s, (ast.If, ast.Continue, ast.Break)) for s in walk_no_nested(lp) if s is not lp)
        ctx.check(ok, construct + ":one-node-per-value", "appends exactly one node built from the loop element, unconditionally")
        rets = returns_of(fn.node)
        ctx.check(len(rets) == 1 and appends and unparse(rets[0].value) == unparse(appends[0].func.value),  # type: ignore[attr-defined]
                  construct + ":returns-list", "returns the list it appended to")
        inside = [r for r in rets if any(x is r for st_ in lp.body for x in ast.walk(st_))]
        ctx.check(not inside, construct + ":returns-after-loop", "the list is returned after the whole directive list was walked (a return inside the loop keeps the first value only)")
    pel = ctx.repo.func(PSTATES, "parse_expression_list_inner")
    muts = [c for c in calls_in(pel.node) if isinstance(c.func, ast.Attribute) and c.func.attr in ("insert", "reverse", "sort", "pop", "remove")]
    apps = [c for c in calls_in(pel.node) if isinstance(c.func, ast.Attribute) and c.func.attr == "append"]
    rets = returns_of(pel.node)
    ctx.check(not muts and len(apps) >= 1 and all(unparse(a.func.value) == unparse(rets[0].value) for a in apps),  # type: ignore[attr-defined]
              "parse_expression_list_inner:encounter-order", "expressions are appended in the order read and returned as is")
    dn = ctx.repo.func("a816.parse.ast.nodes", "DataNode.__init__")
    loops = [n for n in walk_no_nested(dn.node) if isinstance(n, ast.For)]
    ok = len(loops) == 1 and unparse(loops[0].iter) == dn.params()[2] and any(
        isinstance(c.func, ast.Attribute) and c.func.attr == "append" and unparse(c.func.value) == "self.data" and unparse(c.args[0]) == unparse(loops[0].target)
        for c in calls_in(loops[0]))
    ctx.check(ok, "DataNode.__init__:copies-in-order", "self.data receives every element in order")


def quoted_string_strip(ctx: Ctx) -> None:
    pd = ctx.repo.func(PSTATES, "parse_directive_with_quoted_string")
    r = returns_of(pd.node)
    ctx.check(len(r) == 1 and unparse(r[0].value).endswith(".value[1:-1]"), "parse_directive_with_quoted_string", "strips exactly the two quote characters")


def binary_symbols(ctx: Ctx) -> None:
    repo = ctx.repo
    pa = repo.func(NODES, "BinaryNode.pc_after")
    pc = pa.params()[1]
    labels = [c for c in calls_in(pa.node, suffix="add_label")]
    syms = [c for c in calls_in(pa.node, suffix="add_symbol")]
    from ..match import canon as _cn7

    def cargs(c: ast.Call) -> list[str]:
        return [_cn7(pa.node, a) for a in c.args]

    ok_l = len(labels) == 1 and cargs(labels[0]) == ["self.symbol_base", pc]
    ctx.check(ok_l, "BinaryNode.pc_after:start-symbol", f"start symbol is defined at the address before the advance; found {[unparse(l) for l in labels]}")
    ok_s = len(syms) == 1 and len(syms[0].args) == 2 and cargs(syms[0])[0] in ("self.symbol_base + '__size'", "f'{self.symbol_base}__size'") \
        and cargs(syms[0])[1] == "len(self.binary_content)"
    ctx.check(ok_s, "BinaryNode.pc_after:size-symbol", f"<base>__size is the file length; found {[unparse(s) for s in syms]}")


def incbin_symbol_name(ctx: Ctx) -> None:
    """the symbols of `.incbin 'dir/file.bin'` are dir_file_bin and dir_file_bin__size: every `/` and every `.` of the path becomes `_`"""
    init = ctx.repo.func(NODES, "BinaryNode.__init__")
    path = init.params()[1]
    sets_ = [n for n in walk_no_nested(init.node) if isinstance(n, ast.Assign) and unparse(n.targets[0]) == "self.symbol_base"]
    if len(sets_) != 1:
        raise AnalysisError("BinaryNode.__init__: self.symbol_base is not assigned exactly once")
    v = sets_[0].value

    def chain(e: ast.AST) -> tuple[str, dict[str, str]] | None:
        """(root text, {old: new}) of a .replace(old, new) chain of string literals"""
        reps: dict[str, str] = {}
        while isinstance(e, ast.Call) and isinstance(e.func, ast.Attribute) and e.func.attr == "replace" and len(e.args) == 2 \
                and all(isinstance(a, ast.Constant) and isinstance(a.value, str) for a in e.args):
            reps[e.args[0].value] = e.args[1].value  # type: ignore[attr-defined]
            e = e.func.value
        return unparse(e), reps

    from ..match import inline as _inl7, single_assignments as _sa7

    direct = chain(_inl7(v, _sa7(init.node)))
    if direct is not None and direct[0] == path and direct[1]:
        ctx.check(direct[1] == {"/": "_", ".": "_"}, "BinaryNode.__init__:symbol-name", f"`/` and `.` of the path become `_`; replacements found {direct[1]}")
        return
    # accumulated in a loop over the separators: name = path; for sep in (...): name = name.replace(sep, "_")
    if isinstance(v, ast.Name):
        acc = v.id
        loops = [n for n in walk_no_nested(init.node) if isinstance(n, ast.For) and isinstance(n.iter, (ast.Tuple, ast.List, ast.Constant)) and isinstance(n.target, ast.Name)]
        steps = [(lp, s_) for lp in loops for s_ in lp.body if isinstance(s_, ast.Assign) and unparse(s_.targets[0]) == acc]
        if len(steps) == 1:
            lp, st = steps[0]
            seps = [e.value for e in lp.iter.elts] if isinstance(lp.iter, (ast.Tuple, ast.List)) and all(isinstance(e, ast.Constant) for e in lp.iter.elts) else \
                (list(lp.iter.value) if isinstance(lp.iter, ast.Constant) and isinstance(lp.iter.value, str) else None)
            call = st.value
            if seps is not None and isinstance(call, ast.Call) and isinstance(call.func, ast.Attribute) and call.func.attr == "replace" and len(call.args) == 2 \
                    and unparse(call.args[0]) == lp.target.id and isinstance(call.args[1], ast.Constant):
                ctx.check(unparse(call.func.value) == acc, "BinaryNode.__init__:symbol-name:accumulates",
                          f"each separator is replaced in the name built so far; the step reads `{unparse(st)}` (restarting from `{unparse(call.func.value)}` keeps only the last replacement)")
                ctx.check(set(seps) == {"/", "."} and call.args[1].value == "_", "BinaryNode.__init__:symbol-name", f"`/` and `.` of the path become `_`; separators {seps}")
                return
    raise AnalysisError(f"BinaryNode.__init__: symbol name `{unparse(v)[:60]}` is not a replace chain / separator loop over the path")


def r4_text_and_binary(ctx: Ctx) -> None:
    incbin_symbol_name(ctx)
    repo = ctx.repo
    bt = repo.func(NODES, "AsciiNode.binary_text")
    rets = returns_of(bt.node)
    ok = len(rets) == 1 and isinstance(rets[0].value, ast.Call) and call_name(rets[0].value) == "self.text.encode" and \
        rets[0].value.args and const_str(rets[0].value.args[0]) in ("ascii", "us-ascii")
    ctx.check(bool(ok), "AsciiNode.binary_text", "the text's ASCII encoding")
    quoted_string_strip(ctx)
    init = repo.func(NODES, "BinaryNode.__init__")
    opens = calls_in(init.node, "open")
    mode = None
    if opens:
        mode = const_str(opens[0].args[1]) if len(opens[0].args) > 1 else None
    ctx.check(len(opens) == 1 and mode == "rb" and unparse(opens[0].args[0]) == init.params()[1], "BinaryNode.__init__:open", f"opens the named file in binary mode (mode {mode!r})")
    stores = [n for n in walk_no_nested(init.node) if isinstance(n, ast.Assign) and dotted(n.targets[0]) == "self.binary_content"]
    ctx.check(len(stores) == 1 and isinstance(stores[0].value, ast.Call) and (call_name(stores[0].value) or "").endswith(".read") and not stores[0].value.args,
              "BinaryNode.__init__:read", "binary_content is the whole file as read")
    em = repo.func(NODES, "BinaryNode.emit")
    r = returns_of(em.node)
    ctx.check(len(r) == 1 and unparse(r[0].value) == "self.binary_content", "BinaryNode.emit", "emits the bytes read, unchanged")
    binary_symbols(ctx)
    # BinaryNode is skipped in the symbol pass but not in the label pass (its label must exist before references)
    ctx.count("binary_facts", 6)



def r5_layout_agreement(ctx: Ctx) -> None:
    """each directive occupies exactly the number of bytes it emits (the C02.R1 obligation for the data / text / binary node classes)"""
    terms = node_class_terms(ctx.repo)
    for name in ("ByteNode", "WordNode", "LongNode", "PointerNode", "AsciiNode", "AbstractTextNode", "BinaryNode"):
        if name not in terms:
            raise AnalysisError(f"anchor missing: {name}")
        ci, et, at, em, pa = terms[name]
        ctx.count("layout_classes")
        ctx.check(et == at, f"{name}:emit-vs-pc_after", f"emit() yields {et} bytes, pc_after() advances by {at}")


def r6_address_advance(ctx: Ctx) -> None:
    """`occupies exactly that many bytes in the address layout`: advancing an address by the directive's size is the address that
    many bytes further, across any number of bank ends (the C04.R5 obligation; matters for large .incbin files)"""
    from .c04 import r5_formula_normal_form

    r5_formula_normal_form(ctx)


def rb_binding_agreement(ctx: Ctx) -> None:
    from ..ownership import binding_agreement

    binding_agreement(ctx)


def rm_no_process_lifetime_results(ctx: Ctx) -> None:
    """memoising decorators, module-level stores and mutable defaults on this property's mechanism (shared rule, caches.py)"""
    from ..caches import state_rule

    state_rule(ctx)


def ru_names_bound(ctx: Ctx) -> None:
    """a local read but never bound raises NameError for every input that reaches the statement (shared rule, names.py)"""
    from ..names import names_rule

    names_rule(ctx)



def r7_operand_literals_and_strings(ctx: Ctx) -> None:
    """the bytes of a data directive are its operands' values and its string's characters: literal bases (C06.R4) and the quoted-string
    scanner (C17.R4)"""
    from .c06 import r4_literal_bases
    from .c17 import r4_string_characters_all_tested

    r4_literal_bases(ctx)
    r4_string_characters_all_tested(ctx)


def r8_listed_names_are_the_ones_in_scope(ctx: Ctx) -> None:
    """`for each listed expression its value`: a symbol defined next to the directive (`name = expr` in the same block, macro body or loop
    body) is evaluated in the scope it is written in (C08.R6)"""
    from .c08 import r6_macro_arguments_in_caller_scope

    r6_macro_arguments_in_caller_scope(ctx)


def r9_listed_expression_values(ctx: Ctx) -> None:
    """`its value`: operator precedence and associativity of the listed expressions (C06.R1/R2)"""
    from .c06 import r1_precedence_order, r2_associativity

    r1_precedence_order(ctx)
    r2_associativity(ctx)


RULES = [r1_field_packing, r2_directive_chain, r3_order_and_multiplicity, r4_text_and_binary, r5_layout_agreement, r6_address_advance, r7_operand_literals_and_strings, r8_listed_names_are_the_ones_in_scope, r9_listed_expression_values, rb_binding_agreement, rm_no_process_lifetime_results, ru_names_bound]
