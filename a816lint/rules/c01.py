"""C01 — accepted instructions encode exactly as the 65c816 ISA defines (table / packing / width / shape clauses)."""
from __future__ import annotations

import ast
import json
import os

from ..cfg import CFG, always_raises
from ..const import CallVal, EnumVal, module_const
from ..core import AnalysisError, calls_in, call_name, const_str, dotted, unparse, walk_no_nested
from ..isa import load_isa
from ..match import const_int as const_int_
from ..match import packed_bytes, want_le_bytes
from ..match import (Field, last_assignments, eq_const_test, field_of, if_chain, inline, kwarg, pack_call, returns_of,
                     single_assignments)
from ..report import VERIF, Ctx

LEVEL = "proof"
CPU = "a816.cpu.cpu_65c816"
NODES = "a816.parse.nodes"
PSTATES = "a816.parse.parser_states"
EXPLANATION = (
    "Static extraction of the literal opcode table (every mnemonic x addressing mode x index x width slot) compared "
    "entry by entry with an independent hand-written 256-opcode 65c816 matrix; plus structural rules on operand "
    "packing (format size, endianness, field masks), width selection (threshold chain), operand-shape -> addressing "
    "mode facts, and the rejection discipline of the three table lookups. Decides the table/packing/selection "
    "clauses; does not evaluate operand expressions."
)
ASSUMPTIONS = [
    "operand expression values are computed correctly (C06 clause)",
    "the scanner tokenises each operand spelling into the token kinds the parser facts are stated over",
    "refdata/isa_65c816.txt is a faithful copy of the WDC opcode matrix (checked: 256 distinct bytes)",
]


def size_map(ctx: Ctx) -> dict[str, int]:
    init = ctx.repo.func(CPU, "Opcode.__init__")
    for n in ast.walk(init.node):
        if isinstance(n, (ast.Assign, ast.AnnAssign)):
            tgt = n.targets[0] if isinstance(n, ast.Assign) else n.target
            if dotted(tgt) == "self.size_opcode_map" and isinstance(n.value, ast.Dict):
                out = {}
                for k, v in zip(n.value.keys, n.value.values):
                    ks, vi = const_str(k), v.value if isinstance(v, ast.Constant) else None  # type: ignore[arg-type]
                    if ks is None or not isinstance(vi, int):
                        raise AnalysisError("Opcode.size_opcode_map is not a str->int literal")
                    out[ks] = vi
                return out
    raise AnalysisError("anchor missing: Opcode.__init__ does not bind self.size_opcode_map to a dict literal")


def extract_table(ctx: Ctx) -> dict[tuple[str, str, str | None, str], int]:
    """(mnemonic, mode, index, width) -> byte from the snes_opcode_table literal."""
    table = module_const(ctx.repo, CPU, "snes_opcode_table")
    if not isinstance(table, dict):
        raise AnalysisError("snes_opcode_table is not a dict display")
    smap = size_map(ctx)
    slot_width = {v: k for k, v in smap.items()}
    if len(slot_width) != len(smap):
        raise AnalysisError("size_opcode_map maps two widths to one slot")
    repo = ctx.repo
    # kinds of emitter classes, from the class hierarchy
    c_op = repo.cls(CPU, "Opcode")
    c_imp = repo.cls(CPU, "OpcodeWithoutOperand")
    c_rel = repo.cls(CPU, "RelativeJumpOpcode")
    if c_imp not in repo.mro(c_rel):
        raise AnalysisError("RelativeJumpOpcode no longer derives from OpcodeWithoutOperand")
    out: dict[tuple[str, str, str | None, str], int] = {}

    def add(key: tuple[str, str, str | None, str], byte: object, where: str) -> None:
        if not isinstance(byte, int) or isinstance(byte, bool) or not 0 <= byte <= 255:
            ctx.fail(f"table:{where}", f"opcode byte {byte!r} is not a byte", rule="C01.R1")
            return
        if key in out:
            raise AnalysisError(f"table entry {key} extracted twice")
        out[key] = byte

    def emitter(mn: str, mode: str, idx: str | None, val: object) -> None:
        where = f"{mn}/{mode}/{idx or '-'}"
        if not isinstance(val, CallVal):
            raise AnalysisError(f"table entry {where} is not a constructor call: {val!r}")
        if val.func == "Opcode":
            if not val.args or not isinstance(val.args[0], tuple):
                raise AnalysisError(f"table entry {where}: Opcode() first argument is not a list literal")
            for extra_kw, _ in val.kwargs:
                if extra_kw not in ("is_a", "is_x"):
                    raise AnalysisError(f"table entry {where}: unknown Opcode keyword {extra_kw}")
            for slot, byte in enumerate(val.args[0]):
                if byte is None:
                    continue
                if slot not in slot_width:
                    ctx.fail(f"table:{where}", f"slot {slot} has a byte but no width maps to it", rule="C01.R1")
                    continue
                add((mn, mode, idx, slot_width[slot]), byte, f"{where}/{slot_width[slot]}")
        elif val.func == "OpcodeWithoutOperand":
            add((mn, mode, idx, "implied"), val.args[0] if val.args else None, where)
        elif val.func == "RelativeJumpOpcode":
            add((mn, mode, idx, "rel"), val.args[0] if val.args else None, where)
        else:
            raise AnalysisError(f"table entry {where}: unknown emitter class {val.func}")

    for mn, modes in table.items():
        if not isinstance(mn, str) or not isinstance(modes, dict):
            raise AnalysisError(f"snes_opcode_table[{mn!r}] is not str -> dict")
        for mode, val in modes.items():
            if not isinstance(mode, EnumVal) or mode.enum != "AddressingMode":
                raise AnalysisError(f"snes_opcode_table[{mn!r}] key {mode!r} is not an AddressingMode member")
            if isinstance(val, dict):
                for idx, sub in val.items():
                    if not isinstance(idx, str):
                        raise AnalysisError(f"index key {idx!r} of {mn}/{mode.member} is not a string")
                    emitter(mn, mode.member, idx, sub)
            else:
                emitter(mn, mode.member, None, val)
    return out


def r1_table_subset_of_isa(ctx: Ctx) -> None:
    isa, n_isa = load_isa()
    ctx.count("isa_opcodes", n_isa)
    table = extract_table(ctx)
    for key, byte in sorted(table.items(), key=repr):
        mn, mode, idx, width = key
        construct = f"snes_opcode_table[{mn}][{mode}]" + (f"[{idx}]" if idx else "") + f".{width}"
        ctx.count("table_entries")
        if key not in isa:
            ctx.fail(construct, f"the 65c816 defines no `{mn}` in mode {mode}/{idx or '-'} width {width}; "
                                f"the table assembles it as byte 0x{byte:02X}")
        elif isa[key] != byte:
            ctx.fail(construct, f"table byte 0x{byte:02X} but the 65c816 opcode is 0x{isa[key]:02X}")
        else:
            ctx.ok(construct, f"0x{byte:02X}")
    ctx.floor("table_entries", 133)
    # the literal must be what the lookups read: opcode_def / opcode stored unchanged
    init = ctx.repo.func(CPU, "Opcode.__init__")
    stores = [n for n in ast.walk(init.node) if isinstance(n, ast.Assign) and dotted(n.targets[0]) == "self.opcode_def"]
    ctx.check(len(stores) == 1 and unparse(stores[0].value) == init.params()[1], "Opcode.__init__:self.opcode_def",
              "the first constructor argument is stored unchanged as opcode_def")
    gob = ctx.repo.func(CPU, "Opcode.get_opcode_byte")
    subs = [n for n in ast.walk(gob.node) if isinstance(n, ast.Subscript) and dotted(n.value) == "self.opcode_def"]
    okidx = len(subs) == 1 and unparse(subs[0].slice) == f"self.size_opcode_map[{gob.params()[1]}]"
    ctx.check(okidx, "Opcode.get_opcode_byte:slot", "reads opcode_def[size_opcode_map[value_size]] "
              + ("" if okidx else f"(found {[unparse(s) for s in subs]})"))
    init2 = ctx.repo.func(CPU, "OpcodeWithoutOperand.__init__")
    st2 = [n for n in ast.walk(init2.node) if isinstance(n, ast.Assign) and dotted(n.targets[0]) == "self.opcode"]
    ctx.check(len(st2) == 1 and unparse(st2[0].value) == init2.params()[1], "OpcodeWithoutOperand.__init__:self.opcode",
              "constructor argument stored unchanged")
    em = ctx.repo.func(CPU, "OpcodeWithoutOperand.emit")
    rets = returns_of(em.node)
    good = False
    if len(rets) == 1 and rets[0].value is not None:
        pc = pack_call(rets[0].value)
        good = pc is not None and pc[0].size == 1 and pc[0].fields[0][0] == "B" and len(pc[1]) == 1 and unparse(pc[1][0]) == "self.opcode"
        if not good:
            # the same single byte in another spelling: bytes([self.opcode]) / self.opcode.to_bytes(1, ..) (byte-level normal form)
            from ..match import packed_bytes as _pb

            try:
                bs = _pb(rets[0].value)
                good = len(bs) == 1 and bs[0].source == "self.opcode" and bs[0].bit == 0
            except AnalysisError:
                good = False
    ctx.check(good, "OpcodeWithoutOperand.emit", "returns exactly the one opcode byte")
    # no function mutates the table (shared with C19): any subscript-store / del / mutator on snes_opcode_table
    for fn in ctx.repo.all_functions():
        for n in walk_no_nested(fn.node):
            tgt = None
            if isinstance(n, (ast.Assign, ast.AugAssign, ast.Delete)):
                tl = n.targets if isinstance(n, (ast.Assign, ast.Delete)) else [n.target]
                for t in tl:
                    if isinstance(t, ast.Subscript) and "snes_opcode_table" in unparse(t.value):
                        tgt = t
            if isinstance(n, ast.Call) and isinstance(n.func, ast.Attribute) and n.func.attr in (
                    "update", "pop", "clear", "setdefault", "popitem", "__setitem__") and "snes_opcode_table" in unparse(n.func.value):
                tgt = n
            if tgt is not None:
                ctx.fail(f"{fn.where}:{unparse(tgt)[:60]}", "the opcode table is modified at run time, so its literal is not the table in use")


def r2_supported_set_kept(ctx: Ctx) -> None:
    path = os.path.join(VERIF, "refdata", "supported_set.json")
    with open(path) as f:
        ref = json.load(f)
    table = extract_table(ctx)
    have = {(a, b, c, d) for (a, b, c, d) in table}
    for mn, mode, idx, width in ref["tuples"]:
        ctx.count("supported_tuples")
        construct = f"supported:{mn}/{mode}/{idx or '-'}/{width}"
        ctx.check((mn, mode, idx, width) in have, construct,
                  "a combination of the assembler's supported set no longer has a table entry (it is now rejected)")
    ctx.floor("supported_tuples", 146)


def r3_operand_packing(ctx: Ctx) -> None:
    smap = size_map(ctx)
    ev = ctx.repo.func(CPU, "Opcode.emit_value")
    env = single_assignments(ev.node)
    vparam, sparam = ev.params()[1], ev.params()[2]
    arms_found: dict[str, ast.AST] = {}
    tail_default = None
    for st in ev.node.body:
        if isinstance(st, ast.If):
            arms, orelse = if_chain(st)
            for test, body in arms:
                t = eq_const_test(test)
                if t is None or t[0] != sparam or not isinstance(t[1], str):
                    raise AnalysisError(f"emit_value: arm test not `size == <str>`: {unparse(test)}")
                if len(body) != 1 or not isinstance(body[0], ast.Return) or body[0].value is None:
                    raise AnalysisError(f"emit_value: arm {t[1]!r} is not a single return")
                arms_found[t[1]] = body[0].value
            if orelse:
                raise AnalysisError("emit_value: else arm not modelled")
        elif isinstance(st, ast.Return):
            tail_default = st.value
        elif isinstance(st, (ast.Assign, ast.AnnAssign, ast.Expr)):
            continue
        else:
            raise AnalysisError(f"emit_value: statement not modelled: {unparse(st)[:60]}")
    src_expected = f"{vparam}.get_value()"
    for width, slot in sorted(smap.items()):
        construct = f"Opcode.emit_value[{width}]"
        ctx.count("packing_arms")
        if width not in arms_found:
            ctx.fail(construct, f"no arm packs the operand for width {width!r}: falls to the default `{unparse(tail_default)}`")
            continue
        expr = inline(arms_found[width], env)
        got = packed_bytes(expr)
        want = want_le_bytes(src_expected, slot + 1)
        if not ctx.check(len(got) == slot + 1, construct + ":size", f"packs {len(got)} byte(s), width {width!r} needs {slot + 1}"):
            continue
        for j, (g, w) in enumerate(zip(got, want)):
            ok = (g.source, g.bit) == (w.source, w.bit) and not g.signed and not g.checked
            ctx.check(ok, f"{construct}:byte{j}", f"emits {g}; the operand truncated to its width, little-endian, needs {w} (masked, so wider values truncate instead of raising)")
    ctx.floor("packing_arms", 2)
    # Opcode.emit = opcode byte + operand bytes, both keyed by the same width
    em = ctx.repo.func(CPU, "Opcode.emit")
    env = single_assignments(em.node)
    rets = [r for r in returns_of(em.node) if r.value is not None]
    if len(rets) != 1:
        raise AnalysisError("Opcode.emit: expected a single return")
    expr = inline(rets[0].value, env)  # type: ignore[arg-type]
    ok = False
    detail = unparse(expr)
    if isinstance(expr, ast.BinOp) and isinstance(expr.op, ast.Add):
        wexpr = f"guess_value_size({em.params()[1]}, {em.params()[3]})"
        try:
            left = packed_bytes(expr.left)
        except AnalysisError:
            left = []
        ok = (len(left) == 1 and left[0].source == f"self.get_opcode_byte({wexpr})" and left[0].bit == 0 and not left[0].signed
              and unparse(expr.right) == f"self.emit_value({em.params()[1]}, {wexpr})")
    else:
        raise AnalysisError(f"Opcode.emit: return not `opcode byte + operand bytes`: {detail[:100]}")
    ctx.check(ok, "Opcode.emit:concatenation", f"must return pack('B', opcode byte for the chosen width) + operand bytes for the same width; found {detail[:140]}")


def r4_width_selection(ctx: Ctx) -> None:
    g = ctx.repo.func(CPU, "guess_value_size")
    vn, sz = g.params()[0], g.params()[1]
    # find `if size: return size else: return value_node.get_operand_size()`
    found = False
    for st in g.node.body:
        if isinstance(st, ast.If) and unparse(st.test) in (sz, f"{sz} is not None and {sz} != ''", f"{sz} is not None"):
            arms, orelse = if_chain(st)
            t_ret = arms[0][1][-1] if arms[0][1] else None
            rest = orelse or g.node.body[g.node.body.index(st) + 1:]
            f_ret = rest[-1] if rest else None
            ok = (isinstance(t_ret, ast.Return) and unparse(t_ret.value) == sz and isinstance(f_ret, ast.Return)
                  and unparse(f_ret.value) == f"{vn}.get_operand_size()")
            ctx.check(ok, "guess_value_size", "explicit size when given, else the value's inferred operand size")
            found = True
    if not found:
        raise AnalysisError("guess_value_size: `if size:` selection not recognised")
    # every class a value node can be: its effective get_operand_size is evaluated over the finite set of boundary
    # magnitudes (the code only ever compares the measure with integer constants)
    proto = ctx.repo.cls(NODES, "ValueNodeProtocol")
    classes = ctx.repo.subclasses(proto)
    ctx.count("value_node_classes", len(classes))
    for ci in classes:
        has_value = ci.name == "ExpressionNode" or "eval_expression" in unparse(ctx.repo.lookup_method(ci, "get_value").node)  # type: ignore[union-attr]
        if has_value:
            consts = set()
            for c in ctx.repo.mro(ci):
                m = c.methods.get("get_operand_size")
                if m is not None:
                    consts |= {x for x in (const_int_(n) for n in ast.walk(m.node)) if x is not None and x > 8}
            pts = {0, 1, 0xFF, 0x100, 0xFFFF, 0x10000, 0xFFFFFF, 0x1000000}
            for c in consts:
                pts |= {c - 1, c, c + 1}
            for v in sorted(pts):
                got = _eval_size(ctx, ci, 0, {"value": v, "digits": len(hex(v)) - 2})
                want = "b" if v <= 0xFF else "w" if v <= 0xFFFF else "l"
                ctx.count("digit_classes")
                ctx.check(got == want, f"{ci.name}.get_operand_size[value {hex(v)}]", f"selects {got!r}, the smallest width holding {hex(v)} is {want!r}")
        else:
            for digits in range(1, 13):
                got = _eval_size(ctx, ci, 0, {"digits": digits})
                want = "b" if digits <= 2 else "w" if digits <= 4 else "l"
                ctx.count("digit_classes")
                ctx.check(got == want, f"{ci.name}.get_operand_size[{digits} hex digits]", f"selects {got!r}, the smallest holding width is {want!r}")
    ctx.floor("value_node_classes", 2)
    sl = ctx.repo.func(NODES, "ExpressionNode.get_value_string_len")
    rets = returns_of(sl.node)
    ok = len(rets) == 1 and unparse(inline(rets[0].value, single_assignments(sl.node))) in (  # type: ignore[arg-type]
        "len(hex(self.get_value())) - 2", "len(hex(self.get_value())[2:])", "len(f'{self.get_value():x}')")
    ctx.check(ok, "ExpressionNode.get_value_string_len", "number of hex digits of the operand value")
    # both the length prediction and emission take the width from the same call
    for q in ("Opcode.supposed_length", "Opcode.emit"):
        fn = ctx.repo.func(CPU, q)
        cs = calls_in(fn.node, "guess_value_size")
        from ..match import canon as _canon_w, kwarg as _kw_w

        def _bound(c: ast.Call) -> list[str | None]:
            # (value node, size) as the callee receives them, by position or keyword, read through local aliases of the parameters
            return [_canon_w(fn.node, a) if a is not None else None for a in (_kw_w(c, "value_node", 0), _kw_w(c, "size", 1))]

        ok = len(cs) >= 1 and all(_bound(c) == [fn.params()[1], fn.params()[3 if q.endswith("emit") else 2]] for c in cs)
        ctx.check(ok, f"{q}:width-source", "width comes from guess_value_size(value_node, size)")


def _eval_size(ctx: Ctx, ci, skip: int, world: dict) -> str:
    """Abstractly run the class's effective get_operand_size for one representative magnitude.
    world: 'value' (if the node has a numeric value) and 'digits' (its hex digit count)."""
    import operator as op
    impls = [c.methods["get_operand_size"] for c in ctx.repo.mro(ci) if "get_operand_size" in c.methods]
    if skip >= len(impls):
        raise AnalysisError(f"{ci.name}: no get_operand_size implementation")
    fn = impls[skip]
    cmpf = {ast.LtE: op.le, ast.Lt: op.lt, ast.GtE: op.ge, ast.Gt: op.gt, ast.Eq: op.eq, ast.NotEq: op.ne}

    class Ret(Exception):
        def __init__(self, v):
            self.v = v

    def ev(n: ast.AST, env: dict):
        c = const_int_(n)
        if c is not None:
            return c
        if isinstance(n, ast.Constant):
            return n.value
        if isinstance(n, ast.Name):
            if n.id in env:
                return env[n.id]
            raise AnalysisError(f"{fn.where}: name {n.id} not modelled")
        if isinstance(n, ast.Call):
            cn = call_name(n)
            if cn == "self.get_value_string_len":
                return world["digits"]
            if cn == "self.get_value":
                if "value" not in world:
                    raise AnalysisError(f"{fn.where}: uses get_value() on a node class without a numeric model")
                return world["value"]
            if cn == "super().get_operand_size":
                return _eval_size(ctx, ci, skip + 1, world)
            if cn in ("len",) and isinstance(n.args[0], ast.Call) and call_name(n.args[0]) == "hex":
                return len(hex(ev(n.args[0].args[0], env)))
            raise AnalysisError(f"{fn.where}: call {cn} not modelled")
        if isinstance(n, ast.BinOp) and isinstance(n.op, (ast.Sub, ast.Add)):
            a, b = ev(n.left, env), ev(n.right, env)
            return a - b if isinstance(n.op, ast.Sub) else a + b
        if isinstance(n, ast.Compare) and len(n.ops) == 1 and type(n.ops[0]) in cmpf:
            return cmpf[type(n.ops[0])](ev(n.left, env), ev(n.comparators[0], env))
        if isinstance(n, ast.BoolOp):
            vals = [ev(v, env) for v in n.values]
            return all(vals) if isinstance(n.op, ast.And) else any(vals)
        if isinstance(n, ast.UnaryOp) and isinstance(n.op, ast.Not):
            return not ev(n.operand, env)
        if isinstance(n, ast.IfExp):
            return ev(n.body, env) if ev(n.test, env) else ev(n.orelse, env)
        raise AnalysisError(f"{fn.where}: expression `{unparse(n)[:50]}` not modelled")

    def run(body: list[ast.stmt], env: dict) -> None:
        for st in body:
            if isinstance(st, ast.Expr) and isinstance(st.value, ast.Constant):
                continue
            if isinstance(st, ast.AnnAssign) and st.value is None:
                continue
            if isinstance(st, (ast.Assign, ast.AnnAssign)):
                tgt = st.targets[0] if isinstance(st, ast.Assign) else st.target
                if not isinstance(tgt, ast.Name):
                    raise AnalysisError(f"{fn.where}: assignment target not modelled")
                env[tgt.id] = ev(st.value, env)  # type: ignore[arg-type]
            elif isinstance(st, ast.If):
                run(st.body if ev(st.test, env) else st.orelse, env)
            elif isinstance(st, ast.Return):
                raise Ret(ev(st.value, env) if st.value is not None else None)
            else:
                raise AnalysisError(f"{fn.where}: statement {type(st).__name__} not modelled")

    try:
        run(fn.node.body, {})
    except Ret as r:
        return str(r.v)
    raise AnalysisError(f"{fn.where}: falls off the end")


REF_INDEX_MAP = {
    "indirect": "indirect_indexed",
    "indirect_long": "indirect_indexed_long",
    "direct": "direct_indexed",
    "dp_or_sr_indirect_indexed": "stack_indexed_indirect_indexed",
}
# mode assigned in parse_operand_and_addressing <- set of (token, polarity) guards that must enclose it
REF_SHAPES = {
    "immediate": {("SHARP", True)},
    "dp_or_sr_indirect_indexed": {("LPAREN", True), ("ADDRESSING_MODE_INDEX", True)},
    "indirect": {("LPAREN", True), ("ADDRESSING_MODE_INDEX", False)},
    "indirect_long": {("LBRAKET", True)},
    "direct": {("LPAREN", True), ("handler", True)},
}


def _accept_guard(test: ast.AST) -> str | None:
    """accept_token(p.current(), TokenType.X) -> X"""
    if isinstance(test, ast.Call) and call_name(test) == "accept_token" and len(test.args) == 2:
        d = dotted(test.args[1])
        if d and d.startswith("TokenType.") and unparse(test.args[0]).endswith(".current()"):
            return d.split(".")[1]
    return None


def operator_after_paren(ctx: Ctx) -> None:
    poa = ctx.repo.func(PSTATES, "parse_operand_and_addressing")
    # (b'') `(expr)` followed by an operator is not an indirect operand: the test must look at the token AFTER the closing parenthesis
    for t in [n for n in walk_no_nested(poa.node) if isinstance(n, ast.Try)]:
        flat = list(t.body)
        raisers = [i for i, st in enumerate(flat) if isinstance(st, ast.If) and any(isinstance(x, ast.Raise) and "SyntaxError" in unparse(x) for x in st.body)]
        closes = [i for i, st in enumerate(flat) if isinstance(st, ast.Expr) and call_name(st.value) == "expect_token" and "RPAREN" in unparse(st.value)]
        if not raisers or not closes:
            continue
        ctx.count("paren_lookaheads")
        i_r, i_c = raisers[0], closes[-1]
        test = flat[i_r].test
        tok = test.args[0] if isinstance(test, ast.Call) and call_name(test) in ("accept_token", "accept_tokens") and test.args else None
        nexts = sum(1 for st in flat[i_c + 1:i_r] for c in calls_in(st) if call_name(c) == "p.next")
        close_on_current = "p.current()" in unparse(flat[i_c].value)
        if tok is None or not close_on_current:
            raise AnalysisError("parse_operand_and_addressing: operator look-ahead after `)` not modelled")
        ok = (unparse(tok) == "p.peek()" and nexts == 0) or (unparse(tok) == "p.current()" and nexts == 1)
        ctx.check(i_c < i_r and ok, "parse_operand_and_addressing:operator-after-paren",
                  f"the operator test reads the token that follows `)` (peek() while `)` is current, or current() after stepping over it); it reads `{unparse(tok)}` after {nexts} step(s): "
                  "otherwise `lda (1 + 2) * 3` is taken for an indirect operand")


def r5_shape_to_mode(ctx: Ctx) -> None:
    im = module_const(ctx.repo, "a816.parse.ast.nodes", "index_map")
    got = {k.member: v.member for k, v in im.items()} if isinstance(im, dict) else None
    if got is None:
        raise AnalysisError("index_map is not a dict literal")
    for k, v in REF_INDEX_MAP.items():
        ctx.check(got.get(k) == v, f"index_map[{k}]", f"an index after the {k} shape selects {v}; table says {got.get(k)}")
    for k in got:
        if k not in REF_INDEX_MAP:
            ctx.fail(f"index_map[{k}]", f"the {k} shape takes no trailing index on the 65c816; mapped to {got[k]}")
    # (b) guard facts
    poa = ctx.repo.func(PSTATES, "parse_operand_and_addressing")
    facts: set[tuple[str, frozenset]] = set()

    def visit(body: list[ast.stmt], guards: frozenset) -> None:
        for st in body:
            if isinstance(st, ast.If):
                g = _accept_guard(st.test)
                # the re-parse arm of `(expr) <operator>`: reached through the SyntaxError handler in the confirmed layout, or directly under the
                # test for an operator after the closing parenthesis
                if g is None and isinstance(st.test, ast.Call) and call_name(st.test) == "accept_token" and len(st.test.args) == 2 \
                        and (dotted(st.test.args[1]) or "") == "TokenType.OPERATOR" and unparse(st.test.args[0]) in ("p.peek()", "p.current()"):
                    visit(st.body, frozenset(guards | {("handler", True)}))
                    visit(st.orelse, guards)
                    continue
                visit(st.body, frozenset(guards | {(g, True)}) if g else guards)
                is_elif = len(st.orelse) == 1 and isinstance(st.orelse[0], ast.If)
                # an elif arm tests another token: the negative of this test adds nothing to the shape fact
                visit(st.orelse, frozenset(guards | {(g, False)}) if (g and not is_elif) else guards)
            elif isinstance(st, ast.Try):
                visit(st.body, guards)
                for h in st.handlers:
                    visit(h.body, frozenset(guards | {("handler", True)}))
                visit(st.orelse, guards)
            elif isinstance(st, (ast.With, ast.For, ast.While)):
                visit(st.body, guards)
            elif isinstance(st, ast.Assign) and len(st.targets) == 1 and unparse(st.targets[0]) == "addressing_mode":
                d = dotted(st.value)
                if not d or not d.startswith("AddressingMode."):
                    raise AnalysisError(f"parse_operand_and_addressing: addressing_mode assigned from {unparse(st.value)}")
                facts.add((d.split(".")[1], guards))

    visit(poa.node.body, frozenset())
    want_facts = {(m, frozenset(g)) for m, g in REF_SHAPES.items()}
    seen_modes = {m for m, _g in facts}
    if len(seen_modes & set(REF_SHAPES)) * 2 < len(REF_SHAPES):
        raise AnalysisError(f"parse_operand_and_addressing: the shape -> mode selection is not laid out as guarded assignments any more (modes seen: {sorted(seen_modes)}); not modelled")
    for mode, g in sorted(want_facts, key=repr):
        ctx.count("shape_facts")
        ctx.check((mode, g) in facts, f"shape:{mode}", f"{mode} must be selected by the token shape {sorted(g)}; "
                  f"found {sorted((m, sorted(x)) for m, x in facts if m == mode)}")
    for mode, g in sorted(facts - want_facts, key=repr):
        ctx.fail(f"shape:{mode}<-{sorted(g)}", f"operand shape {sorted(g)} selects {mode}, which is not the 65c816 syntax for it")
    # (b') the back-track arm: `(expr) <operator> ...` is re-read as a plain expression FROM WHERE THE OPERAND STARTED
    for t in [n for n in walk_no_nested(poa.node) if isinstance(n, ast.Try)]:
        for h in t.handlers:
            if "SyntaxError" not in unparse(h.type or ast.Constant(None)):
                continue
            ctx.count("backtrack_arms")
            restores = [i for i, st in enumerate(h.body) if isinstance(st, ast.Assign) and unparse(st.targets[0]) == "p.pos"]
            parses = [i for i, st in enumerate(h.body) if isinstance(st, ast.Assign) and isinstance(st.value, ast.Call) and call_name(st.value) == "parse_expression"]
            if not restores and not parses and h.body:
                raise AnalysisError("parse_operand_and_addressing: back-track arm not modelled")
            snap_ok = False
            if restores:
                v = unparse(h.body[restores[0]].value)
                snap_ok = any(isinstance(st, ast.Assign) and unparse(st.targets[0]) == v and unparse(st.value) == "p.pos" for st in walk_no_nested(poa.node))
            ctx.check(bool(restores) and bool(parses) and restores[0] < parses[0] and snap_ok, "parse_operand_and_addressing:backtrack",
                      "the handler puts the token position back to the snapshot taken before the parenthesis and only then re-parses the operand as an expression")
            ctx.check(bool(parses) and unparse(h.body[parses[0]].targets[0]) == "operand", "parse_operand_and_addressing:backtrack-operand",
                      "the re-parsed expression becomes the operand")
    operator_after_paren(ctx)
    # (c) no index component is dropped silently
    po = ctx.repo.func(PSTATES, "parse_opcode")
    ctor = calls_in(po.node, "OpcodeAstNode")
    if len(ctor) != 1:
        raise AnalysisError("parse_opcode: expected exactly one OpcodeAstNode(...) construction")
    idx = kwarg(ctor[0], "index")
    if idx is None:
        raise AnalysisError("parse_opcode: OpcodeAstNode(...) has no index= argument")
    used = {n.id for n in ast.walk(idx) if isinstance(n, ast.Name)}
    for _ in range(3):  # follow plain copies (`index = index_tmp`) back to where the value was read
        for st in walk_no_nested(po.node):
            if isinstance(st, ast.Assign) and len(st.targets) == 1 and isinstance(st.targets[0], ast.Name) and st.targets[0].id in used and isinstance(st.value, ast.Name):
                used.add(st.value.id)
    # sources: tuple-unpacked second result of parse_operand_and_addressing, and `.value` of an index token
    inner = outer = None
    for n in walk_no_nested(po.node):
        if isinstance(n, ast.Assign) and isinstance(n.value, ast.Call) and call_name(n.value) == "parse_operand_and_addressing":
            t = n.targets[0]
            if isinstance(t, ast.Tuple) and len(t.elts) == 3 and isinstance(t.elts[1], ast.Name):
                inner = t.elts[1].id
    for n in walk_no_nested(po.node):
        if isinstance(n, ast.If) and _accept_guard(n.test) == "ADDRESSING_MODE_INDEX":
            for s in n.body:
                if isinstance(s, ast.Assign) and isinstance(s.targets[0], ast.Name) and ".value" in unparse(s.value):
                    # follow one step: index_token = p.next(); index = index_token.value.lower()
                    outer = s.targets[0].id
            outer_if = n
    if inner is None or outer is None:
        raise AnalysisError("parse_opcode: index sources not recognised")
    ctx.check(outer in used, "parse_opcode:index=outer", f"the index written after the operand ({outer}) reaches OpcodeAstNode.index")
    if isinstance(idx, ast.BoolOp) and isinstance(idx.op, ast.Or) and [unparse(v) for v in idx.values] == [outer, inner]:
        # inner is dropped whenever outer is present: a raising check of the pair must sit where outer is read
        allowed = None
        for s in walk_no_nested(outer_if):
            if isinstance(s, ast.If) and s is not outer_if and inner in {x.id for x in ast.walk(s.test) if isinstance(x, ast.Name)} and always_raises(s.body):
                allowed = _allowed_pairs(s.test, inner, outer)
        if allowed is None:
            ctx.fail("parse_opcode:index=inner", f"`{unparse(idx)}` drops the index written inside the parentheses when a trailing "
                     "index follows, with no check: (expr,x),y assembles as (sr,s),y")
        else:
            ctx.check(allowed == {("s", "y")}, "parse_opcode:index=inner",
                      f"inner/outer index pairs let through: {sorted(allowed)}; only (expr,s),y exists on the 65c816")
    elif inner in used:
        ctx.ok("parse_opcode:index=inner", "inner index flows into OpcodeAstNode.index")
    else:
        ctx.fail("parse_opcode:index=inner", f"the index written inside the parentheses ({inner}) never reaches OpcodeAstNode.index")
    # (d) a trailing index after a shape that has no indexed form is rejected: the mode is looked up in index_map by a raising
    #     subscript (or a membership / None test that raises); OpcodeNode._get_emitter ignores the index of a non-indexed mode
    stores = [s for s in walk_no_nested(outer_if) if isinstance(s, ast.Assign) and unparse(s.targets[0]) == "addressing_mode"]
    if len(stores) != 1:
        raise AnalysisError("parse_opcode: expected one re-assignment of addressing_mode under the trailing-index test")
    from ..match import inline as _inl, last_assignments as _la

    v = stores[0].value
    for _ in range(3):
        v = _inl(v, {k: x for k, x in _la(po.node).items() if k != "addressing_mode"})
    ge = ctx.repo.func(NODES, "OpcodeNode._get_emitter")
    gg = CFG(ge.node)
    downstream = False
    for r in [n for n in walk_no_nested(ge.node) if isinstance(n, ast.Raise)]:
        conds = gg.path_conditions(gg.node_of(r), ge.node)
        if any("isinstance" in t and "dict" in t and not pol for t, pol in conds) and (("self.index is None", False) in conds or ("self.index is not None", True) in conds or ("self.index", True) in conds):
            downstream = True
    if isinstance(v, ast.Subscript) and unparse(v.value) == "index_map" and unparse(v.slice) == "addressing_mode":
        ctx.ok("parse_opcode:index-needs-indexed-form", "index_map[addressing_mode] raises for a shape without an indexed form (e.g. `#imm,x`)")
    elif isinstance(v, ast.Call) and call_name(v) == "index_map.get":
        raising = [s for s in walk_no_nested(outer_if) if isinstance(s, ast.If) and always_raises(s.body) and ("index_map" in unparse(s.test) or "addressing_mode" in unparse(s.test))]
        member_guard = any(unparse(x.test) in ("addressing_mode not in index_map", "addressing_mode not in index_map.keys()", "not addressing_mode in index_map") for x in raising)
        if downstream or member_guard or (raising and (len(v.args) == 1 or unparse(v.args[1]) == "None")):
            ctx.ok("parse_opcode:index-needs-indexed-form", "a shape without an indexed form is rejected by an explicit check")
        elif len(v.args) == 2 and unparse(v.args[1]) != "None" and not raising:
            ctx.fail("parse_opcode:index-needs-indexed-form", f"`{unparse(v)}` keeps the mode of a shape that has no indexed form and OpcodeNode._get_emitter ignores the index of "
                     "such a mode: `lda #0x10,x` assembles as `lda #0x10`")
        else:
            raise AnalysisError(f"parse_opcode: trailing-index lookup `{unparse(v)}` not modelled")
    else:
        raise AnalysisError(f"parse_opcode: trailing-index lookup `{unparse(v)[:60]}` not modelled")


def _allowed_pairs(test: ast.AST, inner: str, outer: str) -> set[tuple[str, str]] | None:
    """Pairs (inner, outer) for which the raising test is False, over the index alphabet {x,y,s}."""
    letters = ["x", "y", "s"]

    def ev(n: ast.AST, env: dict[str, str]) -> object:
        if isinstance(n, ast.BoolOp):
            vals = [ev(v, env) for v in n.values]
            return all(vals) if isinstance(n.op, ast.And) else any(vals)
        if isinstance(n, ast.UnaryOp) and isinstance(n.op, ast.Not):
            return not ev(n.operand, env)
        if isinstance(n, ast.Compare) and len(n.ops) == 1:
            a, b = ev(n.left, env), ev(n.comparators[0], env)
            o = n.ops[0]
            if isinstance(o, ast.Eq): return a == b
            if isinstance(o, ast.NotEq): return a != b
            if isinstance(o, ast.Is): return a is b
            if isinstance(o, ast.IsNot): return a is not b
            if isinstance(o, ast.In): return a in b  # type: ignore[operator]
            if isinstance(o, ast.NotIn): return a not in b  # type: ignore[operator]
        if isinstance(n, ast.Name) and n.id in env:
            return env[n.id]
        if isinstance(n, ast.Constant):
            return n.value
        if isinstance(n, (ast.Tuple, ast.List, ast.Set)):
            return tuple(ev(e, env) for e in n.elts)
        raise AnalysisError(f"index-pair check not modelled: {unparse(n)}")

    out = set()
    for a in letters:
        for b in letters:
            if not ev(test, {inner: a, outer: b}):
                out.add((a, b))
    return out


def r6_rejection_discipline(ctx: Ctx) -> None:
    ge = ctx.repo.func(NODES, "OpcodeNode._get_emitter")
    subs = [n for n in walk_no_nested(ge.node) if isinstance(n, ast.Subscript) and isinstance(n.ctx, ast.Load)]
    from ..match import canonical_subscripts

    texts = canonical_subscripts(ge.node)
    # `.get(k)` whose None result is tested and raises is the explicit spelling of a rejecting lookup; its layout is not modelled.
    # `.get` whose result is never tested against None before use is a defaulting lookup: an undefined mode gets some emitter / None.
    gets = [c for c in calls_in(ge.node) if isinstance(c.func, ast.Attribute) and c.func.attr in ("get", "setdefault")]
    none_guards = [i for i in walk_no_nested(ge.node) if isinstance(i, ast.If) and " is None" in unparse(i.test) and any(isinstance(x, ast.Raise) for b in i.body for x in ast.walk(b))]
    guarded_gets = []
    for c in gets:
        if c.func.attr == "get" and len(c.args) == 1:  # type: ignore[union-attr]
            holders = [unparse(a.targets[0]) for a in walk_no_nested(ge.node) if isinstance(a, ast.Assign) and any(x is c for x in ast.walk(a.value))]
            if holders and any(f"{h} is None" in unparse(gd.test) for h in holders for gd in none_guards):
                guarded_gets.append(c)
                continue
            # a value that only feeds another guarded lookup (`m = T.get(a); e = m.get(b) if m is not None else None`)
            if holders and any(f"{h} is not None" in unparse(x) or f"{h} is None" in unparse(x) for h in holders for x in ast.walk(ge.node) if isinstance(x, (ast.IfExp, ast.If))):
                guarded_gets.append(c)
                continue
        ctx.fail(f"_get_emitter:{unparse(c)[:50]}", "a defaulting lookup replaces a rejecting subscript", fact=True)
    if guarded_gets and len(guarded_gets) == len(gets):
        raise AnalysisError("OpcodeNode._get_emitter: lookups are spelled `.get()` + `is None` + raise; the rejection layout is not modelled")
    ctx.check("snes_opcode_table[self.opcode][self.addressing_mode]" in texts, "_get_emitter:mode-lookup",
              f"plain subscript by mnemonic then addressing mode (found {texts})")
    ctx.check(any(t.endswith("[self.index]") for t in texts), "_get_emitter:index-lookup", "plain subscript by index letter")
    for t in [n for n in walk_no_nested(ge.node) if isinstance(n, ast.Try)]:
        for h in t.handlers:
            ctx.check(always_raises(h.body), f"_get_emitter:except {unparse(h.type)}", "handler re-raises (an unknown mode is an error)")
    # an index-keyed dict without an index must raise
    for st in walk_no_nested(ge.node):
        if isinstance(st, ast.If) and "isinstance(opcode_emitter, dict)" in unparse(st.test):
            inner = [s for s in st.body if isinstance(s, ast.If)]
            ok = bool(inner) and (always_raises(inner[0].orelse) or always_raises(inner[0].body))
            ctx.check(ok, "_get_emitter:missing-index", "an indexed mode without an index raises")
    gob = ctx.repo.func(CPU, "Opcode.get_opcode_byte")
    none_checked = False
    for st in walk_no_nested(gob.node):
        if isinstance(st, ast.If) and unparse(st.test) in ("opcode_byte is None",) and always_raises(st.body):
            none_checked = True
    ctx.check(none_checked, "get_opcode_byte:None-slot", "a None slot raises NoOpcodeForOperandSize before any byte is packed")
    for t in [n for n in walk_no_nested(gob.node) if isinstance(n, ast.Try)]:
        for h in t.handlers:
            ctx.check(always_raises(h.body), f"get_opcode_byte:except {unparse(h.type)}", "a missing slot raises")
    em = ctx.repo.func(NODES, "OpcodeNode.emit")
    for t in [n for n in walk_no_nested(em.node) if isinstance(n, ast.Try)]:
        for h in t.handlers:
            ctx.check(always_raises(h.body), f"OpcodeNode.emit:except {unparse(h.type)}", "handler re-raises as NodeError")
    # repo-wide: nobody reads the table through a defaulting accessor
    for fn in ctx.repo.all_functions():
        for c in calls_in(fn.node):
            if isinstance(c.func, ast.Attribute) and c.func.attr == "get" and "snes_opcode_table" in unparse(c.func.value) and fn.fq != ge.fq:
                ctx.fail(f"{fn.where}:{unparse(c)[:60]}", "defaulting lookup in the opcode table")
    ctx.count("lookups", len(subs))



INDEXED_MODES_REF = {"direct_indexed", "indirect_indexed", "indirect_indexed_long", "dp_or_sr_indirect_indexed", "stack_indexed_indirect_indexed"}


def r7_field_plumbing(ctx: Ctx) -> None:
    """parser -> AST node -> code generator -> OpcodeNode -> emitter: every shape component travels in its own field."""
    po = ctx.repo.func(PSTATES, "parse_opcode")
    ctor = calls_in(po.node, "OpcodeAstNode")[0]
    kws = {k.arg: k.value for k in ctor.keywords}
    ctx.check(unparse(kws.get("addressing_mode")) == "addressing_mode", "parse_opcode:addressing_mode", "the mode chosen from the operand shape is stored")
    ctx.check(unparse(kws.get("opcode")) == "opcode.value", "parse_opcode:opcode", "the mnemonic text is stored")
    ctx.check(unparse(kws.get("operand")) == "operand", "parse_opcode:operand", "the operand expression is stored")
    vs = kws.get("value_size")
    ok = isinstance(vs, ast.IfExp) and unparse(vs.body) == "size" and "is_value_size(size)" in unparse(vs.test) and unparse(vs.orelse) == "None"
    ctx.check(ok, "parse_opcode:value_size", f"an explicit valid suffix is stored as the width, else None; found `{unparse(vs)}`")
    sz = [n for n in walk_no_nested(po.node) if isinstance(n, ast.Assign) and unparse(n.targets[0]) == "size" and "value" in unparse(n.value)]
    guard_ok = False
    for st in walk_no_nested(po.node):
        if isinstance(st, ast.If) and "TokenType.OPCODE_SIZE" in unparse(st.test) and sz and sz[0] in st.body:
            guard_ok = True
    ctx.check(guard_ok, "parse_opcode:size-token", "the width comes from the OPCODE_SIZE token")
    isz = ctx.repo.func(PSTATES, "is_value_size")
    lits = [n for n in ast.walk(isz.node) if isinstance(n, (ast.List, ast.Tuple, ast.Set))]
    ok = len(lits) == 1 and {const_str(e) for e in lits[0].elts} == set(size_map(ctx))
    ctx.check(ok, "is_value_size", "valid suffixes are exactly the widths of the opcode table")
    an = ctx.repo.func("a816.parse.ast.nodes", "OpcodeAstNode.__init__")
    st = {unparse(n.targets[0]): unparse(n.value) for n in walk_no_nested(an.node) if isinstance(n, ast.Assign)}
    for f in ("addressing_mode", "opcode", "value_size", "operand", "index"):
        ctx.check(st.get(f"self.{f}") == f, f"OpcodeAstNode.__init__:{f}", "field holds the like-named argument")
    go = ctx.repo.func("a816.parse.codegen", "generate_opcode")
    env = last_assignments(go.node)
    table = extract_table(ctx)
    indexed_in_table = {k[1] for k in table if k[2] is not None}
    ctors = calls_in(go.node, "OpcodeNode")
    ctx.count("OpcodeNode_constructions", len(ctors))
    modes_with_index: set[str] = set()
    for st_ in walk_no_nested(go.node):
        if isinstance(st_, ast.If) and isinstance(st_.test, ast.Compare) and isinstance(st_.test.ops[0], ast.In) and unparse(inline(st_.test.left, env)) == "node.addressing_mode":
            modes_with_index = {(dotted(e) or "").split(".")[-1] for e in st_.test.comparators[0].elts}  # type: ignore[attr-defined]
            with_index_body, without_index_body = st_.body, st_.orelse
    ctx.check(indexed_in_table <= modes_with_index, "generate_opcode:indexed-modes", f"every mode keyed by an index letter in the table ({sorted(indexed_in_table)}) passes the index on; the generator lists {sorted(modes_with_index)}")
    for c in ctors:
        kw = {k.arg: unparse(inline(k.value, env)) for k in c.keywords}
        first = unparse(inline(c.args[0], env)) if c.args else None
        if kw.get("index") == "None":
            del kw["index"]  # index=None spells the constructor's default: the same as leaving the keyword out
        tag = "none" if "value_node" not in kw else ("indexed" if "index" in kw else "plain")
        ctx.check(first == "node.opcode" and kw.get("addressing_mode") == "node.addressing_mode", f"generate_opcode[{tag}]:mnemonic+mode", f"OpcodeNode({first}, addressing_mode={kw.get('addressing_mode')})")
        if tag != "none":
            ctx.check(kw.get("size") == "node.value_size", f"generate_opcode[{tag}]:size", f"the explicit width reaches the node; size={kw.get('size')}")
            ctx.check(kw.get("value_node", "").startswith("ExpressionNode(node.operand, resolver, file_info)"), f"generate_opcode[{tag}]:operand", f"value_node={kw.get('value_node')}")
        if tag == "indexed":
            ctx.check(kw.get("index") == "node.index", "generate_opcode[indexed]:index", f"index={kw.get('index')}")
    ctx.check(any("index" in {k.arg for k in c.keywords} for c in ctors), "generate_opcode:passes-index", "some construction passes the index register")
    # whatever the addressing mode, the statement becomes exactly one OpcodeNode in the returned list
    from ..cfg import ENTRY as _EN, EXIT as _EX

    ggo = CFG(go.node)
    app_nodes = []
    for c in calls_in(go.node):
        if isinstance(c.func, ast.Attribute) and c.func.attr == "append" and c.args and any(x in ctors for x in ast.walk(c.args[0])):
            app_nodes.append(ggo.node_containing(c))
    lit_rets = [r for r in walk_no_nested(go.node) if isinstance(r, ast.Return) and r.value is not None and any(x in ctors for x in ast.walk(r.value))]
    app_nodes += [ggo.node_of(r) for r in lit_rets]
    if not app_nodes:
        raise AnalysisError("generate_opcode: no OpcodeNode is appended / returned")
    rets_ = [ggo.node_of(r) for r in walk_no_nested(go.node) if isinstance(r, ast.Return)]
    missing = [r for r in rets_ if r not in app_nodes and not ggo.every_path_passes(_EN, r, app_nodes, labels_excluded=["exc"])]
    ctx.check(not missing, "generate_opcode:one-node-per-statement", "on every path to the return an OpcodeNode was appended: an addressing-mode arm without one drops the instruction "
              "(implied instructions such as `nop` would emit nothing)")
    twice = [a for a in app_nodes if any(b != a and b in ggo.reachable([m for m, _l in ggo.succ[a]], labels_excluded=["exc"]) for b in app_nodes)]
    ctx.check(not twice, "generate_opcode:one-node-per-statement:once", "no path appends two nodes for one statement")
    on = ctx.repo.func(NODES, "OpcodeNode.__init__")
    st = {unparse(n.targets[0]): unparse(n.value) for n in walk_no_nested(on.node) if isinstance(n, ast.Assign)}
    for f in ("addressing_mode", "index", "value_node", "size"):
        ctx.check(st.get(f"self.{f}") == f, f"OpcodeNode.__init__:{f}", "field holds the like-named argument")
    em = ctx.repo.func(NODES, "OpcodeNode.emit")
    ecall = [c for c in calls_in(em.node) if call_name(c) == "opcode_emitter.emit"]
    from ..match import kwarg as _kw7

    got_e = [unparse(a) if a is not None else None for a in (_kw7(ecall[0], n_, i_) for i_, n_ in enumerate(("value_node", "resolver", "size")))] if len(ecall) == 1 else []
    ctx.check(got_e == ["self.value_node", "self.resolver", "self.size"], "OpcodeNode.emit:arguments", "the emitter receives this node's operand and explicit width")
    ctx.floor("OpcodeNode_constructions", 2)


def r8_lexer_token_facts(ctx: Ctx) -> None:
    lo = ctx.repo.func("a816.parse.scanner_states", "lex_operand")
    pairs: dict[str, str] = {}
    peeked = {unparse(a.targets[0]) for a in walk_no_nested(lo.node) if isinstance(a, ast.Assign) and len(a.targets) == 1 and unparse(a.value) == "s.peek()"}
    for st in walk_no_nested(lo.node):
        if isinstance(st, ast.If):
            arms, _ = if_chain(st)
            for test, body in arms:
                t = eq_const_test(test)
                # the tested expression is the next character: `s.peek()` itself or a local holding it
                if t and isinstance(t[1], str) and (t[0] in peeked or t[0] == "s.peek()"):
                    emits = [(dotted(c.args[0]) or "").split(".")[-1] for b in body for c in calls_in(b) if call_name(c) == "s.emit"]
                    consumes = any(call_name(c) == "s.next" for b in body for c in calls_in(b))
                    if emits and consumes:
                        pairs[t[1]] = emits[0]
    want = {"#": "SHARP", "(": "LPAREN", "[": "LBRAKET", ")": "RPAREN", "]": "RBRAKET"}
    for ch, tok in want.items():
        ctx.count("bracket_tokens")
        ctx.check(pairs.get(ch) == tok, f"lex_operand:{ch}", f"`{ch}` is consumed and emitted as {tok}; found {pairs.get(ch)}")
    seq = []
    for st in lo.node.body:
        u = unparse(st)
        if u == "lex_expression(s)":
            seq.append("expr")
        elif isinstance(st, ast.If) and unparse(st.test) == "s.accept(',')" and st.body and unparse(st.body[0]) == "lex_opcode_index(s)" \
                and all(unparse(b).startswith("s.ignore") for b in st.body[1:]):
            seq.append("index")
        elif isinstance(st, ast.If) and any(t and t[1] in (")", "]") for t in [eq_const_test(a[0]) for a in if_chain(st)[0]]):
            seq.append("close")
        elif isinstance(st, ast.If) and any(t and t[1] in ("(", "[", "#") for t in [eq_const_test(a[0]) for a in if_chain(st)[0]]):
            seq.append("open")
    ctx.check(seq == ["open", "expr", "index", "close", "index"], "lex_operand:order", f"prefix, expression, inner index, closing bracket, outer index; found {seq}")
    li = ctx.repo.func("a816.parse.scanner_states", "lex_opcode_index")
    em = [(dotted(c.args[0]) or "").split(".")[-1] for c in calls_in(li.node) if call_name(c) == "s.emit"]
    ctx.check(em == ["ADDRESSING_MODE_INDEX"], "lex_opcode_index:token", "an index letter becomes an ADDRESSING_MODE_INDEX token")
    ls = ctx.repo.func("a816.parse.scanner_states", "lex_opcode_size")
    em = [(dotted(c.args[0]) or "").split(".")[-1] for c in calls_in(ls.node) if call_name(c) == "s.emit"]
    ctx.check(em == ["OPCODE_SIZE"] and any(call_name(c) == "lex_operand" for c in calls_in(ls.node)), "lex_opcode_size:token", "a size letter becomes an OPCODE_SIZE token, then the operand is lexed")
    lop = ctx.repo.func("a816.parse.scanner_states", "lex_opcode")
    dot = [s_ for s_ in lop.node.body if isinstance(s_, ast.If) and unparse(s_.test) == "s.accept('.')" and [unparse(b) for b in s_.body] == ["lex_opcode_size(s)"]]
    ctx.check(len(dot) == 1, "lex_opcode:suffix", "a dot after the mnemonic introduces the size suffix")
    naked = [c for c in calls_in(lop.node) if call_name(c) == "s.emit" and (dotted(c.args[0]) or "").endswith("OPCODE_NAKED")]
    guard = [s_ for s_ in walk_no_nested(lop.node) if isinstance(s_, ast.If) and "opcodes_without_operand" in unparse(s_.test)]
    ok = len(naked) == 1 and len(guard) == 1 and any(x is naked[0] for x in ast.walk(guard[0])) and not any(x is naked[0] for o in guard[0].orelse for x in ast.walk(o))
    ctx.check(ok, "lex_opcode:naked", "only a mnemonic that has an implied form, followed by nothing on its line, is lexed as operand-less")


def rb_binding_agreement(ctx: Ctx) -> None:
    from ..ownership import binding_agreement

    binding_agreement(ctx)


def rm_no_process_lifetime_results(ctx: Ctx) -> None:
    """memoising decorators, module-level stores and mutable defaults on this property's mechanism (shared rule, caches.py)"""
    from ..caches import state_rule

    state_rule(ctx)


def ru_names_bound(ctx: Ctx) -> None:
    """a local read but never bound raises NameError for every input that reaches the statement (shared rule, names.py)"""
    from ..names import names_rule

    names_rule(ctx)


def r9_mnemonic_recognition(ctx: Ctx) -> None:
    """an instruction is only encoded if its mnemonic is recognised wherever it may stand, the last line of the input included (shared with
    C16.R2)"""
    from .c16 import mnemonic_followers

    mnemonic_followers(ctx)


def r10_branch_displacement_byte(ctx: Ctx) -> None:
    """a relative branch is its opcode followed by the true signed displacement byte, or it is rejected: never a wrapped byte (shared with C05.R1)"""
    from .c05 import r1_no_truncation

    r1_no_truncation(ctx)


def r11_operand_value(ctx: Ctx) -> None:
    """`followed by the operand value`: the operand expression has its conventional value -- operator precedence and associativity
    (C06.R1/R2) and the bases / digit sets of its literals (C06.R4)"""
    from .c06 import r1_precedence_order, r2_associativity, r4_literal_bases

    r1_precedence_order(ctx)
    r2_associativity(ctx)
    r4_literal_bases(ctx)


def r12_suffix_and_index_case(ctx: Ctx) -> None:
    """the width suffix and the index register select the encoding in either letter case: their text is folded before it keys the width list /
    index map -- an unfolded `.W` is dropped and the width guessed from the operand value (shared with C16.R1)"""
    from .c16 import r1_case_fold_before_keying

    r1_case_fold_before_keying(ctx)


RULES = [r1_table_subset_of_isa, r2_supported_set_kept, r3_operand_packing, r4_width_selection, r5_shape_to_mode,
         r6_rejection_discipline, r7_field_plumbing, r8_lexer_token_facts, r9_mnemonic_recognition, r10_branch_displacement_byte, r11_operand_value, r12_suffix_and_index_case, rb_binding_agreement, rm_no_process_lifetime_results, ru_names_bound]
