"""C19 — assemblies are independent of each other (no shared mutable state clause)."""
from __future__ import annotations

import ast

from ..cfg import CFG, always_raises
from ..core import const_str, AnalysisError, FunctionInfo, ModuleInfo, calls_in, call_name, dotted, unparse, walk_no_nested
from ..report import Ctx
from ..resolve import get_resolver
from .c04 import _module_bus_calls

LEVEL = "proof"
EXPLANATION = (
    "Effect analysis over every function of the shipped packages: (1) census of process-lifetime objects (module-level "
    "and class-level bindings whose value is mutable, plus the emitter/bus/mapping instances reachable from them); (2) no "
    "function stores into, deletes from, or calls a mutating method on a census object or a local alias of one, assigns "
    "a class attribute, or uses `global`; instances of the shared types are written only by their own constructor / "
    "methods; (3) the built-in buses are frozen after their last map() and Bus.map/unmap check `editable` before any "
    "write, and map/unmap call sites outside module initialisation address the per-Resolver bus; (4) every piece of "
    "assembly state is created fresh per Program / Resolver / code_gen / Scanner, scanners are single-use, and there are "
    "no mutable default arguments or memoising decorators. obligations == discharged on a clean tree."
)
ASSUMPTIONS = ["OS-level state (cwd, files on disk) and logging handlers are outside the analysis",
               "objects are shared only through module/class bindings, default arguments and decorators (no C extensions, no threads)"]
TRUSTED = ["CPython ast", "a816lint resolver types (annotations of the strict-typed code base)"]

MUTATORS = {"append", "extend", "update", "pop", "clear", "setdefault", "add", "insert", "remove", "sort", "reverse", "popitem",
            "discard", "__setitem__", "__delitem__", "appendleft", "difference_update", "intersection_update"}
SHARED_INSTANCE_TYPES = {
    # class -> methods allowed to assign its attributes
    "Opcode": {"__init__"}, "OpcodeWithoutOperand": {"__init__"}, "RelativeJumpOpcode": {"__init__"},
    "Mapping": {"__init__"}, "Bus": {"__init__", "map", "unmap"},
}
IMMUTABLE_CALLS = {"re.compile", "logging.getLogger", "frozenset", "tuple", "TypeVar", "namedtuple"}


def _classify(mi: ModuleInfo, value: ast.AST, repo) -> str:
    """immutable | mutable | logger | alias"""
    if isinstance(value, (ast.Dict, ast.List, ast.Set, ast.ListComp, ast.DictComp, ast.SetComp)):
        return "mutable"
    if isinstance(value, ast.Constant):
        return "immutable"
    if isinstance(value, ast.Tuple):
        return "immutable" if all(_classify(mi, e, repo) == "immutable" for e in value.elts) else "mutable"
    if isinstance(value, ast.Call):
        cn = call_name(value) or ""
        if cn in ("int.from_bytes", "int.to_bytes", "bytes.fromhex", "str.join", "ord", "chr", "hex", "min", "max", "abs", "divmod", "round"):
            return "immutable"  # an int / bytes / str computed once from literals
        if cn in IMMUTABLE_CALLS:
            return "logger" if cn == "logging.getLogger" else "immutable"
        r = repo.resolve_name(mi, cn.split(".")[0]) if cn else None
        if cn.endswith((".keys", ".values", ".items")):
            return "mutable"  # a live view of a mutable mapping
        if r and r[0] == "class" and "." not in cn:
            ci = r[1]
            if any(b.split(".")[-1] == "Enum" for b in ci.base_names):
                return "immutable"
            return "mutable"
        if r and r[0] == "func":
            return "mutable"  # conservatively: returns a fresh list/dict kept at module level
        return "immutable" if cn in ("int", "str", "bytes", "float", "bool", "len") else "mutable"
    if isinstance(value, (ast.Subscript, ast.BinOp, ast.Attribute, ast.Name)):
        # type aliases: Literal[...], Callable[...], A | B, typing names
        return "immutable"
    if isinstance(value, (ast.Lambda,)):
        return "immutable"
    if isinstance(value, ast.JoinedStr):
        return "immutable"
    return "mutable"


def census(ctx: Ctx) -> dict[tuple[str, str], str]:
    """(module, name) -> kind for every module-level binding that denotes a mutable process-lifetime object."""
    out: dict[tuple[str, str], str] = {}
    for mi in ctx.repo.modules.values():
        for name, st in mi.assigns_all:
            val = st.value  # type: ignore[attr-defined]
            kind = _classify(mi, val, ctx.repo)
            if kind == "mutable":
                out[(mi.name, name)] = unparse(val)[:40]
    return out


def r1_census(ctx: Ctx) -> None:
    c = census(ctx)
    for (mod, name), what in sorted(c.items()):
        ctx.count("module_objects")
        ctx.ok(f"{mod}:{name}", f"process-lifetime mutable object ({what})")
    ctx.floor("module_objects", 6)
    for need in [("a816.cpu.cpu_65c816", "snes_opcode_table"), ("a816.symbols", "low_rom_bus"), ("a816.symbols", "high_rom_bus"),
                 ("a816.symbols", "BUS_MAPPING"), ("a816.parse.codegen", "generators")]:
        if need not in c:
            raise AnalysisError(f"census lost the known shared object {need[0]}:{need[1]}")
    # class-level attributes
    for ci in ctx.repo.all_classes():
        for st in ci.node.body:
            tgt = val = None
            if isinstance(st, ast.Assign) and isinstance(st.targets[0], ast.Name):
                tgt, val = st.targets[0].id, st.value
            elif isinstance(st, ast.AnnAssign) and isinstance(st.target, ast.Name) and st.value is not None:
                tgt, val = st.target.id, st.value
            if tgt is None:
                continue
            if any(b.split(".")[-1] in ("Enum", "TypedDict") for b in ci.base_names):
                continue
            kind = _classify(ci.module, val, ctx.repo)
            ctx.count("class_attributes")
            ctx.check(kind != "mutable", f"{ci.module.relpath}:{ci.name}.{tgt}", "a mutable class-level value is shared by every instance (and every assembly)")
    ctx.floor("class_attributes", 5)


def _shared_roots(ctx: Ctx, fn: FunctionInfo, cens: dict[tuple[str, str], str]) -> dict[str, str]:
    """local names that denote a census object or an alias of one -> description"""
    repo = ctx.repo
    roots: dict[str, str] = {}

    def root_of(expr: ast.AST) -> str | None:
        e = expr
        while True:
            if isinstance(e, (ast.Subscript, ast.Attribute)):
                e = e.value
            elif isinstance(e, ast.Call) and isinstance(e.func, ast.Attribute) and e.func.attr in ("get", "values", "keys", "items", "get_bus"):
                if e.func.attr == "get_bus":
                    return "get_bus()"
                e = e.func.value
            else:
                break
        if isinstance(e, ast.Name):
            if e.id in roots:
                return roots[e.id]
            r = repo.resolve_name(fn.module, e.id)
            if r and r[0] == "global":
                mi, nm = r[1]  # type: ignore[misc]
                if (mi.name, nm) in cens:
                    return f"{mi.name}:{nm}"
        return None

    params = set(fn.params())
    for _ in range(2):
        for n in walk_no_nested(fn.node):
            if isinstance(n, ast.Assign) and len(n.targets) == 1 and isinstance(n.targets[0], ast.Name) and n.targets[0].id not in params:
                v = n.value
                if isinstance(v, (ast.Dict, ast.List, ast.Set, ast.Call)) and not (isinstance(v, ast.Call) and root_of(v)):
                    continue
                r = root_of(v)
                if r:
                    roots[n.targets[0].id] = r
            if isinstance(n, ast.For) and isinstance(n.target, ast.Name):
                r = root_of(n.iter)
                if r:
                    roots[n.target.id] = r
    roots["__root_of__"] = ""  # marker
    return {k: v for k, v in roots.items() if k != "__root_of__"} | {"__fn__": root_of}  # type: ignore[dict-item]


def r2_nobody_writes(ctx: Ctx) -> None:
    cens = census(ctx)
    rs = get_resolver(ctx.repo)
    repo = ctx.repo
    n_funcs = 0
    for fn in repo.all_functions():
        n_funcs += 1
        info = _shared_roots(ctx, fn, cens)
        root_of = info.pop("__fn__")  # type: ignore[arg-type]
        env = rs.local_types(fn)
        for n in walk_no_nested(fn.node):
            if isinstance(n, ast.Global):
                ctx.fail(f"{fn.where}:global {','.join(n.names)}", "a function rebinding module state makes one assembly visible to the next")
            targets: list[ast.AST] = []
            if isinstance(n, ast.Assign):
                targets = list(n.targets)
            elif isinstance(n, (ast.AugAssign, ast.AnnAssign)):
                targets = [n.target]
            elif isinstance(n, ast.Delete):
                targets = list(n.targets)
            for t in targets:
                for sub in ([t] if not isinstance(t, ast.Tuple) else t.elts):
                    if isinstance(sub, (ast.Subscript, ast.Attribute)):
                        r = root_of(sub.value)  # type: ignore[operator]
                        ctx.count("stores")
                        if r:
                            ctx.fail(f"{fn.where}:{unparse(n)[:50]}", f"stores into the process-lifetime object {r}")
                        # class attribute assignment
                        if isinstance(sub, ast.Attribute):
                            base = sub.value
                            bn = dotted(base) or ""
                            rr = repo.resolve_name(fn.module, bn) if bn and "." not in bn else None
                            if (rr and rr[0] == "class") or bn in ("cls", "self.__class__") or (isinstance(base, ast.Call) and call_name(base) == "type"):
                                ctx.fail(f"{fn.where}:{unparse(n)[:50]}", "assigns a class attribute, which every instance and every later assembly sees")
                            # instances of shared types: only their own methods write them
                            types = rs.expr_type(fn, base, env)
                            for ty in types & set(SHARED_INSTANCE_TYPES):
                                own = fn.cls is not None and ty in {c.name for c in repo.mro(fn.cls)} and unparse(base) == "self"
                                allowed = own and fn.name in SHARED_INSTANCE_TYPES[ty] | SHARED_INSTANCE_TYPES.get(fn.cls.name, set())  # type: ignore[union-attr]
                                mod_init = False
                                if not allowed:
                                    ctx.fail(f"{fn.where}:{unparse(n)[:50]}", f"writes attribute `{sub.attr}` of a {ty}; instances of it are reachable from module-level tables, "
                                             f"so only {sorted(SHARED_INSTANCE_TYPES[ty])} of the class may write it")
            if isinstance(n, ast.Call) and isinstance(n.func, ast.Attribute) and n.func.attr in MUTATORS:
                r = root_of(n.func.value)  # type: ignore[operator]
                ctx.count("mutator_calls")
                if r:
                    ctx.fail(f"{fn.where}:{unparse(n)[:50]}", f"mutates the process-lifetime object {r}")
        # mutable defaults, memoising decorators
        a = fn.node.args
        for d in list(a.defaults) + [k for k in a.kw_defaults if k is not None]:
            ctx.count("defaults")
            ctx.check(not isinstance(d, (ast.Dict, ast.List, ast.Set, ast.Call)) or (isinstance(d, ast.Call) and call_name(d) in ("frozenset", "tuple")),
                      f"{fn.where}:default {unparse(d)[:30]}", "a mutable default argument is created once per process and shared by every call")
    from ..caches import _memo_findings

    for mf in _memo_findings(ctx):
        ctx.fail(mf.construct, mf.detail)
    ctx.count("functions_scanned", n_funcs)
    ctx.floor("functions_scanned", 200)
    ctx.floor("stores", 66)
    # module-level code (import time) may initialise; but only in the defining module
    for mi in repo.modules.values():
        for st in mi.tree.body:
            if isinstance(st, (ast.Assign, ast.AugAssign)) :
                tl = st.targets if isinstance(st, ast.Assign) else [st.target]
                for t in tl:
                    if isinstance(t, (ast.Subscript, ast.Attribute)):
                        root = t
                        while isinstance(root, (ast.Subscript, ast.Attribute)):
                            root = root.value
                        if isinstance(root, ast.Name):
                            r = repo.resolve_name(mi, root.id)
                            if r and r[0] == "global" and r[1][0] is not mi:  # type: ignore[index]
                                ctx.fail(f"{mi.relpath}:<module>:{unparse(st)[:50]}", "import-time write to another module's object")


ONE_SHOT = {"zip", "map", "filter", "iter", "enumerate", "reversed", "open", "itertools.chain", "itertools.count", "itertools.cycle", "itertools.product"}


def r7_no_module_level_iterators(ctx: Ctx) -> None:
    """a module-level name bound to a one-shot iterator (zip / map / filter / iter / a generator expression ...) is process-lifetime state that
    the first use consumes: the first assembly sees its items, every later one an exhausted iterator"""
    n = 0
    for mi in ctx.repo.modules.values():
        for st in mi.tree.body:
            if not (isinstance(st, (ast.Assign, ast.AnnAssign)) and getattr(st, "value", None) is not None):
                continue
            n += 1
            v = st.value
            tgt = st.targets[0] if isinstance(st, ast.Assign) else st.target
            if not isinstance(tgt, ast.Name):
                continue
            one_shot = isinstance(v, ast.GeneratorExp) or (isinstance(v, ast.Call) and (dotted(v.func) or "") in ONE_SHOT)
            if not one_shot:
                continue
            readers = [fn.where for fn in ctx.repo.all_functions() if fn.module is mi and any(isinstance(x, ast.Name) and x.id == tgt.id and isinstance(x.ctx, ast.Load) for x in ast.walk(fn.node))]
            readers += [fn.where for om in ctx.repo.modules.values() if om is not mi and tgt.id in om.imports and om.imports[tgt.id][0] == mi.name
                        for fn in ctx.repo.all_functions() if fn.module is om and any(isinstance(x, ast.Name) and x.id == tgt.id for x in ast.walk(fn.node))]
            ctx.check(not readers, f"{mi.relpath}:<module>:{tgt.id}", f"`{unparse(st)[:60]}` is a one-shot iterator kept for the life of the process and read by {readers[:3]}: "
                      "the first use consumes it, later assemblies find it empty")
    ctx.count("module_assignments", n)
    ctx.floor("module_assignments", 20)


def r3_shared_buses_frozen(ctx: Ctx) -> None:
    buses, events = _module_bus_calls(ctx)
    for var, ev in events.items():
        ctx.count("module_buses")
        last_map = max((i for i, e in enumerate(ev) if e == "map"), default=-1)
        freezes = [i for i, e in enumerate(ev) if e == "editable=False"]
        thaw = [i for i, e in enumerate(ev) if e.startswith("editable=") and e != "editable=False"]
        ctx.check(bool(freezes) and freezes[-1] > last_map and not [t for t in thaw if t > freezes[0]], f"a816/symbols.py:{var}:frozen",
                  f"module code sets editable = False after the last map(); events: {ev}")
    ctx.floor("module_buses", 2)
    for meth in ("map", "unmap"):
        fn = ctx.repo.func("a816.cpu.mapping", f"Bus.{meth}")
        g = CFG(fn.node)
        guards = [s for s in fn.node.body if isinstance(s, ast.If) and unparse(s.test) in ("self.editable is not True", "not self.editable", "self.editable is False", "self.editable is not True")
                  and always_raises(s.body)]
        if not ctx.check(len(guards) >= 1, f"Bus.{meth}:guard", "refuses to edit a frozen bus"):
            continue
        gn = g.node_of(guards[0].test)
        for n in walk_no_nested(fn.node):
            w = None
            if isinstance(n, ast.Assign) and isinstance(n.targets[0], ast.Subscript) and unparse(n.targets[0].value).startswith("self."):
                w = n
            if isinstance(n, ast.Delete):
                w = n
            if isinstance(n, ast.Assign) and isinstance(n.targets[0], ast.Attribute) and unparse(n.targets[0].value) == "self":
                w = n
            if w is not None:
                ctx.count("guarded_writes")
                ctx.check(g.dominated_by(g.node_of(w), [gn]), f"Bus.{meth}:{unparse(w)[:40]}", "the write happens only after the editable check")
    ctx.floor("guarded_writes", 3)
    # editable is assigned only by the constructor and by module initialisation
    for fn in ctx.repo.all_functions():
        for n in walk_no_nested(fn.node):
            if isinstance(n, (ast.Assign, ast.AugAssign)):
                tl = n.targets if isinstance(n, ast.Assign) else [n.target]
                for t in tl:
                    if isinstance(t, ast.Attribute) and t.attr == "editable":
                        ctx.check(fn.fq == "a816.cpu.mapping:Bus.__init__", f"{fn.where}:{unparse(n)[:40]}", "only the constructor (and module initialisation) sets `editable`; thawing a shared bus lets one assembly remap it for all")
    # map/unmap call sites in functions address the per-instance bus
    rs = get_resolver(ctx.repo)
    for fn in ctx.repo.all_functions():
        if not fn.module.name.startswith("a816"):
            continue
        for c in calls_in(fn.node):
            if isinstance(c.func, ast.Attribute) and c.func.attr in ("map", "unmap") and rs.expr_type(fn, c.func.value, rs.local_types(fn)) & {"Bus"}:
                ctx.count("bus_edit_sites")
                recv = unparse(c.func.value)
                ctx.check(recv in ("resolver.bus", "self.bus", "self.resolver.bus"), f"{fn.where}:{unparse(c)[:40]}",
                          f"user mappings go to the Resolver's own Bus(); receiver `{recv}` may be a bus shared through BUS_MAPPING")
    ctx.floor("bus_edit_sites", 1)


def r4_per_instance_state(ctx: Ctx) -> None:
    repo = ctx.repo

    def assigned(fn: FunctionInfo) -> dict[str, str]:
        out = {}
        for n in walk_no_nested(fn.node):
            if isinstance(n, ast.Assign):
                out[unparse(n.targets[0])] = unparse(n.value)
            elif isinstance(n, ast.AnnAssign) and n.value is not None:
                out[unparse(n.target)] = unparse(n.value)
        return out

    pi = assigned(repo.func("a816.program", "Program.__init__"))
    ctx.check(pi.get("self.resolver") == "Resolver()", "Program.__init__:resolver", f"a Program owns a fresh Resolver; found {pi.get('self.resolver')}")
    ctx.check(pi.get("self.parser") == "parser or MZParser(self.resolver)", "Program.__init__:parser", "the default parser is bound to this Program's resolver")
    ri = assigned(repo.func("a816.symbols", "Resolver.__init__"))
    ctx.check(ri.get("self.current_scope") == "Scope(self)", "Resolver.__init__:root-scope", "fresh root scope")
    ctx.check(ri.get("self.scopes") == "[self.current_scope]", "Resolver.__init__:scopes", "fresh scope list")
    ctx.check(ri.get("self.bus") == "Bus()", "Resolver.__init__:bus", "fresh user bus")
    for f in ("reloc", "rom_type", "last_used_scope", "pc"):
        ctx.check(f"self.{f}" in ri, f"Resolver.__init__:{f}", "initialised per instance")
    bi = assigned(repo.func("a816.cpu.mapping", "Bus.__init__"))
    ctx.check(bi.get("self.lookup") == "{}" and bi.get("self.mappings") == "{}" and bi.get("self.editable") == "True", "Bus.__init__", "fresh tables, editable")
    cg = repo.func("a816.parse.codegen", "code_gen")
    a = assigned(cg)
    ctx.check(a.get("macro_definitions") == "{}" and any(unparse(c.args[-1]) == "macro_definitions" for c in calls_in(cg.node) if call_name(c) == "_code_gen"),
              "code_gen:macro_definitions", "macro definitions live in a dict created per code_gen call")
    si = assigned(repo.func("a816.parse.scanner", "Scanner.__init__"))
    ctx.check(si.get("self.tokens") == "[]" and "self.line_offset" in si and "self.current_line" in si, "Scanner.__init__", "per-instance token list and line bookkeeping")
    ss = assigned(repo.func("a816.parse.scanner", "Scanner.scan"))
    ctx.check(ss.get("self.tokens") == "[]" and ss.get("self.file") == f"File({repo.func('a816.parse.scanner', 'Scanner.scan').params()[1]})" and "self.input" in ss and "self.state" in ss,
              "Scanner.scan:initialises", "scan() sets file, input, state and token list")
    # scanners are single-use locals: each Scanner(...) is bound to a local and scanned once
    for fn in repo.all_functions():
        ctors = [c for c in calls_in(fn.node) if call_name(c) == "Scanner"]
        for c in ctors:
            ctx.count("scanner_sites")
            if any(isinstance(s, ast.Call) and isinstance(s.func, ast.Attribute) and s.func.attr == "scan" and s.func.value is c for s in calls_in(fn.node)):
                ctx.ok(f"{fn.where}:Scanner()", "a fresh scanner is scanned once in place: Scanner(...).scan(...)")
                continue
            bind = [n for n in walk_no_nested(fn.node) if isinstance(n, ast.Assign) and n.value is c and isinstance(n.targets[0], ast.Name)]
            scans = [s for s in calls_in(fn.node) if bind and call_name(s) == f"{unparse(bind[0].targets[0])}.scan"]
            in_loop = any(isinstance(p, (ast.For, ast.While)) and any(x is s for s in scans for x in ast.walk(p)) and not any(x is c for x in ast.walk(p)) for p in walk_no_nested(fn.node))
            ctx.check(len(bind) == 1 and len(scans) == 1 and not in_loop, f"{fn.where}:Scanner()",
                      "a scanner is a fresh local used for exactly one scan (its cursor fields start from the class-level zeros and are never reset)")
    ctx.floor("scanner_sites", 2)
    # instance fields that shadow class-level scalars are only ever assigned through self
    sc = repo.cls("a816.parse.scanner", "Scanner")
    class_level = [t.id for st in sc.node.body if isinstance(st, ast.Assign) for t in st.targets if isinstance(t, ast.Name)] + \
                  [st.target.id for st in sc.node.body if isinstance(st, ast.AnnAssign) and isinstance(st.target, ast.Name) and st.value is not None]
    for fn in repo.all_functions():
        for n in walk_no_nested(fn.node):
            if isinstance(n, (ast.Assign, ast.AugAssign)):
                tl = n.targets if isinstance(n, ast.Assign) else [n.target]
                for t in tl:
                    if isinstance(t, ast.Attribute) and unparse(t.value) in ("Scanner", "Position", "Table", "Parser"):
                        ctx.fail(f"{fn.where}:{unparse(n)[:40]}", "class-level cursor state is assigned on the class")
    ctx.count("scanner_class_fields", len(class_level))
    pa = repo.func("a816.parse.mzparser", "MZParser.parse_as_ast")
    ctx.check(any(call_name(c) == "Scanner" for c in calls_in(pa.node)) and any(call_name(c) == "Parser" for c in calls_in(pa.node)), "parse_as_ast:fresh-scanner-parser", "each parse creates its own scanner and parser")


def param_mutations(ctx: Ctx) -> dict[str, set[str]]:
    """function -> names of its parameters whose object it (transitively) mutates."""
    rs = get_resolver(ctx.repo)
    direct: dict[str, set[str]] = {}

    def root_name(e: ast.AST) -> str | None:
        while isinstance(e, (ast.Subscript, ast.Attribute)):
            e = e.value
        return e.id if isinstance(e, ast.Name) else None

    for fn in ctx.repo.all_functions():
        ps = set(fn.params())
        m: set[str] = set()
        rebound = {t.id for n in walk_no_nested(fn.node) if isinstance(n, ast.Assign) for t in n.targets if isinstance(t, ast.Name)}
        for n in walk_no_nested(fn.node):
            tl: list[ast.AST] = []
            if isinstance(n, (ast.Assign, ast.Delete)):
                tl = list(n.targets)
            elif isinstance(n, (ast.AugAssign, ast.AnnAssign)):
                tl = [n.target]
            for t in tl:
                if isinstance(t, (ast.Subscript, ast.Attribute)):
                    r = root_name(t)
                    if r in ps and r not in rebound:
                        m.add(r)
            if isinstance(n, ast.Call) and isinstance(n.func, ast.Attribute) and n.func.attr in MUTATORS:
                r = root_name(n.func.value)
                if r in ps and r not in rebound:
                    m.add(r)
        direct[fn.fq] = m
    changed = True
    while changed:
        changed = False
        for fq, sites in rs.sites.items():
            caller = rs.by_fq[fq]
            ps = set(caller.params())
            for sct in sites:
                for t in sct.targets:
                    tparams = t.params()
                    offset = 1 if (t.cls is not None and not t.is_static() and tparams and tparams[0] in ("self", "cls")) else 0
                    # receiver object = callee's self
                    if offset and isinstance(sct.node.func, ast.Attribute) and "self" in direct.get(t.fq, set()):
                        r = root_name(sct.node.func.value)
                        if r in ps and r not in direct[fq]:
                            direct[fq].add(r); changed = True
                    for i, a in enumerate(sct.node.args):
                        if i + offset < len(tparams) and tparams[i + offset] in direct.get(t.fq, set()):
                            r = root_name(a) if isinstance(a, (ast.Name,)) else None
                            if r in ps and r not in direct[fq]:
                                direct[fq].add(r); changed = True
    return direct


def r5_shared_objects_not_passed_to_mutators(ctx: Ctx) -> None:
    """a process-lifetime object handed to a function that mutates that parameter (directly or further down) is mutated all the same."""
    cens = census(ctx)
    rs = get_resolver(ctx.repo)
    muts = param_mutations(ctx)
    n_sites = 0
    for fq, sites in rs.sites.items():
        caller = rs.by_fq[fq]
        info = _shared_roots(ctx, caller, cens)
        root_of = info.pop("__fn__")  # type: ignore[arg-type]
        for sct in sites:
            for t in sct.targets:
                tparams = t.params()
                offset = 1 if (t.cls is not None and not t.is_static() and tparams and tparams[0] in ("self", "cls")) else 0
                for i, a in enumerate(sct.node.args):
                    n_sites += 1
                    if i + offset >= len(tparams):
                        continue
                    r = root_of(a)  # type: ignore[operator]
                    if r and tparams[i + offset] in muts.get(t.fq, set()):
                        ctx.fail(f"{caller.where}:{unparse(sct.node)[:50]}", f"passes the process-lifetime object {r} as `{tparams[i + offset]}` to {t.qualname}, which mutates it")
                for k in sct.node.keywords:
                    r = root_of(k.value)  # type: ignore[operator]
                    if r and k.arg in muts.get(t.fq, set()):
                        ctx.fail(f"{caller.where}:{unparse(sct.node)[:50]}", f"passes the process-lifetime object {r} as `{k.arg}` to {t.qualname}, which mutates it")
                if offset and isinstance(sct.node.func, ast.Attribute) and "self" in muts.get(t.fq, set()) and t.name not in ("map", "unmap", "__init__") \
                        and sct.how in ("typed", "name", "super", "class-attr", "module-attr"):
                    r = root_of(sct.node.func.value)  # type: ignore[operator]
                    if r:
                        ctx.fail(f"{caller.where}:{unparse(sct.node)[:50]}", f"calls {t.qualname}, which mutates its receiver, on the process-lifetime object {r}")
    ctx.count("argument_positions", n_sites)
    ctx.count("mutating_functions", sum(1 for v in muts.values() if v))
    ctx.floor("argument_positions", 333)
    ctx.ok("C19:no-shared-object-reaches-a-mutator", f"{n_sites} argument positions checked against {sum(1 for v in muts.values() if v)} parameter-mutating functions")


def r6_output_files_start_empty(ctx: Ctx) -> None:
    """`repeating an assembly gives identical results`: the output file is opened for (binary) WRITING, which truncates it; opened for
    appending, every rebuild adds another PATCH...EOF stream / another image behind the previous one."""
    n = 0
    for q in ("Program.assemble", "Program.assemble_as_patch", "Program.exports_symbol_file"):
        fn = ctx.repo.try_func("a816.program", q)
        if fn is None:
            continue
        for c in calls_in(fn.node):
            if call_name(c) == "open" and len(c.args) >= 2:
                mode = const_str(c.args[1])
                if mode is None or "r" in mode:
                    continue
                n += 1
                ctx.check("w" in mode and "a" not in mode and "+" not in mode and "x" not in mode, f"{fn.where}:open(..., {mode!r})", "output files are truncated when opened ('w' / 'wb')")
    ctx.count("output_opens", n)
    ctx.floor("output_opens", 2)


RULES = [r1_census, r2_nobody_writes, r3_shared_buses_frozen, r4_per_instance_state, r5_shared_objects_not_passed_to_mutators, r6_output_files_start_empty, r7_no_module_level_iterators]
