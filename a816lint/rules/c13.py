"""C13 — .include_ips reproduces the patch shifted by delta (record-reader clause)."""
from __future__ import annotations

import ast

from ..cfg import CFG, always_raises
from ..core import AnalysisError, calls_in, call_name, dotted, unparse, walk_no_nested
from ..core import const_str as const_str_
from ..match import canon, const_int, inline, kwarg, single_assignments, unpack_call
from ..report import Ctx
from ..terms import NODES, ZERO, node_class_terms

LEVEL = "other"
EXPLANATION = (
    "Reader loop of IncludeIpsNode.__init__: magic compared with b'PATCH' on a raising branch; loop sentinel b'EOF'; "
    "offset and length decoded big-endian through struct.unpack of exactly-sized reads (a short read raises); the "
    "length field is tested against 0 before the payload is read and the run-length arm expands value*count; delta "
    "added once; tuples appended in read order and re-emitted in order by Program.emit without touching the program's "
    "own block or cursors; directive plumbing parser -> AST -> node."
)
ASSUMPTIONS = ["BufferedReader.peek/read semantics", "byte fidelity for every patch file is not decided (value relation)"]
PROGRAM = "a816.program"


class _NoOpRanges(ast.NodeTransformer):
    """`x & (2^8w - 1)` and `min(max(x, 0), 2^8w - 1)` are x itself when x is a w-byte unsigned field of a struct.unpack result"""

    def __init__(self, widths: dict[str, int]) -> None:
        self.widths = widths  # local name / `name[i]` text -> field width in bytes
        self.hits = 0

    def _width(self, e: ast.AST) -> int | None:
        return self.widths.get(unparse(e))

    def visit_BinOp(self, node: ast.BinOp) -> ast.AST:
        self.generic_visit(node)
        if isinstance(node.op, ast.BitAnd):
            for x, c in ((node.left, node.right), (node.right, node.left)):
                w = self._width(x)
                if w is not None and const_int(c) == (1 << (8 * w)) - 1:
                    self.hits += 1
                    return x
        return node

    def visit_Call(self, node: ast.Call) -> ast.AST:
        self.generic_visit(node)
        if call_name(node) == "min" and len(node.args) == 2:
            for inner, c in ((node.args[0], node.args[1]), (node.args[1], node.args[0])):
                if isinstance(inner, ast.Call) and call_name(inner) == "max" and len(inner.args) == 2:
                    for x, z in ((inner.args[0], inner.args[1]), (inner.args[1], inner.args[0])):
                        w = self._width(x)
                        if w is not None and const_int(z) == 0 and const_int(c) == (1 << (8 * w)) - 1:
                            self.hits += 1
                            return x
        return node


def _field_widths(lp: ast.While) -> dict[str, int]:
    out: dict[str, int] = {}
    for s in walk_no_nested(lp):
        if isinstance(s, ast.Assign) and len(s.targets) == 1 and unpack_call(s.value) is not None:
            fmt, _src = unpack_call(s.value)  # type: ignore[misc]
            if any(f[0] not in "BHIQ" for f in fmt.fields):
                continue
            t = s.targets[0]
            if isinstance(t, ast.Name):
                for i, f in enumerate(fmt.fields):
                    out[f"{t.id}[{i}]"] = f[1]
            elif isinstance(t, ast.Tuple) and len(t.elts) == len(fmt.fields):
                for e, f in zip(t.elts, fmt.fields):
                    if isinstance(e, ast.Name):
                        out[e.id] = f[1]
    # plain copies of a field (`size = words[0]`)
    for s in walk_no_nested(lp):
        if isinstance(s, ast.Assign) and len(s.targets) == 1 and isinstance(s.targets[0], ast.Name) and unparse(s.value) in out:
            out.setdefault(s.targets[0].id, out[unparse(s.value)])
    return out


def _reader(ctx: Ctx):
    fn = ctx.repo.func(NODES, "IncludeIpsNode.__init__")
    loops = [n for n in walk_no_nested(fn.node) if isinstance(n, ast.While)]
    if len(loops) != 1:
        raise AnalysisError("IncludeIpsNode.__init__: expected one reader loop")
    lp = loops[0]
    if not getattr(lp, "_noop_ranges_done", False):
        # a name re-bound to its own masked value (`n = min(max(n, 0), 0xFFFF)`) keeps its width
        widths = _field_widths(lp)
        tr = _NoOpRanges(widths)
        new_body = []
        for st in lp.body:
            st2 = tr.visit(st)
            if isinstance(st2, ast.Assign) and len(st2.targets) == 1 and unparse(st2.targets[0]) == unparse(st2.value):
                continue  # `x = x` left over from a no-op clamp
            new_body.append(st2)
        lp.body = new_body
        ast.fix_missing_locations(lp)
        lp._noop_ranges_done = True  # type: ignore[attr-defined]
    return fn, lp


def _loop_env(lp: ast.While) -> dict[str, ast.AST]:
    env: dict[str, ast.AST] = {}
    counts: dict[str, int] = {}
    for s in walk_no_nested(lp):
        if isinstance(s, ast.Assign) and len(s.targets) == 1 and isinstance(s.targets[0], (ast.Tuple, ast.List)) and all(isinstance(e, ast.Name) for e in s.targets[0].elts):
            # a, b = struct.unpack(...)  ==  a = struct.unpack(...)[0]; b = struct.unpack(...)[1]
            for i, e in enumerate(s.targets[0].elts):
                counts[e.id] = counts.get(e.id, 0) + 1  # type: ignore[attr-defined]
                env[e.id] = ast.Subscript(s.value, ast.Constant(i), ast.Load())  # type: ignore[attr-defined]
        if isinstance(s, ast.Assign) and len(s.targets) == 1 and isinstance(s.targets[0], ast.Name):
            counts[s.targets[0].id] = counts.get(s.targets[0].id, 0) + 1
            env[s.targets[0].id] = s.value
        if isinstance(s, ast.AugAssign) and isinstance(s.target, ast.Name):
            counts[s.target.id] = counts.get(s.target.id, 0) + 1
        if isinstance(s, ast.NamedExpr):
            counts[s.target.id] = counts.get(s.target.id, 0) + 1
            env[s.target.id] = s.value
    return {k: v for k, v in env.items() if counts[k] == 1}


def _is_read(e: ast.AST, n: int) -> bool:
    return isinstance(e, ast.Call) and (call_name(e) or "").endswith(".read") and len(e.args) == 1 and const_int(e.args[0]) == n


def _sentinel(lp: ast.While, env: dict[str, ast.AST]) -> tuple[str, str | None]:
    """How the reader recognises the trailer before each record: ("read", header name) when the three header bytes are
    read and compared with b'EOF' (and the same bytes are then decoded), ("peek", None) for a look-ahead through
    BufferedReader.peek, ("unknown", None) otherwise."""
    def eof_cmp(t: ast.AST, op: type) -> ast.AST | None:
        if isinstance(t, ast.Compare) and len(t.ops) == 1 and isinstance(t.ops[0], op):
            l, r = t.left, t.comparators[0]
            if unparse(r) == "b'EOF'":
                return l
            if unparse(l) == "b'EOF'":
                return r
        return None

    def classify(lhs: ast.AST) -> tuple[str, str | None]:
        if isinstance(lhs, ast.NamedExpr) and _is_read(lhs.value, 3):
            return "read", lhs.target.id
        if isinstance(lhs, ast.NamedExpr) and isinstance(lhs.value, ast.Call) and (call_name(lhs.value) or "").endswith(".read") and len(lhs.value.args) == 1 \
                and const_int(lhs.value.args[0]) is not None:
            return "wrong-size", str(const_int(lhs.value.args[0]))
        if isinstance(lhs, ast.Name) and lhs.id in env and _is_read(env[lhs.id], 3):
            return "read", lhs.id
        if ".peek(" in unparse(lhs):
            return "peek", None
        return "unknown", None

    breaks = [b for b in walk_no_nested(lp) if isinstance(b, ast.Break)]
    lhs = eof_cmp(lp.test, ast.NotEq)
    if lhs is not None:
        return classify(lhs)  # a break inside the body is judged by the early-exit rule
    if isinstance(lp.test, ast.BoolOp) and isinstance(lp.test.op, ast.And) and any(eof_cmp(v, ast.NotEq) is not None for v in lp.test.values):
        return "extra-exit", None
    if isinstance(lp.test, ast.Compare) and len(lp.test.ops) == 1 and isinstance(lp.test.ops[0], ast.NotIn) and isinstance(lp.test.comparators[0], (ast.Tuple, ast.List, ast.Set)):
        # while <header> not in (b'EOF', <other>...): one listed value is the marker, any further one is a second way out of the record loop
        listed = [unparse(e) for e in lp.test.comparators[0].elts]
        if "b'EOF'" in listed and len(set(listed)) > 1 and classify(lp.test.left)[0] == "read":
            return "extra-exit", None
        if listed and set(listed) == {"b'EOF'"}:
            return classify(lp.test.left)
    if eof_cmp(lp.test, ast.Eq) is not None:
        return "inverted", None
    if unparse(lp.test) == "True" and breaks:
        # [h = f.read(3);] if <lhs> == b'EOF': break   -- before anything else of the iteration is read
        body = list(lp.body)
        if body and isinstance(body[0], ast.Assign) and len(body[0].targets) == 1 and isinstance(body[0].targets[0], ast.Name) and _is_read(body[0].value, 3):
            body = body[1:]
        if body and isinstance(body[0], ast.If) and not body[0].orelse and len(body[0].body) == 1 and isinstance(body[0].body[0], ast.Break):
            lhs = eof_cmp(body[0].test, ast.Eq)
            if lhs is not None:
                return classify(lhs)
    return "unknown", None


def r1_record_kinds(ctx: Ctx) -> None:
    fn, lp = _reader(ctx)
    env = _loop_env(lp)
    # the length variable: X = struct.unpack(">H", f.read(2)) [0]
    size_vars = []
    for name, val in env.items():
        v = inline(val, {k: x for k, x in env.items() if k != name})
        if isinstance(v, ast.Subscript) and unpack_call(v.value) is not None and unparse(v.slice) == "0":
            fmt, src = unpack_call(v.value)  # type: ignore[misc]
            if fmt.size == 2:
                size_vars.append(name)
    if len(size_vars) != 1:
        # a one-field unpack indexed with anything but 0 raises IndexError for every record
        for name, val in env.items():
            v = inline(val, {k: x for k, x in env.items() if k != name})
            if isinstance(v, ast.Subscript) and unpack_call(v.value) is not None and len(unpack_call(v.value)[0].fields) == 1 and unparse(v.slice) not in ("0", "-1"):  # type: ignore[index]
                ctx.fail(f"IncludeIpsNode.__init__:{name}", f"`{unparse(v)[:50]}` indexes a one-field unpack result with {unparse(v.slice)}: IndexError on every record")
                return
        raise AnalysisError(f"reader: record length variable not recognised ({size_vars})")
    sz = size_vars[0]
    branch = None
    for s in lp.body:
        if isinstance(s, ast.If) and sz in {n.id for n in ast.walk(s.test) if isinstance(n, ast.Name)}:
            t = unparse(s.test)
            if t in (f"{sz} == 0", f"not {sz}", f"0 == {sz}"):
                branch = (s.body, s.orelse)
            elif t in (sz, f"{sz} != 0", f"{sz} > 0"):
                branch = (s.orelse, s.body)
    if branch is None:
        ctx.fail("IncludeIpsNode.__init__:length==0", "the length field is never tested against 0: a run-length record is read as an empty block and its count/value bytes as the next header")
        return
    rle, plain = branch
    ctx.ok("IncludeIpsNode.__init__:length==0", "run-length records are told apart by a zero length field")
    # plain arm: block = f.read(size)
    ok_plain = any(isinstance(s, ast.Assign) and isinstance(s.value, ast.Call) and (call_name(s.value) or "").endswith(".read")
                   and [unparse(a) for a in s.value.args] == [sz] for s in plain)
    ctx.check(ok_plain, "IncludeIpsNode.__init__:plain-arm", "a plain record's payload is exactly `length` bytes")
    # rle arm: count,value = unpack(">HB", read(3)); block = bytes([value]) * count
    ok_rle = False
    detail = "run-length arm must read count (2 bytes BE) and value (1 byte) and expand value*count"
    for s in rle:
        if isinstance(s, ast.Assign) and isinstance(s.targets[0], ast.Tuple) and unpack_call(s.value) is not None:
            fmt, src = unpack_call(s.value)  # type: ignore[misc]
            names = [unparse(e) for e in s.targets[0].elts]
            rd = isinstance(src, ast.Call) and (call_name(src) or "").endswith(".read") and const_int(src.args[0]) == fmt.size
            if fmt.size == 3 and fmt.order in (">", "!") and [f[1] for f in fmt.fields] == [2, 1] and rd and len(names) == 2:
                cnt, val = names
                for s2 in rle:
                    if isinstance(s2, ast.Assign) and unparse(s2.value) in (f"bytes([{val}]) * {cnt}", f"{cnt} * bytes([{val}])", f"bytes([{val}] * {cnt})"):
                        ok_rle = True
    ctx.check(ok_rle, "IncludeIpsNode.__init__:rle-arm", detail)
    ctx.count("record_kinds", 2)


def r2_fields(ctx: Ctx) -> None:
    fn, lp = _reader(ctx)
    # a field decoded by int.from_bytes never notices a short read (b"" decodes as 0): only struct.unpack of an exact size raises
    env0 = _loop_env(lp)
    for c in [x for x in walk_no_nested(lp) if isinstance(x, ast.Call) and call_name(x) == "int.from_bytes" and x.args]:
        src = inline(c.args[0], env0)
        if isinstance(src, ast.Call) and (call_name(src) or "").endswith(".read"):
            guarded = any(isinstance(i, ast.If) and always_raises(i.body) and "len(" in unparse(i.test) for i in walk_no_nested(lp))
            if guarded:
                raise AnalysisError("IncludeIpsNode.__init__: int.from_bytes fields with explicit length checks are not modelled")
            ctx.fail(f"IncludeIpsNode.__init__:{unparse(c)[:50]}", "a field decoded with int.from_bytes accepts a short read (nothing left decodes as 0): a truncated record is "
                     "taken as a valid one instead of being rejected, and at end of file the loop may never see the EOF marker")
    # the patch named by the directive is opened for binary reading
    opens = [c for c in calls_in(fn.node) if call_name(c) == "open"]
    if len(opens) != 1:
        raise AnalysisError(f"IncludeIpsNode.__init__: {len(opens)} open() calls")
    from ..match import canon as _canon13

    path_ok = opens[0].args and _canon13(fn.node, opens[0].args[0]) in (fn.params()[1], f"self.{'ips_file_path'}") and \
        (_canon13(fn.node, opens[0].args[0]) == fn.params()[1] or any(isinstance(a, ast.Assign) and unparse(a.targets[0]) == "self.ips_file_path" and unparse(a.value) == fn.params()[1] for a in walk_no_nested(fn.node)))
    mode = const_str_(opens[0].args[1]) if len(opens[0].args) > 1 else (const_str_(kwarg(opens[0], "mode")) if kwarg(opens[0], "mode") is not None else None)
    ctx.check(bool(path_ok) and mode == "rb", "IncludeIpsNode.__init__:open", f"opens the file named by the directive in binary mode; found `{unparse(opens[0])[:50]}`")
    # magic
    magic = [s for s in walk_no_nested(fn.node) if isinstance(s, ast.If) and "b'PATCH'" in unparse(s.test)]
    from ..match import canon_test as _ct13

    ok = False
    if len(magic) == 1 and always_raises(magic[0].body):
        t_, pol_ = _ct13(magic[0].test)
        ok = t_.endswith(".read(5) == b'PATCH'") and pol_ is False  # raises exactly when the first five bytes differ from the magic
    ctx.check(ok, "IncludeIpsNode.__init__:magic", "the first five bytes must be PATCH, else the file is rejected")
    env = _loop_env(lp)
    kind, hdr = _sentinel(lp, env)
    if kind == "read":
        users = [u for u in walk_no_nested(lp) if isinstance(u, ast.Call) and unpack_call(u) is not None and isinstance(unpack_call(u)[1], ast.Name) and unpack_call(u)[1].id == hdr]  # type: ignore[index,union-attr]
        ok_h = len(users) == 1 and [f[1] for f in unpack_call(users[0])[0].fields] == [1, 2]  # type: ignore[index]
        other_uses = [n for st in lp.body for n in ast.walk(st) if isinstance(n, ast.Name) and n.id == hdr and isinstance(n.ctx, ast.Load)]
        if not users and other_uses and not (unparse(lp.test) == "True" and len(other_uses) == 1):
            raise AnalysisError(f"IncludeIpsNode.__init__: header bytes `{hdr}` decoded by an unmodelled construct")
        ctx.check(ok_h, "IncludeIpsNode.__init__:header-bytes", f"the three bytes `{hdr}` compared with the marker are the ones decoded as the record offset "
                  "(reading the header again skips three bytes of every record)")
        ctx.ok("IncludeIpsNode.__init__:sentinel", f"records are read until the three header bytes `{hdr}` are the EOF marker, tested before each record")
    elif kind == "peek":
        ctx.fail("IncludeIpsNode.__init__:sentinel", "the EOF marker is looked for through BufferedReader.peek, which returns only what is left in the "
                 "buffer: a well-formed patch whose trailer straddles a buffer boundary (8193 or 8194 bytes) is rejected")
    elif kind == "wrong-size":
        ctx.fail("IncludeIpsNode.__init__:sentinel", f"{hdr} bytes are read and compared with the three-byte EOF marker: the comparison can never succeed (or the record header is misaligned)")
    elif kind == "inverted":
        ctx.fail("IncludeIpsNode.__init__:sentinel", f"the loop runs WHILE the header equals the EOF marker (guard `{unparse(lp.test)}`): no record of a well-formed patch is read")
    elif kind == "extra-exit":
        ctx.fail("IncludeIpsNode.__init__:sentinel", f"the loop also ends on a condition other than the EOF marker (guard `{unparse(lp.test)}`): a patch cut "
                 "off at a record boundary is accepted")
    else:
        raise AnalysisError(f"IncludeIpsNode.__init__: trailer test not recognised (guard `{unparse(lp.test)}`)")
    env = _loop_env(lp)
    ups = [n for n in walk_no_nested(lp) if isinstance(n, ast.Call) and unpack_call(n) is not None]
    for u in ups:
        fmt, src = unpack_call(u)  # type: ignore[misc]
        ctx.count("unpacks")
        src = inline(src, env)
        rd = isinstance(src, ast.Call) and (call_name(src) or "").endswith(".read") and len(src.args) == 1
        n = const_int(src.args[0]) if rd else None  # type: ignore[union-attr]
        ctx.check(rd and n == fmt.size and fmt.order in (">", "!"), f"IncludeIpsNode.__init__:unpack {fmt.text}",
                  f"fixed-size field read of {n} bytes decoded big-endian as {fmt.text!r} ({fmt.size} bytes): a short read raises struct.error")
    ctx.floor("unpacks", 2)
    # offset = hi << 16 | lo (or hi * 0x10000 + lo) from a 3-byte (1,2) big-endian unpack
    off_ok = False
    from ..poly import poly, show as show_poly
    for st in walk_no_nested(lp):
        if not (isinstance(st, ast.Assign) and isinstance(st.value, ast.BinOp) and isinstance(st.value.op, (ast.BitOr, ast.Add))):
            continue
        e = inline(st.value, env)
        if not (isinstance(e, ast.BinOp) and isinstance(e.left, ast.BinOp)):
            continue
        hi_term, lo = e.left, e.right
        shift_ok = (isinstance(hi_term.op, ast.LShift) and const_int(hi_term.right) == 16) or (isinstance(hi_term.op, ast.Mult) and 0x10000 in (const_int(hi_term.right), const_int(hi_term.left)))
        hi = hi_term.left if const_int(hi_term.right) is not None else hi_term.right
        if shift_ok and isinstance(hi, ast.Subscript) and isinstance(lo, ast.Subscript) and unparse(hi.value) == unparse(lo.value) and unparse(hi.slice) == "0" and unparse(lo.slice) == "1":
            u = unpack_call(hi.value)
            if u is not None and [f[1] for f in u[0].fields] == [1, 2] and u[0].order in (">", "!"):
                off_ok = True
    ctx.check(off_ok, "IncludeIpsNode.__init__:offset", "offset = high byte << 16 | low word of a 3-byte big-endian field")
    gl2 = CFG(fn.node)
    for s in walk_no_nested(lp):
        if isinstance(s, (ast.Return, ast.Continue)):
            ctx.fail(f"IncludeIpsNode.__init__:{type(s).__name__.lower()}", "the loop must end only at the EOF marker; an early exit accepts a truncated patch")
        if isinstance(s, ast.Break):
            at_eof = any(t in (f"{hdr} == b'EOF'", f"b'EOF' == {hdr}") and pol for t, pol in gl2.path_conditions(gl2.node_of(s), fn.node, keep=[hdr] if hdr else []))
            ctx.check(at_eof, "IncludeIpsNode.__init__:break", "the loop must end only at the EOF marker; an early exit accepts a truncated patch")
    for t in [n for n in walk_no_nested(fn.node) if isinstance(n, ast.Try)]:
        ctx.fail("IncludeIpsNode.__init__:try", "a handler inside the reader can swallow the struct.error that rejects truncated files")


def r3_delta_and_order(ctx: Ctx) -> None:
    fn, lp = _reader(ctx)
    d = [n for n in walk_no_nested(fn.node) if isinstance(n, ast.Assign) and unparse(n.targets[0]) == "self.delta"]
    ok = len(d) == 1 and unparse(d[0].value).startswith(f"eval_expression({fn.params()[3]}, {fn.params()[2]})")
    ctx.check(ok, "IncludeIpsNode.__init__:delta", "delta is the directive's expression evaluated once (0 when absent)")
    augs = [n for n in walk_no_nested(lp) if isinstance(n, ast.AugAssign)]
    ok = len(augs) == 1 and isinstance(augs[0].op, ast.Add) and unparse(augs[0].value) == "self.delta"
    if ok:
        gd = CFG(fn.node)
        conds = gd.path_conditions(gd.node_of(augs[0]))
        wrong = [(t, p_) for t, p_ in conds if "delta" in t and ((t.endswith("self.delta is None") and p_) or (t == "self.delta" and not p_))]
        ctx.check(not wrong, "IncludeIpsNode.__init__:offset+delta:guard", f"the shift is applied whenever a delta exists (the guard must not be inverted); conditions {sorted(c for c in conds if 'delta' in c[0])}")
    ctx.check(ok, "IncludeIpsNode.__init__:offset+delta", f"each offset is shifted by +delta exactly once; found {[unparse(a) for a in augs]}")
    apps = [c for c in calls_in(lp) if call_name(c) == "self.blocks.append"]
    ok = len(apps) == 1 and augs and unparse(apps[0].args[0]) == f"({unparse(augs[0].target)}, block)" and apps[0] in [s.value for s in lp.body if isinstance(s, ast.Expr)]
    ctx.check(bool(ok), "IncludeIpsNode.__init__:append", "(offset+delta, data) appended once per record, in read order")
    if ok:
        ctx.check(lp.body.index(next(s for s in lp.body if isinstance(s, ast.Expr) and s.value is apps[0])) > max(
            (i for i, s in enumerate(lp.body) if any(x is augs[0] for x in ast.walk(s))), default=-1), "IncludeIpsNode.__init__:append-after-shift", "the tuple holds the shifted offset")
    pe = ctx.repo.func(PROGRAM, "Program.emit")
    arms = [s for s in walk_no_nested(pe.node) if isinstance(s, ast.If) and unparse(s.test) == "isinstance(node, IncludeIpsNode)"]
    if len(arms) != 1:
        ctx.fail("Program.emit:IncludeIpsNode-arm", "no arm re-emits the included patch")
        return
    arm = arms[0]
    ok = len(arm.body) == 1 and isinstance(arm.body[0], ast.For) and unparse(arm.body[0].iter) == "node.blocks" and len(arm.body[0].body) == 1
    if ok:
        f = arm.body[0]
        tgt = [unparse(e) for e in f.target.elts] if isinstance(f.target, ast.Tuple) else []
        call = f.body[0].value if isinstance(f.body[0], ast.Expr) else None
        ok = len(tgt) == 2 and isinstance(call, ast.Call) and call_name(call) == "writer.write_block" and [unparse(a) for a in call.args] == [tgt[1], tgt[0]]
    ctx.check(bool(ok), "Program.emit:IncludeIpsNode-arm", "each (offset, data) of node.blocks is written as write_block(data, offset), in order, and nothing else")
    # the node emits no bytes of its own (checked below): the arm must be reached for an empty emission too, and not skipped by an earlier `continue`
    gpe = CFG(pe.node)
    arm_conds = gpe.path_conditions(gpe.node_of(arm.test), pe.node, keep=["node_bytes"])
    gated = sorted(t for t, pol in arm_conds if pol and ("node_bytes" in t) and "isinstance" not in t)
    ctx.check(not gated, "Program.emit:IncludeIpsNode-arm:reached", f"the included records are forwarded although the node itself emits nothing; the arm is only reached when {gated}")
    if unparse(arm.body[0].iter) == "node.blocks" if (arm.body and isinstance(arm.body[0], ast.For)) else False:
        call_ = arm.body[0].body[0].value if arm.body[0].body and isinstance(arm.body[0].body[0], ast.Expr) else None
        if isinstance(call_, ast.Call) and call_name(call_) == "writer.write_block" and isinstance(arm.body[0].target, ast.Tuple) and len(arm.body[0].target.elts) == 2:
            from ..match import kwarg as _kw13

            tg = [unparse(e) for e in arm.body[0].target.elts]
            bound13 = [unparse(a) if a is not None else None for a in (_kw13(call_, "block", 0), _kw13(call_, "block_address", 1))]
            ctx.check(bound13 == [tg[1], tg[0]], "Program.emit:IncludeIpsNode-arm:address", f"every record goes to its own (shifted) offset; write_block receives {bound13}")
    t = node_class_terms(ctx.repo)["IncludeIpsNode"]
    ctx.check(t[1] == ZERO and t[2] == ZERO, "IncludeIpsNode:layout-neutral", "emits no bytes into the program's block and does not advance the address")
    ctx.count("delta_facts", 5)


def r4_plumbing(ctx: Ctx) -> None:
    pi = ctx.repo.func("a816.parse.parser_states", "parse_include_ips")
    env = single_assignments(pi.node)
    rets = [r for r in walk_no_nested(pi.node) if isinstance(r, ast.Return)]
    ok = len(rets) == 1 and isinstance(rets[0].value, ast.Call) and call_name(rets[0].value) == "IncludeIpsAstNode"
    if ok:
        a = rets[0].value.args  # type: ignore[union-attr]
        ok = len(a) == 3 and unparse(inline(a[0], env)) == "parse_directive_with_quoted_string(p)" and unparse(inline(a[1], env)) == "parse_expression(p)"
    ctx.check(bool(ok), "parse_include_ips", "IncludeIpsAstNode(path string, delta expression, token)")
    seq = [call_name(c) for c in calls_in(pi.node) if call_name(c) in ("parse_directive_with_quoted_string", "parse_expression", "expect_token")]
    ctx.check(seq == ["parse_directive_with_quoted_string", "expect_token", "parse_expression"], "parse_include_ips:order", f"path, comma, expression; found {seq}")
    an = ctx.repo.func("a816.parse.ast.nodes", "IncludeIpsAstNode.__init__")
    st = {unparse(n.targets[0]): unparse(n.value) for n in walk_no_nested(an.node) if isinstance(n, ast.Assign)}
    ctx.check(st.get("self.file_path") == an.params()[1] and st.get("self.expression") == an.params()[2], "IncludeIpsAstNode.__init__", f"fields bound by name; found {st}")
    gi = ctx.repo.func("a816.parse.codegen", "generate_include_ips")
    from ..match import kwarg

    cs = calls_in(gi.node, "IncludeIpsNode")
    ctor = ctx.repo.func(NODES, "IncludeIpsNode.__init__").params()[1:]
    got = [canon(gi.node, kwarg(cs[0], p_, i)) if kwarg(cs[0], p_, i) is not None else None for i, p_ in enumerate(ctor)] if len(cs) == 1 else []
    ok = len(cs) == 1 and got == [f"{gi.params()[0]}.file_path", gi.params()[1], f"{gi.params()[0]}.expression"] and len(cs[0].args) + len(cs[0].keywords) == 3
    ctx.check(ok, "generate_include_ips", f"IncludeIpsNode(node.file_path, resolver, node.expression); found {got}")
    rets = [r for r in walk_no_nested(gi.node) if isinstance(r, ast.Return)]
    # only local bindings, a docstring and the return: nothing is kept across calls
    plain = all(isinstance(s_, ast.Return) or (isinstance(s_, (ast.Assign, ast.AnnAssign)) and all(isinstance(t_, ast.Name) for t_ in (s_.targets if isinstance(s_, ast.Assign) else [s_.target])))
                or (isinstance(s_, ast.Expr) and isinstance(s_.value, ast.Constant)) for s_ in gi.node.body)
    fresh = len(rets) == 1 and isinstance(rets[0].value, ast.List) and len(rets[0].value.elts) == 1 and len(cs) == 1 and canon(gi.node, rets[0].value.elts[0]) == canon(gi.node, cs[0]) and plain
    ctx.check(bool(fresh), "generate_include_ips:fresh-node", "every directive reads its file and applies its own delta: the function only returns a newly built node "
              "(a node cached across directives keeps the first delta and the first file contents)")
    ctx.count("plumbing", 4)



def rb_binding_agreement(ctx: Ctx) -> None:
    from ..ownership import binding_agreement

    binding_agreement(ctx)


def rm_no_process_lifetime_results(ctx: Ctx) -> None:
    """memoising decorators, module-level stores and mutable defaults on this property's mechanism (shared rule, caches.py)"""
    from ..caches import state_rule

    state_rule(ctx)


def ru_names_bound(ctx: Ctx) -> None:
    """a local read but never bound raises NameError for every input that reaches the statement (shared rule, names.py)"""
    from ..names import names_rule

    names_rule(ctx)


RULES = [r1_record_kinds, r2_fields, r3_delta_and_order, r4_plumbing, rb_binding_agreement, rm_no_process_lifetime_results, ru_names_bound]
