"""C10 — .if / .for expansion (selection / iteration-shape clause)."""
from __future__ import annotations

import ast

from ..cfg import handler_names
from ..core import AnalysisError, calls_in, call_name, unparse, walk_no_nested
from ..cfg import CFG
from ..match import canon, inline, single_assignments
from ..facts import assign_facts
from ..report import Ctx
from .c08 import _event

LEVEL = "other"
CODEGEN = "a816.parse.codegen"
PSTATES = "a816.parse.parser_states"
ASTN = "a816.parse.ast.nodes"
EXPLANATION = (
    "generate_if: the condition is the directive's expression evaluated once, only undefined-name errors count as "
    "false, the two arms are mutually exclusive and expand exactly the then / else block; generate_for: bounds are the "
    "two expressions evaluated once each, iteration is range(from, to) with no offset/step/reversal, each iteration "
    "binds the loop symbol to str(k) right after its ScopeNode and expands the body once; parser and AST constructors "
    "bind condition/then/else and symbol/start/end/body in that order."
)
ASSUMPTIONS = ["equality with the hand-expanded program is a metamorphic relation; not decided"]


def r1_if(ctx: Ctx) -> None:
    fn = ctx.repo.func(CODEGEN, "generate_if")
    g = CFG(fn.node)
    tries = [s for s in fn.node.body if isinstance(s, ast.Try)]
    if len(tries) != 1:
        raise AnalysisError("generate_if: expected one try around the condition")
    t = tries[0]
    cond_assigns = [s for s in t.body if isinstance(s, ast.Assign) and isinstance(s.targets[0], ast.Name)]
    if len(t.body) != 1 or len(cond_assigns) != 1:
        raise AnalysisError("generate_if: the guarded statement is not a single assignment of the condition")
    V = cond_assigns[0].targets[0].id  # type: ignore[union-attr]
    src = canon(fn.node, cond_assigns[0].value)
    base = "eval_expression(node.expression, resolver)"
    ctx.check(src in (base, f"{base} != 0", f"bool({base})", f"0 != {base}"), "generate_if:condition",
              f"the condition is the directive's expression, tested for non-zero; found `{src}`")
    for h in t.handlers:
        names = handler_names(h)
        ctx.check(names is not None and names <= {"KeyError", "SymbolNotDefined"}, f"generate_if:except {unparse(h.type)}", "only an undefined name makes the condition false; other errors propagate")
        hv = [unparse(b.value) for b in h.body if isinstance(b, ast.Assign) and unparse(b.targets[0]) == V]
        ctx.check(hv in (["False"], ["0"]) and all(isinstance(b, (ast.Assign, ast.Expr)) for b in h.body), f"generate_if:handler-value {unparse(h.type)}", f"an undefined name counts as false; handler sets {hv}")
    gens = [c for c in calls_in(fn.node) if call_name(c) == "_code_gen"]
    ctx.check(len(gens) == 2, "generate_if:nothing-else", f"{len(gens)} expansions in total (then, else)")
    seen = {}
    for c in gens:
        what = canon(fn.node, c.args[0])
        conds = g.path_conditions(g.node_containing(c), fn.node)
        seen[what] = conds
    then_c = seen.get("node.block.body")
    else_c = seen.get("node.else_block.body")
    def truth(conds, want: bool) -> bool:
        if conds is None:
            return False
        return any(t_ in (V, f"{V} != 0", f"{V} is True") and pol == want for t_, pol in conds) or any(t_ in (f"{V} == 0",) and pol != want for t_, pol in conds)
    ctx.check(truth(then_c, True), "generate_if:then-arm", f"the first block is expanded exactly when the condition is non-zero; conditions: {sorted(then_c) if then_c is not None else None}")
    from ..facts import has_cond as _hc10

    ctx.check(truth(else_c, False) and else_c is not None and _hc10(else_c, "node.else_block", True), "generate_if:else-arm",
              f"otherwise the else block is expanded when there is one, else nothing; conditions: {sorted(else_c) if else_c is not None else None}")
    ctx.count("if_facts", 6)


def r2_for(ctx: Ctx) -> None:
    fn = ctx.repo.func(CODEGEN, "generate_for")
    env = single_assignments(fn.node)
    loops = [s for s in fn.node.body if isinstance(s, ast.For)]
    if len(loops) != 1:
        raise AnalysisError("generate_for: expected one loop")
    lp = loops[0]
    it = lp.iter
    ok = isinstance(it, ast.Call) and call_name(it) == "range" and len(it.args) == 2 and not it.keywords
    if not ok:
        ctx.fail("generate_for:range", f"iterates `{unparse(it)}`; must be range(from, to): a, a+1, ..., b-1 in order")
        return
    lo, hi = (unparse(inline(a, env)) for a in it.args)  # type: ignore[union-attr]
    ctx.check(lo == "eval_expression(node.min_value, resolver)", "generate_for:from", f"first value is the start expression; found {lo}")
    ctx.check(hi == "eval_expression(node.max_value, resolver)", "generate_for:to", f"the bound is the end expression, exclusive; found {hi}")
    k = unparse(lp.target)
    from .c08 import dynamic_scope_dispatch

    dyn = dynamic_scope_dispatch(fn)
    if dyn and not any(_event(s) == "append" for s in lp.body):
        raise AnalysisError(f"generate_for: the iteration scope is opened through a dynamic call `{dyn}`; not modelled")
    events = [(_event(s), s) for s in lp.body]
    seq = [e for e, _ in events if e]
    core = [e for e in seq if e != "body"]
    ctx.check(core == ["append", "use", "scope", "pop", "restore"], "generate_for:iteration-shape", f"per iteration: {seq}")
    # the loop symbol is bound while the body is expanded: .if, inner .for bounds and := evaluate at expansion time
    binds = [c for c in calls_in(lp) if (call_name(c) or "").endswith("current_scope.add_symbol") and unparse(c.args[0]) == "node.symbol"]
    deferred = [c for c in calls_in(lp) if call_name(c) == "SymbolNode" and unparse(c.args[0]) == "node.symbol"]
    gens0 = [c for c in calls_in(lp) if call_name(c) == "_code_gen"]
    if not binds:
        ctx.fail("generate_for:binds-symbol", "the loop symbol is not defined in the iteration's scope while the body is expanded"
                 + (" (only a SymbolNode evaluated at label resolution): `.if k`, `.for j := 0, k` and `v := k` inside the body do not see it" if deferred else ""))
    else:
        b = binds[0]
        ctx.check(unparse(b.args[1]) == k, "generate_for:binds-symbol", f"the loop symbol is bound to the iteration value {k}; found `{unparse(b.args[1])}`")
        def idx(node: ast.AST) -> int:
            return next(i for i, s in enumerate(lp.body) if any(x is node for x in ast.walk(s)))
        i_use = next((i for i, (e, s) in enumerate(events) if e == "use"), -1)
        ctx.check(bool(gens0) and i_use < idx(b) < idx(gens0[0]) and isinstance(lp.body[idx(b)], ast.Expr), "generate_for:bound-before-expansion",
                  "bound in the iteration's own scope (after use_next_scope) and before the body is expanded, unconditionally")
    gens = [c for c in calls_in(lp) if call_name(c) == "_code_gen"]
    ctx.check(len(gens) == 1 and unparse(gens[0].args[0]) == "node.body.body", "generate_for:body-once", "the body is expanded once per iteration")
    if gens:
        gg = CFG(fn.node)
        gn = gg.node_containing(gens[0])
        conds = gg.path_conditions(gn, fn.node)
        head = gg.node_of(lp)
        inside = {id(x) for st_ in lp.body for x in ast.walk(st_)}
        outside = [nid for nid, n in gg.nodes.items() if nid != head and (n.ast is None or id(n.ast) not in inside)]
        skips = head in gg.reachable([m for m, lab in gg.succ[head] if lab == "loop"], blocked=[gn] + outside)
        ctx.check(not conds and not skips, "generate_for:body-every-iteration", "the body is expanded unconditionally on every iteration: each iteration expands it afresh in its own scope "
                  f"(a cached node list would replay the first iteration's scopes); conditions on the expansion: {sorted(conds)}")
    apps = [c for c in calls_in(lp) if (call_name(c) or "").endswith("append_internal_scope")]
    ctx.check(len(apps) == 1, "generate_for:internal-scope", "each iteration has its own internal scope (its labels are not exported to the symbol file)")
    ctx.count("for_facts", 8)


def r3_parser_binding(ctx: Ctx) -> None:
    pi = ctx.repo.func(PSTATES, "parse_if")
    env = single_assignments(pi.node)
    ctor = [c for c in calls_in(pi.node) if call_name(c) == "IfAstNode"]
    if len(ctor) != 1:
        raise AnalysisError("parse_if: constructor not found")
    a = ctor[0].args
    from ..match import canon as _canon10

    ctx.check(_canon10(pi.node, a[0]) == "parse_expression(p)", "parse_if:condition", "first field is the parsed condition")
    ctx.check(_canon10(pi.node, a[1]).startswith("CompoundAstNode(parse_block(p)"), "parse_if:then", "second field is the block that follows")
    ok = isinstance(a[2], ast.Name)
    if ok:
        ef = assign_facts(pi, a[2].id)  # type: ignore[union-attr]
        none_f = [c for v, c in ef if v == "None"]
        blk_f = [c for v, c in ef if v.startswith("CompoundAstNode(parse_block(p)")]
        else_tests = {("p.current().value == 'else'", True), ("p.next().value == 'else'", True)}
        ok = len(ef) == 2 and len(none_f) == 1 and not none_f[0] and len(blk_f) == 1 and bool(else_tests & set(blk_f[0]))
        if ok and ("p.next().value == 'else'", True) in blk_f[0]:
            # the token was consumed to look at it: the other side must put the position back
            restores = [n for n in walk_no_nested(pi.node) if isinstance(n, ast.Assign) and unparse(n.targets[0]) == "p.pos"] + \
                       [c for c in calls_in(pi.node) if call_name(c) == "p.backup"]
            if not restores:
                ok = False
    ctx.check(ok, "parse_if:else", "third field is the block after `else`, None when absent")
    # order of parsing: condition, then, else
    flat = [unparse(s) for s in pi.node.body]
    i_cond = next((i for i, u in enumerate(flat) if "parse_expression(p)" in u), -1)
    i_blocks = [i for i, u in enumerate(flat) if "parse_block(p)" in u]
    ctx.check(i_cond >= 0 and len(i_blocks) == 2 and i_cond < i_blocks[0] < i_blocks[1], "parse_if:order", "condition, then-block, else-block are read in source order")
    ia = ctx.repo.func(ASTN, "IfAstNode.__init__")
    st = {unparse(n.targets[0]): unparse(n.value) for n in walk_no_nested(ia.node) if isinstance(n, ast.Assign)}
    P = ia.params()
    ctx.check(st.get("self.expression") == P[1] and st.get("self.block") == P[2] and st.get("self.else_block") == P[3], "IfAstNode.__init__", f"fields bound in constructor order; found {st}")
    pf = ctx.repo.func(PSTATES, "parse_for")
    env = single_assignments(pf.node)
    ctor = [c for c in calls_in(pf.node) if call_name(c) == "ForAstNode"]
    if len(ctor) != 1:
        raise AnalysisError("parse_for: constructor not found")
    a = ctor[0].args
    names = [unparse(x) for x in a[:4]]
    seq = []
    for s in pf.node.body:
        u = unparse(s)
        if isinstance(s, ast.Assign) and u.endswith("= parse_expression(p)"):
            seq.append(("expr", unparse(s.targets[0])))
        elif "TokenType.COMMA" in u:
            seq.append(("comma", ""))
        elif "TokenType.ASSIGN" in u:
            seq.append(("assign", ""))
    ok = [x[0] for x in seq] == ["assign", "expr", "comma", "expr"] and names[1] == seq[1][1] and names[2] == seq[3][1]
    ctx.check(ok, "parse_for:start-end", f"start is the expression before the comma and end the one after; parse order {seq}, constructor gets {names}")
    ctx.check(names[0].endswith(".value") and _canon10(pf.node, a[3]).startswith("CompoundAstNode(parse_block(p)"), "parse_for:symbol-body", "symbol name then body block")
    fa = ctx.repo.func(ASTN, "ForAstNode.__init__")
    st = {unparse(n.targets[0]): unparse(n.value) for n in walk_no_nested(fa.node) if isinstance(n, ast.Assign)}
    P = fa.params()
    ctx.check(st.get("self.symbol") == P[1] and st.get("self.min_value") == P[2] and st.get("self.max_value") == P[3] and st.get("self.body") == P[4], "ForAstNode.__init__", f"fields bound in constructor order; found {st}")
    ctx.count("parser_facts", 8)



def r4_only_the_condition_is_guarded(ctx: Ctx) -> None:
    """`a condition over an undefined name counts as false` covers the condition only: the selected block is expanded outside the
    handler, so an undefined name inside it is an error, as in the hand-expanded program (shared with C14.R8)"""
    from .c14 import recovery_scope

    recovery_scope(ctx)


def r5_named_scope_in_iteration(ctx: Ctx) -> None:
    """`each iteration in its own scope`: a named scope inside a loop body exports into the scope that directly encloses it (the
    iteration's), so `s.v` read in one iteration is that iteration's (shared with C08.R4)"""
    from .c08 import r4_export

    r4_export(ctx)


def r6_no_capacity_limit_on_scope_log(ctx: Ctx) -> None:
    """a loop may run any number of iterations: no rejection keyed on the size of the append-only scope log (shared with C09.R7)"""
    from .c09 import scope_log_is_not_a_depth

    scope_log_is_not_a_depth(ctx)


def r7_iteration_scope_replay(ctx: Ctx) -> None:
    """`each iteration in its own scope`: the internal scope of an iteration is a child of the scope the loop stands in and is entered
    and left again in every pass (shared with C08.R2)"""
    from .c08 import r2_replay_agreement

    r2_replay_agreement(ctx)


def rb_binding_agreement(ctx: Ctx) -> None:
    from ..ownership import binding_agreement

    binding_agreement(ctx)


def rm_no_process_lifetime_results(ctx: Ctx) -> None:
    """memoising decorators, module-level stores and mutable defaults on this property's mechanism (shared rule, caches.py)"""
    from ..caches import state_rule

    state_rule(ctx)


def ru_names_bound(ctx: Ctx) -> None:
    """a local read but never bound raises NameError for every input that reaches the statement (shared rule, names.py)"""
    from ..names import names_rule

    names_rule(ctx)



def r8_assignment_vs_label_lookahead(ctx: Ctx) -> None:
    """`.for k:=0, n` and `k := 0` are the same header: the `:` / `:=` decision of lex_identifier (C16.R6)"""
    from .c16 import r6_label_vs_assign_lookahead

    r6_label_vs_assign_lookahead(ctx)


def r9_body_scopes(ctx: Ctx) -> None:
    """a loop or branch body that defines names from the loop variable evaluates them in its own scope (C08.R6), and a { } block inside a body leaves its scope again at expansion time (C08.R1)"""
    from .c08 import r6_macro_arguments_in_caller_scope as _c08_r6_macro_arguments_in_caller_scope
    from .c08 import r1_generator_pairing as _c08_r1_generator_pairing

    _c08_r6_macro_arguments_in_caller_scope(ctx)
    _c08_r1_generator_pairing(ctx)


def r10_bound_and_condition_values(ctx: Ctx) -> None:
    """loop bounds and conditions are expressions: their operator precedence and associativity decide the iteration count and the branch taken (C06.R1/R2)"""
    from .c06 import r1_precedence_order, r2_associativity

    r1_precedence_order(ctx)
    r2_associativity(ctx)


RULES = [r1_if, r2_for, r3_parser_binding, r4_only_the_condition_is_guarded, r5_named_scope_in_iteration, r6_no_capacity_limit_on_scope_log, r7_iteration_scope_replay, r8_assignment_vs_label_lookahead, r9_body_scopes, r10_bound_and_condition_values, rb_binding_agreement, rm_no_process_lifetime_results, ru_names_bound]
