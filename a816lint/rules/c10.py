"""C10 — .if / .for expansion (selection / iteration-shape clause)."""
from __future__ import annotations

import ast

from ..cfg import handler_names
from ..core import AnalysisError, calls_in, call_name, unparse, walk_no_nested
from ..match import inline, single_assignments
from ..report import Ctx
from .c08 import _event

LEVEL = "other"
CODEGEN = "a816.parse.codegen"
PSTATES = "a816.parse.parser_states"
ASTN = "a816.parse.ast.nodes"
EXPLANATION = (
    "generate_if: the condition is the directive's expression evaluated once, only undefined-name errors count as "
    "false, the two arms are mutually exclusive and expand exactly the then / else block; generate_for: bounds are the "
    "two expressions evaluated once each, iteration is range(from, to) with no offset/step/reversal, each iteration "
    "binds the loop symbol to str(k) right after its ScopeNode and expands the body once; parser and AST constructors "
    "bind condition/then/else and symbol/start/end/body in that order."
)
ASSUMPTIONS = ["equality with the hand-expanded program is a metamorphic relation; not decided"]


def r1_if(ctx: Ctx) -> None:
    fn = ctx.repo.func(CODEGEN, "generate_if")
    env = single_assignments(fn.node)
    tries = [s for s in fn.node.body if isinstance(s, ast.Try)]
    if len(tries) != 1:
        raise AnalysisError("generate_if: expected one try around the condition")
    t = tries[0]
    ok = len(t.body) == 1 and unparse(t.body[0]) == "condition = eval_expression(node.expression, resolver)"
    ctx.check(ok, "generate_if:condition", f"the condition is the directive's expression; found {[unparse(b) for b in t.body]}")
    for h in t.handlers:
        names = handler_names(h)
        ctx.check(names is not None and names <= {"KeyError", "SymbolNotDefined"}, f"generate_if:except {unparse(h.type)}", "only an undefined name makes the condition false; other errors propagate")
        ctx.check([unparse(b) for b in h.body] in (["condition = False"], ["condition = 0"]), f"generate_if:handler-value {unparse(h.type)}", "an undefined name counts as false")
    sel = [s for s in fn.node.body if isinstance(s, ast.If)]
    if len(sel) != 1:
        raise AnalysisError("generate_if: expected one selection statement")
    s = sel[0]
    ctx.check(unparse(s.test) == "condition", "generate_if:test", f"selects on the truth of the condition (non-zero); found `{unparse(s.test)}`")
    def expands(body: list[ast.stmt]) -> list[str]:
        return [unparse(inline(c.args[0], env)) for b in body for c in calls_in(b) if call_name(c) == "_code_gen"]
    ctx.check(expands(s.body) == ["node.block.body"], "generate_if:then-arm", f"expands exactly the first block; found {expands(s.body)}")
    els = s.orelse
    ok = len(els) == 1 and isinstance(els[0], ast.If) and unparse(inline(els[0].test, env)) == "node.else_block" and expands(els[0].body) == ["node.else_block.body"] and not els[0].orelse
    ctx.check(ok, "generate_if:else-arm", "otherwise expands exactly the else block when there is one, else nothing")
    gens = [c for c in calls_in(fn.node) if call_name(c) == "_code_gen"]
    ctx.check(len(gens) == 2, "generate_if:nothing-else", f"{len(gens)} expansions in total")
    ctx.count("if_facts", 6)


def r2_for(ctx: Ctx) -> None:
    fn = ctx.repo.func(CODEGEN, "generate_for")
    env = single_assignments(fn.node)
    loops = [s for s in fn.node.body if isinstance(s, ast.For)]
    if len(loops) != 1:
        raise AnalysisError("generate_for: expected one loop")
    lp = loops[0]
    it = lp.iter
    ok = isinstance(it, ast.Call) and call_name(it) == "range" and len(it.args) == 2 and not it.keywords
    if not ok:
        ctx.fail("generate_for:range", f"iterates `{unparse(it)}`; must be range(from, to): a, a+1, ..., b-1 in order")
        return
    lo, hi = (unparse(inline(a, env)) for a in it.args)  # type: ignore[union-attr]
    ctx.check(lo == "eval_expression(node.min_value, resolver)", "generate_for:from", f"first value is the start expression; found {lo}")
    ctx.check(hi == "eval_expression(node.max_value, resolver)", "generate_for:to", f"the bound is the end expression, exclusive; found {hi}")
    k = unparse(lp.target)
    events = [(_event(s), s) for s in lp.body]
    seq = [e for e, _ in events if e]
    core = [e for e in seq if e != "body"]
    ctx.check(core == ["append", "use", "scope", "pop", "restore"], "generate_for:iteration-shape", f"per iteration: {seq}")
    # the loop symbol is bound while the body is expanded: .if, inner .for bounds and := evaluate at expansion time
    binds = [c for c in calls_in(lp) if (call_name(c) or "").endswith("current_scope.add_symbol") and unparse(c.args[0]) == "node.symbol"]
    deferred = [c for c in calls_in(lp) if call_name(c) == "SymbolNode" and unparse(c.args[0]) == "node.symbol"]
    gens0 = [c for c in calls_in(lp) if call_name(c) == "_code_gen"]
    if not binds:
        ctx.fail("generate_for:binds-symbol", "the loop symbol is not defined in the iteration's scope while the body is expanded"
                 + (" (only a SymbolNode evaluated at label resolution): `.if k`, `.for j := 0, k` and `v := k` inside the body do not see it" if deferred else ""))
    else:
        b = binds[0]
        ctx.check(unparse(b.args[1]) == k, "generate_for:binds-symbol", f"the loop symbol is bound to the iteration value {k}; found `{unparse(b.args[1])}`")
        def idx(node: ast.AST) -> int:
            return next(i for i, s in enumerate(lp.body) if any(x is node for x in ast.walk(s)))
        i_use = next((i for i, (e, s) in enumerate(events) if e == "use"), -1)
        ctx.check(bool(gens0) and i_use < idx(b) < idx(gens0[0]) and isinstance(lp.body[idx(b)], ast.Expr), "generate_for:bound-before-expansion",
                  "bound in the iteration's own scope (after use_next_scope) and before the body is expanded, unconditionally")
    gens = [c for c in calls_in(lp) if call_name(c) == "_code_gen"]
    ctx.check(len(gens) == 1 and unparse(gens[0].args[0]) == "node.body.body", "generate_for:body-once", "the body is expanded once per iteration")
    top = [s for s in lp.body if any(x is g for g in gens for x in ast.walk(s))]
    ok = len(top) == 1 and isinstance(top[0], ast.AugAssign) and unparse(top[0].target) == "code" and top[0].value is gens[0]
    ctx.check(ok, "generate_for:body-every-iteration", "the expansion `code += _code_gen(node.body.body, ...)` is an unconditional statement of the loop body: each iteration "
              "expands the body afresh in its own scope (a cached node list would replay the first iteration's scopes)")
    apps = [c for c in calls_in(lp) if (call_name(c) or "").endswith("append_internal_scope")]
    ctx.check(len(apps) == 1, "generate_for:internal-scope", "each iteration has its own internal scope (its labels are not exported to the symbol file)")
    ctx.count("for_facts", 8)


def r3_parser_binding(ctx: Ctx) -> None:
    pi = ctx.repo.func(PSTATES, "parse_if")
    env = single_assignments(pi.node)
    ctor = [c for c in calls_in(pi.node) if call_name(c) == "IfAstNode"]
    if len(ctor) != 1:
        raise AnalysisError("parse_if: constructor not found")
    a = ctor[0].args
    ctx.check(unparse(inline(a[0], env)) == "parse_expression(p)", "parse_if:condition", "first field is the parsed condition")
    ctx.check(unparse(inline(a[1], env)).startswith("CompoundAstNode(parse_block(p)"), "parse_if:then", "second field is the block that follows")
    els = [s for s in pi.node.body if isinstance(s, ast.If) and "'else'" in unparse(s.test)]
    ok = len(els) == 1 and unparse(a[2]) == "else_body" and any(isinstance(b, ast.Assign) and unparse(b.targets[0]) == "else_body" and unparse(b.value).startswith("CompoundAstNode(parse_block(p)") for b in els[0].body)
    init_none = any(isinstance(s, ast.Assign) and unparse(s) == "else_body = None" for s in pi.node.body)
    ctx.check(ok and init_none, "parse_if:else", "third field is the block after `else`, None when absent")
    # order of parsing: condition, then, else
    order = [s.lineno for s in pi.node.body if "parse_expression(p)" in unparse(s) or "parse_block(p)" in unparse(s)]
    ctx.check(order == sorted(order) and len(order) == 3, "parse_if:order", "condition, then-block, else-block are read in source order")
    ia = ctx.repo.func(ASTN, "IfAstNode.__init__")
    st = {unparse(n.targets[0]): unparse(n.value) for n in walk_no_nested(ia.node) if isinstance(n, ast.Assign)}
    P = ia.params()
    ctx.check(st.get("self.expression") == P[1] and st.get("self.block") == P[2] and st.get("self.else_block") == P[3], "IfAstNode.__init__", f"fields bound in constructor order; found {st}")
    pf = ctx.repo.func(PSTATES, "parse_for")
    env = single_assignments(pf.node)
    ctor = [c for c in calls_in(pf.node) if call_name(c) == "ForAstNode"]
    if len(ctor) != 1:
        raise AnalysisError("parse_for: constructor not found")
    a = ctor[0].args
    names = [unparse(x) for x in a[:4]]
    seq = []
    for s in pf.node.body:
        u = unparse(s)
        if isinstance(s, ast.Assign) and u.endswith("= parse_expression(p)"):
            seq.append(("expr", unparse(s.targets[0])))
        elif "TokenType.COMMA" in u:
            seq.append(("comma", ""))
        elif "TokenType.ASSIGN" in u:
            seq.append(("assign", ""))
    ok = [x[0] for x in seq] == ["assign", "expr", "comma", "expr"] and names[1] == seq[1][1] and names[2] == seq[3][1]
    ctx.check(ok, "parse_for:start-end", f"start is the expression before the comma and end the one after; parse order {seq}, constructor gets {names}")
    ctx.check(names[0].endswith(".value") and unparse(inline(a[3], env)).startswith("CompoundAstNode(parse_block(p)"), "parse_for:symbol-body", "symbol name then body block")
    fa = ctx.repo.func(ASTN, "ForAstNode.__init__")
    st = {unparse(n.targets[0]): unparse(n.value) for n in walk_no_nested(fa.node) if isinstance(n, ast.Assign)}
    P = fa.params()
    ctx.check(st.get("self.symbol") == P[1] and st.get("self.min_value") == P[2] and st.get("self.max_value") == P[3] and st.get("self.body") == P[4], "ForAstNode.__init__", f"fields bound in constructor order; found {st}")
    ctx.count("parser_facts", 8)



def rb_binding_agreement(ctx: Ctx) -> None:
    from ..ownership import binding_agreement

    binding_agreement(ctx)


RULES = [r1_if, r2_for, r3_parser_binding, rb_binding_agreement]
