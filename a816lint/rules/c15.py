"""C15 — every input terminates (loop-variant clause)."""
from __future__ import annotations

import ast
import re

from ..cfg import CFG, ENTRY, EXIT, always_raises
from ..core import AnalysisError, FunctionInfo, calls_in, call_name, const_str, dotted, unparse, walk_no_nested
from ..eofsim import STUCK, EofSim
from ..match import const_int, unpack_call
from ..report import Ctx
from ..resolve import get_resolver

LEVEL = "other"
EXPLANATION = (
    "All iteration in the shipped packages is a census of hand-written while loops (for-loops iterate finite "
    "sequences). For each loop two obligations are decided on the CFG: (progress) no cycle from the loop head back "
    "to itself avoids a variant step - a cursor-consuming call or edge (Scanner.next, a successful accept / "
    "accept_prefix, Parser.next, a callee that always consumes), a stack pop under a len() guard, a cursor increment "
    "provably >= 1, a fixed-size struct.unpack(read(n)), or a compare-with-snapshot guard that raises; (end of input) "
    "under the abstract state 'input exhausted' the loop exits or raises (abstract evaluation of the loop body, "
    "interprocedural). Plus: every accept_run/ignore_run call site is consistent with the EOF sentinel, recursive "
    "descent consumes a token before re-entering, and parent chains are finite."
)
ASSUMPTIONS = ["library calls terminate", "unbounded recursion (self-including files, unconditional recursive macros) ends in RecursionError/OSError, an error, not a hang",
               "wall-clock bounds are not decided"]

SCOPE_MODULES = None  # all of a816.* and `script`
VARIANT_CALLS_SCANNER = {"next"}
ROOTS = ["a816.parse.scanner_states:lex_initial", "a816.parse.scanner_states:lex_expression", "a816.parse.parser_states:parse_initial",
         "a816.parse.parser_states:parse_expression_ep", "a816.parse.mzparser:MZParser.parse_as_ast", "a816.parse.scanner:Scanner.scan",
         "a816.program:Program.assemble_string_with_emitter", "script:Table.to_bytes", "script:Table.to_text", "script:Table.include",
         "a816.writers:IPSWriter.write_block", "a816.parse.ast.expression:eval_expression_str"]


def in_scope(fn: FunctionInfo) -> bool:
    return fn.module.name.startswith("a816") or fn.module.name == "script"


def _recv_kind(fn: FunctionInfo) -> str:
    ps = fn.params()
    if fn.cls is not None and fn.cls.name == "Scanner":
        return "scanner"
    if fn.cls is not None and fn.cls.name == "Parser":
        return "parser"
    if ps and ps[0] == "s":
        return "scanner"
    if "p" in ps:
        return "parser"
    return "generic"


def _accept_polarity(test: ast.AST, recv: str) -> str | None:
    """'T' if the test is true only when an accept consumed, 'F' if it is false only when an accept consumed."""
    def only_accepts(n: ast.AST) -> bool:
        if isinstance(n, ast.Call):
            return (call_name(n) or "") in (f"{recv}.accept", f"{recv}.accept_prefix")
        if isinstance(n, ast.BoolOp):
            return all(only_accepts(v) for v in n.values)
        return False
    if only_accepts(test):
        return "T"
    if isinstance(test, ast.UnaryOp) and isinstance(test.op, ast.Not) and only_accepts(test.operand) and isinstance(test.operand, ast.Call):
        return "F"
    return None


def consuming_parser_functions(ctx: Ctx) -> set[str]:
    """parser functions every normal return of which has consumed at least one token (fixpoint)."""
    mod = ctx.repo.module("a816.parse.parser_states")
    fns = {f.name: f for f in mod.functions.values() if "p" in f.params()}
    cfgs = {n: CFG(f.node) for n, f in fns.items()}
    consuming: set[str] = set()
    changed = True
    while changed:
        changed = False
        for name, f in fns.items():
            if name in consuming:
                continue
            g = cfgs[name]
            V = []
            B = []
            for nid, node in g.nodes.items():
                if node.ast is None:
                    continue
                roots = [node.ast] if node.kind != "for" else [node.ast.iter]  # type: ignore[attr-defined]
                if node.kind == "handler":
                    continue
                for r in roots:
                    for c in [x for x in walk_no_nested(r) if isinstance(x, ast.Call)]:
                        cn = call_name(c) or ""
                        if cn == "p.next" or (cn in consuming and any(unparse(a) == "p" for a in c.args)):
                            V.append(nid)
                        if cn == "p.backup":
                            B.append(nid)
                    for x in walk_no_nested(r):
                        if isinstance(x, ast.Assign) and unparse(x.targets[0]) == "p.pos":
                            B.append(nid)
            ok = EXIT not in g.reachable([ENTRY], blocked=V)
            for b in B:
                starts = [m for m, _ in g.succ[b]]
                if EXIT in g.reachable(starts, blocked=[v for v in V if v != b]):
                    ok = False
            if ok:
                consuming.add(name)
                changed = True
    return consuming


def _ge1(expr: ast.AST, fn: FunctionInfo, loop: ast.While, ctx: Ctx) -> str | None:
    """why `expr` is >= 1 inside the loop, or None"""
    c = const_int(expr)
    if c is not None:
        return f"constant {c}" if c >= 1 else None
    if isinstance(expr, ast.Name):
        # loop variable of `for v in range(hi, 0, -1)`
        for n in walk_no_nested(loop):
            if isinstance(n, ast.For) and unparse(n.target) == expr.id and isinstance(n.iter, ast.Call) and call_name(n.iter) == "range" and len(n.iter.args) == 3 \
                    and const_int(n.iter.args[1]) == 0 and const_int(n.iter.args[2]) == -1:
                return "variable of range(hi, 0, -1)"
        defs = [n for n in walk_no_nested(loop) if isinstance(n, ast.Assign) and unparse(n.targets[0]) == expr.id]
        if len(defs) == 1:
            return _ge1(defs[0].value, fn, loop, ctx)
    if isinstance(expr, ast.Call) and call_name(expr) == "min" and len(expr.args) == 2:
        # min(C, len(X) - k) under guard X[k:] / k < len(X)
        consts = [const_int(a) for a in expr.args]
        other = [a for a, c in zip(expr.args, consts) if c is None]
        cs = [c for c in consts if c is not None]
        g = unparse(loop.test)
        if len(cs) == 1 and cs[0] >= 1 and len(other) == 1:
            m = re.fullmatch(r"len\((\w+)\) - (\w+)", unparse(other[0]))
            if m and g in (f"{m.group(1)}[{m.group(2)}:]", f"{m.group(2)} < len({m.group(1)})"):
                return f"min({cs[0]}, remaining) with remaining >= 1 under the guard"
    mname = None
    if isinstance(expr, ast.Call) and call_name(expr) == "len" and isinstance(expr.args[0], ast.Call) and (call_name(expr.args[0]) or "").endswith(".group"):
        # len(m.group()) of a regex that cannot match empty
        mname = (call_name(expr.args[0]) or "").split(".")[0]
    if isinstance(expr, ast.BinOp) and isinstance(expr.op, ast.Sub) and isinstance(expr.left, ast.Call) and isinstance(expr.right, ast.Call) \
            and (call_name(expr.left) or "").endswith(".end") and (call_name(expr.right) or "").endswith(".start") \
            and (call_name(expr.left) or "").split(".")[0] == (call_name(expr.right) or "").split(".")[0] and not expr.left.args and not expr.right.args:
        mname = (call_name(expr.left) or "").split(".")[0]
    if mname is not None:
        for n in walk_no_nested(fn.node):
            if isinstance(n, ast.Assign) and unparse(n.targets[0]) == mname and isinstance(n.value, ast.Call) and (call_name(n.value) or "").endswith(".match"):
                rx = (call_name(n.value) or "").rsplit(".", 1)[0]
                pat = _regex_literal(fn, rx)
                if pat is not None:
                    import re._parser as rp  # type: ignore[import-not-found]
                    lo, _hi = rp.parse(pat).getwidth()
                    if lo >= 1:
                        return f"match of {pat!r}, minimum width {lo}"
    return None


def _regex_literal(fn: FunctionInfo, expr: str) -> str | None:
    if expr.startswith("self.") and fn.cls is not None:
        attr = expr.split(".", 1)[1]
        for st in fn.cls.node.body:
            if isinstance(st, ast.Assign) and unparse(st.targets[0]) == attr and isinstance(st.value, ast.Call) and call_name(st.value) == "re.compile":
                return const_str(st.value.args[0])
    return None


def _bounds_from_above(test: ast.AST, var: str) -> bool:
    """the guard stops the loop once `var` has grown past a bound (so adding >= 1 each round ends it); `!=`/`==` guards do not"""
    for c in ast.walk(test):
        if isinstance(c, ast.Compare) and len(c.ops) == 1:
            l, r, o = unparse(c.left), unparse(c.comparators[0]), c.ops[0]
            if l == var and isinstance(o, (ast.Lt, ast.LtE)):
                return True
            if r == var and isinstance(o, (ast.Gt, ast.GtE)):
                return True
        if isinstance(c, ast.Subscript) and isinstance(c.slice, ast.Slice) and c.slice.lower is not None and unparse(c.slice.lower) == var and c.slice.upper is None:
            return True  # seq[var:] is falsy once var >= len(seq)
    return False


def variant_sets(ctx: Ctx, fn: FunctionInfo, g: CFG, loop: ast.While, consuming: set[str]) -> tuple[list[int], list[tuple[int, int, str]], list[str]]:
    kind = _recv_kind(fn)
    recv = {"scanner": "s" if fn.params() and fn.params()[0] == "s" else "self", "parser": "p" if "p" in fn.params() else "self"}.get(kind, "")
    V: list[int] = []
    E: list[tuple[int, int, str]] = []
    why: list[str] = []
    guard_names = {n.id for n in ast.walk(loop.test) if isinstance(n, ast.Name)} | {unparse(n) for n in ast.walk(loop.test) if isinstance(n, ast.Attribute)}
    for nid, node in g.nodes.items():
        if node.ast is None or node.kind == "handler":
            continue
        root = node.ast if node.kind != "for" else node.ast.iter  # type: ignore[attr-defined]
        if isinstance(root, ast.With):
            continue
        calls = [c for c in walk_no_nested(root) if isinstance(c, ast.Call)]
        for c in calls:
            cn = call_name(c) or ""
            if kind == "scanner" and cn == f"{recv}.next":
                V.append(nid); why.append("Scanner.next()")
            if kind == "parser" and (cn == f"{recv}.next" or (cn in consuming and any(unparse(a) == "p" for a in c.args))):
                V.append(nid); why.append(cn + "()")
            if cn.endswith(".pop") and not c.args:
                stack = cn.rsplit(".", 1)[0]
                if f"len({stack})" in unparse(loop.test) or unparse(loop.test) == stack:
                    V.append(nid); why.append(f"{stack}.pop() under a len() guard")
            u = unpack_call(c)
            if u is not None:
                fmt, src = u
                if isinstance(src, ast.Call) and (call_name(src) or "").endswith(".read") and src.args and const_int(src.args[0]) == fmt.size and fmt.size > 0:
                    V.append(nid); why.append(f"struct.unpack({fmt.text!r}, read({fmt.size})) raises at end of file")
        if node.kind == "test" and kind == "scanner":
            pol = _accept_polarity(node.ast, recv)
            if pol:
                for m, lab in g.succ[nid]:
                    if lab == pol:
                        E.append((nid, m, lab)); why.append(f"successful accept ({pol} edge)")
            # compare-with-snapshot progress guard
            if isinstance(node.ast, ast.Compare) and isinstance(node.ast.ops[0], ast.Eq) and isinstance(node.stmt, ast.If) and always_raises(node.stmt.body):
                l, r = unparse(node.ast.left), unparse(node.ast.comparators[0])
                snaps = [s for s in walk_no_nested(loop) if isinstance(s, ast.Assign) and unparse(s.targets[0]) in (l, r) and unparse(s.value) in (l, r)]
                if snaps and {l, r} & {f"{recv}.pos"}:
                    # the snapshot must be taken in the same iteration, before the state function runs
                    sn = g.node_of(snaps[0])
                    if g.every_path_passes(g.node_of(loop.test), nid, [sn]):
                        for m, lab in g.succ[nid]:
                            if lab == "F":
                                E.append((nid, m, lab)); why.append("cursor compared with its snapshot; no progress raises")
        st = node.ast
        if isinstance(st, ast.Assign) and len(st.targets) == 1 and isinstance(st.targets[0], ast.Name) and unparse(st.value) == f"{st.targets[0].id}.parent" \
                and st.targets[0].id in {x.id for x in ast.walk(loop.test) if isinstance(x, ast.Name)}:
            V.append(nid); why.append(f"{st.targets[0].id} = {st.targets[0].id}.parent (parent chains are finite: parents are fixed at construction, R4)")
        if isinstance(st, ast.AugAssign) and isinstance(st.op, ast.Add):
            tgt = unparse(st.target)
            if kind == "scanner" and tgt == f"{recv}.pos" and (const_int(st.value) or 0) >= 1:
                V.append(nid); why.append("cursor += const")
            if (tgt in guard_names or any(tgt == gname for gname in guard_names)) and _bounds_from_above(loop.test, tgt):
                reason = _ge1(st.value, fn, loop, ctx)
                if reason:
                    V.append(nid); why.append(f"{tgt} += {unparse(st.value)} ({reason})")
    return V, E, why


def weak_variants(fn: FunctionInfo, g: CFG, loop: ast.While, V: list[int]) -> list[int]:
    """steps that move a quantity the guard depends on by an amount the analysis cannot bound (`pos += item.width`, `rest = text[pos:]`
    re-derived from such a cursor, a call handing the scanner / parser to a function without a summary): progress may well be made,
    it is just not provable here"""
    guard = {n.id for n in ast.walk(loop.test) if isinstance(n, ast.Name)} | {unparse(n) for n in ast.walk(loop.test) if isinstance(n, ast.Attribute)}
    feeds = set(guard)
    for _ in range(2):
        for n in walk_no_nested(fn.node):
            if isinstance(n, ast.Assign) and len(n.targets) == 1 and unparse(n.targets[0]) in feeds:
                feeds |= {x.id for x in ast.walk(n.value) if isinstance(x, ast.Name)} | {unparse(x) for x in ast.walk(n.value) if isinstance(x, ast.Attribute)}
    W: list[int] = []
    inside = {id(x) for st_ in loop.body for x in ast.walk(st_)}
    for nid, node in g.nodes.items():
        st = node.ast
        if st is None or nid in V or id(st) not in inside:
            continue
        if isinstance(st, ast.AugAssign) and isinstance(st.op, (ast.Add, ast.Sub)) and unparse(st.target) in feeds and const_int(st.value) is None:
            # weak = the amount is opaque (a field of some object, the result of a function without a summary).  A step of known size
            # that the guard does not turn into an exit (`k += 1` under `k != n`) or an arithmetic amount that can be 0
            # (`min(C, len(b) - k - 1)`) is not weak: it is no variant.
            amount: ast.AST = st.value
            if isinstance(amount, ast.Name):
                defs = [n for n in walk_no_nested(loop) if isinstance(n, ast.Assign) and unparse(n.targets[0]) == amount.id]
                if len(defs) == 1:
                    amount = defs[0].value
            opaque = any((isinstance(x, ast.Attribute) and not unparse(x).startswith("self.")) or
                         (isinstance(x, ast.Call) and (call_name(x) or "") not in ("len", "min", "max", "abs", "int")) for x in ast.walk(amount)) or isinstance(amount, ast.Name)
            if opaque:
                W.append(nid)
    return W


def _len_aliases_inlined(fn: FunctionInfo) -> FunctionInfo:
    """a local bound once to `len(<parameter>)`, the parameter never rebound, is that (invariant) length: guards and steps written with the
    local read like the ones written with len()"""
    import dataclasses

    from ..match import inline, single_assignments

    stored = {n.id for n in ast.walk(fn.node) if isinstance(n, ast.Name) and isinstance(n.ctx, ast.Store)}
    env = {k: v for k, v in single_assignments(fn.node).items()
           if isinstance(v, ast.Call) and call_name(v) == "len" and len(v.args) == 1 and isinstance(v.args[0], ast.Name) and v.args[0].id in fn.params() and v.args[0].id not in stored}
    if not env:
        return fn
    return dataclasses.replace(fn, node=ast.fix_missing_locations(inline(fn.node, env)))


def r1_progress(ctx: Ctx) -> None:
    consuming = consuming_parser_functions(ctx)
    ctx.note(f"parser functions that always consume a token: {sorted(consuming)}")
    for need in ("parse_decl", "_parse_expression", "parse_expression", "parse_block"):
        if need not in consuming:
            raise AnalysisError(f"summary lost: {need} no longer proven to consume a token on every normal return")
    live = get_resolver(ctx.repo).reachable_from(ROOTS)
    for fn in ctx.repo.all_functions():
        if not in_scope(fn):
            continue
        if not any(isinstance(n, ast.While) for n in walk_no_nested(fn.node)):
            continue
        fn = _len_aliases_inlined(fn)
        loops = [n for n in walk_no_nested(fn.node) if isinstance(n, ast.While)]
        g = CFG(fn.node)
        for lp in loops:
            ctx.count("while_loops")
            if fn.fq not in live:
                ctx.note(f"{fn.where}: loop `while {unparse(lp.test)[:40]}` is in a function unreachable from every entry point (dead code); not armed")
                ctx.ok(f"{fn.where}:while {unparse(lp.test)[:50]}:progress", "dead code (no caller)")
                continue
            head = g.node_of(lp.test)
            V, E, why = variant_sets(ctx, fn, g, lp, consuming)
            construct = f"{fn.where}:while {unparse(lp.test)[:50]}"
            if head in V:
                ctx.ok(construct + ":progress", "the guard itself consumes")
                continue
            starts = [m for m, lab in g.succ[head] if lab == "T" and (head, m, lab) not in E]
            if isinstance(lp.test, ast.Constant) and lp.test.value:
                starts = [m for m, lab in g.succ[head]]
            # only trips round *this* loop count: stay inside its body (an enclosing loop's next iteration is that loop's business)
            inside = {id(x) for st_ in lp.body for x in ast.walk(st_)}
            outside = [nid for nid, n in g.nodes.items() if nid != head and (n.ast is None or id(n.ast) not in inside)]
            reach = g.reachable(starts, blocked=list(V) + outside, blocked_edges=E, labels_excluded=["exc"])
            ok = head not in reach
            if not ok:
                W = weak_variants(fn, g, lp, V)
                if W and head not in g.reachable(starts, blocked=list(V) + W + outside, blocked_edges=E, labels_excluded=["exc"]):
                    ctx.errors.append(f"{ctx.current_rule}: {construct}: every trip round the loop passes `{unparse(g.nodes[W[0]].ast)[:40]}`, whose step the analysis "
                                      "cannot bound from below; progress is not decided")
                    continue
            ctx.check(ok, construct + ":progress",
                      ("every trip round the loop passes a variant step: " + ", ".join(sorted(set(why)))[:160]) if ok else
                      "an iteration can return to the loop test without consuming input / shrinking its variant" + (f" (variant steps seen: {sorted(set(why))})" if why else " (no variant step found)"))
    ctx.floor("while_loops", 13)
    # for-loops iterate finite sequences that the body does not grow
    for fn in ctx.repo.all_functions():
        if not in_scope(fn):
            continue
        for lp in [n for n in walk_no_nested(fn.node) if isinstance(n, ast.For)]:
            ctx.count("for_loops")
            it = unparse(lp.iter)
            grows = [c for c in calls_in(lp) if isinstance(c.func, ast.Attribute) and c.func.attr in ("append", "extend", "insert") and unparse(c.func.value) == it]
            ctx.check(not grows, f"{fn.where}:for {it[:40]}", "the iterated sequence is not extended by the loop body")


def r2_end_of_input(ctx: Ctx) -> None:
    rs = get_resolver(ctx.repo)
    live = rs.reachable_from(ROOTS)
    eof_const = None
    tok = ctx.repo.module("a816.parse.tokens")
    if "EOF" in tok.assigns and isinstance(tok.assigns["EOF"], ast.Constant):
        eof_const = tok.assigns["EOF"].value
    if not isinstance(eof_const, str) or len(eof_const) != 1:
        raise AnalysisError("tokens.EOF sentinel is not a one-character string literal")
    pk = ctx.repo.func("a816.parse.scanner", "Scanner.peek")
    ctx.check(any(isinstance(r, ast.Return) and unparse(r.value) == "EOF" for h in [n for n in walk_no_nested(pk.node) if isinstance(n, ast.ExceptHandler)] for r in h.body),
              "Scanner.peek:sentinel", "past the end of input peek() returns the EOF sentinel")
    nx = ctx.repo.func("a816.parse.scanner", "Scanner.next")
    # layout-independent: `return None` exactly when pos is not inside the input, `self.pos += 1` (by a positive constant that does not
    # pass the end) exactly when it is; conditions read through the CFG (if/else, guard clause, min() clamp ...)
    gnx = CFG(nx.node)
    inside = {("self.pos < len(self.input)", True), ("self.pos >= len(self.input)", False), ("len(self.input) > self.pos", True), ("len(self.input) <= self.pos", False)}
    outside = {(t, not p) for t, p in inside}
    rets_none = [r for r in walk_no_nested(nx.node) if isinstance(r, ast.Return) and (r.value is None or unparse(r.value) == "None")]
    adv = [a for a in walk_no_nested(nx.node) if (isinstance(a, ast.AugAssign) and unparse(a.target) == "self.pos") or
           (isinstance(a, ast.Assign) and unparse(a.targets[0]) == "self.pos")]
    ok_none = bool(rets_none) and all(gnx.path_conditions(gnx.node_of(r)) & outside for r in rets_none)
    ok_adv = bool(adv) and all(gnx.path_conditions(gnx.node_of(a)) & inside for a in adv) and all(
        unparse(a) in ("self.pos += 1", "self.pos = self.pos + 1", "self.pos = min(self.pos + 1, len(self.input))", "self.pos = min(len(self.input), self.pos + 1)") for a in adv)
    if rets_none and adv and not (ok_none and ok_adv) and not all(unparse(a).startswith(("self.pos += ", "self.pos = ")) and "self.pos" in unparse(a) for a in adv):
        raise AnalysisError("Scanner.next: cursor update not modelled")
    ctx.check(ok_none and ok_adv, "Scanner.next:end-of-input", "next() advances by one inside the input and returns None (without advancing) at its end")
    cur = ctx.repo.func("a816.parse.parser", "Parser.current")
    ctx.check(any("TokenType.EOF" in unparse(r) for r in walk_no_nested(cur.node) if isinstance(r, ast.Return)), "Parser.current:end-of-input", "past the last token current() is an EOF token")
    sim = EofSim(ctx.repo, eof_const)
    mods = ("a816.parse.scanner_states", "a816.parse.parser_states", "a816.parse.scanner")
    for fn in ctx.repo.all_functions():
        if fn.module.name not in mods:
            continue
        loops = [n for n in walk_no_nested(fn.node) if isinstance(n, ast.While)]
        if not loops:
            continue
        if fn.qualname == "Scanner.accept_run":
            continue  # parameters unknown here: decided per call site in R3
        for lp in loops:
            ctx.count("eof_loops")
            construct = f"{fn.where}:while {unparse(lp.test)[:50]}"
            sim.stuck_loops.clear()
            # the input can run out at any iteration boundary: start at the loop head, locals unknown
            sim.stack.append(fn.fq)
            try:
                res = sim.loop(fn, lp, {})
            finally:
                sim.stack.pop()
            stuck = STUCK in res and any(l is lp for _, l in sim.stuck_loops)
            if any(o.startswith("maybe-") for o in res):
                if fn.fq not in live:
                    ctx.ok(construct + ":end-of-input", "dead code (no caller)")
                    continue
                raise AnalysisError(f"{construct}: end-of-input behaviour could not be decided (guard value unknown)")
            if stuck and fn.fq not in live:
                ctx.note(f"{construct}: would spin at end of input but {fn.qualname} is unreachable from the scanner/parser entry points (dead code)")
                ctx.ok(construct + ":end-of-input", "dead code (no caller)")
                continue
            ctx.check(not stuck, construct + ":end-of-input",
                      "with the input exhausted the loop exits or raises" if not stuck else
                      "with the input exhausted next() returns None / every token is EOF and this loop neither exits nor raises: it spins forever")
    ctx.floor("eof_loops", 6)
    # stuck loops met while simulating callees
    ctx.sample({"functions_simulated_at_end_of_input": sorted(sim.memo)[:40]})


def r3_run_sentinels(ctx: Ctx) -> None:
    tok = ctx.repo.module("a816.parse.tokens")
    eof_const = tok.assigns["EOF"].value  # type: ignore[union-attr]
    ar = ctx.repo.func("a816.parse.scanner", "Scanner.accept_run")
    loops = [n for n in walk_no_nested(ar.node) if isinstance(n, ast.While)]
    from ..match import canon as _canon_ar

    cand_p, neg_p = ar.params()[1], ar.params()[2]
    tst = _canon_ar(ar.node, loops[0].test) if len(loops) == 1 else ""
    ok = tst == f"self.accept({cand_p}, {neg_p})"
    alt = tst in (f"(self.peek() in frozenset({cand_p})) != {neg_p}", f"(self.peek() in {cand_p}) != {neg_p}", f"(self.peek() in set({cand_p})) != {neg_p}") and \
        len(loops) == 1 and [unparse(b) for b in loops[0].body] == ["self.next()"]
    if not (ok or alt):
        raise AnalysisError(f"Scanner.accept_run: loop `{tst[:60]}` not modelled (expected: repeat accept(candidates, negate) until it fails)")
    ctx.ok("Scanner.accept_run:shape", "consumes characters while membership in the candidates differs from `negate`")
    ac = ctx.repo.func("a816.parse.scanner", "Scanner.accept")
    gac = CFG(ac.node)
    nxt = [gac.node_containing(c) for c in calls_in(ac.node) if call_name(c) == "self.next"]
    rets = [r for r in walk_no_nested(ac.node) if isinstance(r, ast.Return) and r.value is not None]
    ok = False
    if nxt and rets:
        from ..match import canon
        from ..match import canon_test, inline, last_assignments
        # next() runs exactly when the returned value is true: every return has a next() before it that is reached under the very test it returns
        # (one pair in the confirmed layout, one pair per branch when the polarity flag is branched on first)
        per_ret = []
        for r_ in rets:
            rexpr = inline(r_.value, last_assignments(ac.node))
            rt, rpol = canon_test(rexpr)
            rn = gac.node_of(r_)
            hit = False
            for n_ in nxt:
                conds = gac.path_conditions(n_, ac.node)
                guarded = (rt, rpol) in conds or any(t in (f"{unparse(rexpr)} is True", f"({unparse(rexpr)}) is True") and pol for t, pol in conds)
                if guarded and rn in gac.reachable([m for m, _l in gac.succ[n_]]):
                    hit = True
            per_ret.append(hit)
        ok = all(per_ret) and len(nxt) == len(rets)
    ctx.check(ok, "Scanner.accept:consumes-when-true", "a successful accept consumes one character: next() is called exactly when the returned value is true")
    for fn in ctx.repo.all_functions():
        if not in_scope(fn):
            continue
        for c in calls_in(fn.node):
            cn = call_name(c) or ""
            if cn.split(".")[-1] in ("accept_run", "ignore_run") and cn.split(".")[0] in ("s", "self"):
                ctx.count("run_sites")
                cand = c.args[0] if c.args else None
                lit = None
                if isinstance(cand, ast.Name):
                    defs0 = [n for n in walk_no_nested(fn.node) if isinstance(n, ast.Assign) and unparse(n.targets[0]) == cand.id]
                    if len(defs0) == 1 and isinstance(defs0[0].value, ast.Subscript):
                        cand = defs0[0].value
                if isinstance(cand, ast.Constant) and isinstance(cand.value, str):
                    lit = cand.value
                elif isinstance(cand, ast.Name):
                    defs = [n for n in walk_no_nested(fn.node) if isinstance(n, ast.Assign) and unparse(n.targets[0]) == cand.id and isinstance(n.value, ast.Constant)]
                    if len(defs) == 1 and isinstance(defs[0].value.value, str):  # type: ignore[attr-defined]
                        lit = defs[0].value.value  # type: ignore[attr-defined]
                    elif cand.id in fn.params():
                        continue  # forwarded parameter (ignore_run -> accept_run); decided at the outer call site
                elif isinstance(cand, ast.Subscript) and isinstance(cand.value, ast.Name):
                    # acceptable_values[base_prefix]: every value of the literal dict
                    from ..match import const_string, literal_binding

                    table = literal_binding(fn, cand.value.id)
                    if isinstance(table, ast.Dict):
                        lit = "".join(const_string(fn, v) or "\0" for v in table.values)
                neg = False
                for k in c.keywords:
                    if k.arg == "negate":
                        neg = bool(getattr(k.value, "value", False))
                if len(c.args) > 1:
                    neg = bool(getattr(c.args[1], "value", False))
                if lit is None and cand is not None:
                    from ..const import ConstEval, NotConst

                    try:
                        v = ConstEval(ctx.repo, fn.module).ev(cand)
                        if isinstance(v, str):
                            lit = v
                    except (NotConst, AnalysisError):
                        pass
                if lit is None:
                    raise AnalysisError(f"{fn.where}: run candidates `{unparse(cand) if cand else None}` are not a literal")
                construct = f"{fn.where}:{unparse(c)[:50]}"
                if neg:
                    ctx.check(eof_const in lit, construct, "a negated run accepts everything not listed; at end of input peek() is the EOF sentinel and next() does not advance, "
                              "so the sentinel must be listed or the run never ends")
                else:
                    ctx.check(eof_const not in lit, construct, "a run that lists the EOF sentinel keeps accepting at end of input")
    ctx.floor("run_sites", 10)


def r4_recursion(ctx: Ctx) -> None:
    pe = ctx.repo.func("a816.parse.parser_states", "_parse_expression")
    g = CFG(pe.node)
    nexts = [g.node_containing(c) for c in calls_in(pe.node) if call_name(c) == "p.next"]
    for c in calls_in(pe.node):
        if call_name(c) == "_parse_expression":
            ctx.count("recursive_calls")
            ctx.check(g.dominated_by(g.node_containing(c), nexts), f"_parse_expression:recursive call @{c.lineno - pe.node.lineno}", "a token is consumed before recursing")
    ctx.floor("recursive_calls", 2)
    # a method that calls itself on the same receiver with the same arguments makes no progress (`return self.get_table()` for
    # `return self.parent.get_table()`): unbounded recursion, ending in RecursionError for every input that reaches it
    for fn in ctx.repo.all_functions():
        if fn.cls is None or not in_scope(fn) and not fn.module.name.startswith(("a816.symbols", "a816.cpu")):
            continue
        params = fn.params()[1:]
        for c in calls_in(fn.node):
            if call_name(c) == f"self.{fn.name}" and [unparse(a) for a in c.args] == params and not c.keywords:
                ctx.count("self_calls")
                ctx.fail(f"{fn.where}:{unparse(c)[:40]}", "calls itself on the same object with the same arguments: nothing changes between the calls, so the recursion never ends")
    # parent chains are finite: parent is assigned only in Scope.__init__ from an existing scope
    for fn in ctx.repo.all_functions():
        for n in walk_no_nested(fn.node):
            if isinstance(n, (ast.Assign, ast.AnnAssign)):
                tl = n.targets if isinstance(n, ast.Assign) else [n.target]
                for t in tl:
                    if isinstance(t, ast.Attribute) and t.attr == "parent" and in_scope(fn):
                        ctx.count("parent_writes")
                        ctx.check(fn.fq == "a816.symbols:Scope.__init__", f"{fn.where}:{unparse(n)[:40]}", "scope parents are fixed at construction, so lookup chains are finite and acyclic")
    ctx.floor("parent_writes", 1)
    # code generation descends into sub-trees, except the two explicit recursions named by the property
    cg = ctx.repo.module("a816.parse.codegen")
    explicit = {"generate_macro_application", "generate_code_lookup"}
    for fn in cg.functions.values():
        for c in calls_in(fn.node):
            if call_name(c) in ("_code_gen", "generate_block") and fn.name not in ("code_gen", "_code_gen"):
                ctx.count("expansion_calls")
                arg = unparse(c.args[0])
                node_param = fn.params()[0]
                derived = {node_param}
                for n in walk_no_nested(fn.node):
                    if isinstance(n, ast.Assign) and isinstance(n.targets[0], ast.Name) and unparse(n.value).startswith(node_param + "."):
                        derived.add(n.targets[0].id)
                sub = any(arg.startswith(d + ".") for d in derived) or arg == node_param and call_name(c) == "generate_block"
                ctx.check(sub or fn.name in explicit, f"{fn.where}:{unparse(c)[:40]}", "expands a strict sub-tree of its node (or is one of the two explicit recursions: macro application, code lookup)")
    ctx.floor("expansion_calls", 4)



def _scanner_consumers(fn: FunctionInfo, g: CFG, recv: str):
    nexts, backups, adv_edges, peek_eof_edges = [], [], [], []
    for nid, node in g.nodes.items():
        if node.ast is None or node.kind == "handler":
            continue
        root = node.ast if node.kind != "for" else node.ast.iter  # type: ignore[attr-defined]
        if isinstance(root, ast.With):
            continue
        for c in [x for x in walk_no_nested(root) if isinstance(x, ast.Call)]:
            cn = call_name(c) or ""
            if cn == f"{recv}.next":
                nexts.append(nid)
            elif cn == f"{recv}.backup":
                backups.append(nid)
        if node.kind == "test":
            pol = _accept_polarity(node.ast, recv)
            if pol:
                adv_edges += [(nid, m, lab) for m, lab in g.succ[nid] if lab == pol]
            t = unparse(node.ast)
            if f"{recv}.peek()" in t and ("EOF" in t or "'\\x00'" in t):
                # `peek() in [..., EOF]` / `peek() == EOF`: on the False edge the cursor is inside the input
                neg = isinstance(node.ast, ast.Compare) and isinstance(node.ast.ops[0], (ast.NotIn, ast.NotEq))
                peek_eof_edges += [(nid, m, lab) for m, lab in g.succ[nid] if lab == ("T" if neg else "F")]
    return nexts, backups, adv_edges, peek_eof_edges


def r5_backup_balance(ctx: Ctx) -> None:
    """Scanner.backup() always moves the cursor back, while next() at end of input does not move it forward: every backup must undo
    an advance that certainly happened, or the cursor drifts backwards and a surrounding loop never ends."""
    rs = get_resolver(ctx.repo)
    for fn in ctx.repo.all_functions():
        if _recv_kind(fn) != "scanner" or fn.qualname == "Scanner.backup":
            continue
        recv = "s" if fn.params() and fn.params()[0] == "s" else "self"
        g = CFG(fn.node)
        nexts, backups, adv_edges, peek_edges = _scanner_consumers(fn, g, recv)
        if not backups:
            continue

        def safe_next(n: int) -> bool:
            # (1) every way to this next() comes through the False edge of a `peek() is EOF` test, nothing consumed in between
            for (a, b, lab) in peek_edges:
                others = [(a, m, l) for m, l in g.succ[a] if l != lab]
                if g.dominated_by(n, [a]) and n not in g.reachable([m for _a, m, _l in others], blocked=[a]):
                    between = g.reachable([b], blocked=[n])
                    if not any(x in between for x in nexts if x != n) and not any(e[0] in between for e in adv_edges):
                        return True
            # (2) re-reading the character the caller consumed: `backup(); c = next()` at function entry
            preds = [p for p, _ in g.pred[n]]
            if len(preds) == 1 and preds[0] in backups and entry_backup(preds[0]):
                return True
            return False

        def entry_backup(b: int) -> bool:
            # no advance of this function can reach it: it undoes the caller's advance
            reach_from_adv = set()
            for n in nexts:
                reach_from_adv |= g.reachable([m for m, _ in g.succ[n]])
            for (_a, m, _l) in adv_edges:
                reach_from_adv |= g.reachable([m])
            return b not in reach_from_adv

        for b in backups:
            ctx.count("backups")
            construct = f"{fn.where}:backup() @{unparse(g.nodes[b].ast)[:30]}"
            if entry_backup(b):
                # every call site must sit on a definite advance
                callers_ok = True
                n_sites = 0
                for fq, sites in rs.sites.items():
                    for sct in sites:
                        if fn in sct.targets:
                            n_sites += 1
                            caller = rs.by_fq[fq]
                            cg = CFG(caller.node)
                            crecv = "s" if caller.params() and caller.params()[0] == "s" else "self"
                            _n2, _b2, adv2, _p2 = _scanner_consumers(caller, cg, crecv)
                            cn = cg.node_containing(sct.node)
                            if not any(cg.dominated_by(cn, [a]) and cn not in cg.reachable([m for m, l in cg.succ[a] if (a, m, l) not in adv2], blocked=[a]) for (a, _m, _l) in adv2):
                                callers_ok = False
                ctx.check(callers_ok and n_sites > 0, construct, "undoes the caller's advance: every call site follows a successful accept")
                continue
            # closest dominating advance
            cands_edges = [(a, m, l) for (a, m, l) in adv_edges if g.dominated_by(b, [a]) and b not in g.reachable([x for x, ll in g.succ[a] if (a, x, ll) != (a, m, l)], blocked=[a])]
            cands_next = [n for n in nexts if n != b and g.dominated_by(b, [n])]
            # the last one: a candidate that no other candidate lies after
            def after(x: int, y: int) -> bool:  # y reachable from x
                return y in g.reachable([m for m, _ in g.succ[x]])
            pts = [("edge", e[0]) for e in cands_edges] + [("next", n) for n in cands_next]
            last = None
            for kind, n in pts:
                if not any(after(n, m) for _k, m in pts if m != n):
                    last = (kind, n)
            if last is None:
                ctx.fail(construct, "no advance of the cursor certainly precedes this backup")
            elif last[0] == "edge":
                ctx.ok(construct, "undoes a successful accept")
            else:
                ctx.check(safe_next(last[1]), construct, "undoes `next()`: that next() must be known to be inside the input (guarded by a `peek()` EOF test); "
                          "at end of input next() returns None without advancing and the backup then moves the cursor backwards")
    ctx.floor("backups", 2)


def r6_regexes_not_exponential(ctx: Ctx) -> None:
    """every regular-expression literal matched against source or table text has no exponentially ambiguous repetition: the
    backtracking matcher would otherwise need 2^n steps on a line of n characters that fails to match (a hang in practice)"""
    from ..regexamb import Unsupported, exponentially_ambiguous

    n = 0
    for mi in ctx.repo.modules.values():
        for c in [x for x in ast.walk(mi.tree) if isinstance(x, ast.Call)]:
            cn = call_name(c) or ""
            if not (cn.startswith("re.") and cn.split(".")[1] in ("compile", "match", "search", "fullmatch", "sub", "subn", "split", "findall", "finditer")):
                continue
            n += 1
            pat = c.args[0] if c.args else None
            if not (isinstance(pat, ast.Constant) and isinstance(pat.value, str)):
                raise AnalysisError(f"{mi.relpath}: regular expression `{unparse(pat)[:50] if pat is not None else None}` is not a literal")
            flags = 0
            for a in list(c.args[1:]) + [k.value for k in c.keywords if k.arg == "flags"]:
                for nm in [x.attr for x in ast.walk(a) if isinstance(x, ast.Attribute)]:
                    flags |= int(getattr(__import__("re"), nm, 0))
            try:
                amb, why = exponentially_ambiguous(pat.value, flags)
            except Unsupported as e:
                raise AnalysisError(f"{mi.relpath}: regular expression {pat.value!r}: {e}") from e
            ctx.check(not amb, f"{mi.relpath}:re {pat.value[:60]!r}", "no exponentially ambiguous repetition" if not amb else
                      f"exponentially ambiguous: {why}; a line that fails to match after such a run takes 2^n matcher steps")
    ctx.count("regex_literals", n)
    ctx.floor("regex_literals", 2)


def r7_include_parses_the_included_file(ctx: Ctx) -> None:
    """an .include parses the tokens of the file it names, not those of the including file again (C16.R3): re-parsing the includer recurses without end"""
    from .c16 import r3_include_is_transparent as _c16_r3_include_is_transparent

    _c16_r3_include_is_transparent(ctx)


RULES = [r1_progress, r2_end_of_input, r3_run_sentinels, r4_recursion, r5_backup_balance, r6_regexes_not_exponential, r7_include_parses_the_included_file]
