"""C17 — errors point at the statement that caused them (position-capture clause)."""
from __future__ import annotations

import ast

import re

from ..cfg import CFG, ENTRY, always_raises
from ..core import AnalysisError, FunctionInfo, calls_in, call_name, const_str, dotted, unparse, walk_no_nested
from ..match import kwarg
from ..match import canonical_statements
from ..report import Ctx

LEVEL = "other"
SST = "a816.parse.scanner_states"
SCN = "a816.parse.scanner"
PST = "a816.parse.parser_states"
EXPLANATION = (
    "Every NodeError carries the file_info of the statement being generated/emitted, every ParserSyntaxError a token, "
    "every ScannerException a position; statement AST nodes that can fail later are built with the statement's first "
    "token; code generation hands each node's own token to its generator; NodeError and the scanner-error message "
    "print file, line and line text; included files get their own File. Typestate on scanner state functions: a "
    "position is never computed after the current token may have consumed a newline (which moves the line "
    "bookkeeping). Line counters have a single writer."
)
ASSUMPTIONS = ["line numbers for every preceding text depend on incremental scanner state at run time; only the capture discipline is decided"]

FAILABLE_AST = {"OpcodeAstNode", "DataNode", "TextAstNode", "CodePositionAstNode", "CodeRelocationAstNode", "CodeLookupAstNode"}


def r1_errors_carry_location(ctx: Ctx) -> None:
    repo = ctx.repo
    for fn in repo.all_functions():
        if not fn.module.name.startswith("a816"):
            continue
        for c in calls_in(fn.node):
            cn = call_name(c)
            if cn == "NodeError":
                ctx.count("NodeError_sites")
                fi = kwarg(c, "file_info", 1)
                ok = fi is not None and unparse(fi) in ("file_info", "self.file_info")
                ctx.check(ok, f"{fn.where}:NodeError", f"carries the failing statement's own token; passes `{unparse(fi) if fi is not None else None}`")
            elif cn == "ParserSyntaxError":
                ctx.count("ParserSyntaxError_sites")
                tk = kwarg(c, "token", 1)
                ok = tk is not None and not (isinstance(tk, ast.Constant) and tk.value is None)
                ctx.check(ok, f"{fn.where}:ParserSyntaxError", "carries the offending token")
            elif cn == "ScannerException":
                ctx.count("ScannerException_sites")
                ps = kwarg(c, "position", 1)
                ok = False
                if ps is not None:
                    if isinstance(ps, ast.Call) and call_name(ps) in ("s.get_position", "self.get_position"):
                        ok = True
                    elif isinstance(ps, ast.Name):
                        defs = [n for n in walk_no_nested(fn.node) if isinstance(n, ast.Assign) and unparse(n.targets[0]) == ps.id]
                        ok = len(defs) == 1 and call_name(defs[0].value) in ("s.get_position", "self.get_position")
                ctx.check(ok, f"{fn.where}:ScannerException", "carries a scanner position")
    ctx.floor("NodeError_sites", 5)
    ctx.floor("ParserSyntaxError_sites", 4)
    ctx.floor("ScannerException_sites", 4)
    # generators receive their node's own token
    cg = repo.func("a816.parse.codegen", "_code_gen")
    fi = [n for n in walk_no_nested(cg.node) if isinstance(n, ast.Assign) and unparse(n.targets[0]) == "file_info"]
    gen = [c for c in calls_in(cg.node) if call_name(c) == "generator"]
    ok = len(fi) == 1 and unparse(fi[0].value) == "_get_file_info(node)" and len(gen) == 1 and unparse(gen[0].args[0]) == "node" and unparse(gen[0].args[-1]) == "file_info"
    ctx.check(ok, "_code_gen:file_info", "each generator gets the token of the node it expands")
    gf = repo.func("a816.parse.codegen", "_get_file_info")
    ctx.check(canonical_statements(gf.node) == [f"return {gf.params()[0]}.file_info"], "_get_file_info", "the node's own file_info")
    an = repo.func("a816.parse.ast.nodes", "AstNode.__init__")
    ctx.check(any(unparse(s) == f"self.file_info = {an.params()[2]}" for s in an.node.body), "AstNode.__init__", "stores the token it was given")
    # failable statement nodes are built with the statement's first token
    ps = repo.module(PST)
    for fn in ps.functions.values():
        for c in calls_in(fn.node):
            cn = call_name(c)
            if cn in FAILABLE_AST:
                ctx.count("statement_ast_sites")
                tok = kwarg(c, "file_info") or (c.args[-1] if c.args else None)
                ok = False
                why = f"`{unparse(tok) if tok is not None else None}`"
                if isinstance(tok, ast.Name):
                    defs = [(i, s) for i, s in enumerate(fn.node.body) if isinstance(s, (ast.Assign, ast.AnnAssign)) and
                            unparse(s.targets[0] if isinstance(s, ast.Assign) else s.target) == tok.id]
                    if len(defs) == 1 and unparse(defs[0][1].value) in ("p.next()", "p.current()"):
                        # bound before any operand is parsed
                        before = fn.node.body[:defs[0][0]]
                        ok = not any(call_name(x) in ("parse_expression", "parse_block", "parse_expression_list_inner", "parse_directive_with_quoted_string") for b in before for x in calls_in(b))
                    elif tok.id in fn.params():
                        ok = True
                ctx.check(ok, f"{fn.where}:{cn}", f"the node's token {why} is the statement's first token, read before its operands")
    ctx.floor("statement_ast_sites", 5)
    # message construction
    ne = repo.func("a816.parse.nodes", "NodeError.__str__")
    # every position read in the message, through whatever locals hold the token / position
    from ..match import canon as _canon17

    reads = {_canon17(ne.node, n) for n in ast.walk(ne.node) if isinstance(n, (ast.Attribute, ast.Call))}
    pos = "self.file_info.position"
    ctx.check(f"{pos}.file.filename" in reads and f"{pos}.line" in reads and f"{pos}.get_line()" in reads, "NodeError.__str__", "prints file name, line number and the line's text")
    pa = repo.func("a816.parse.mzparser", "MZParser.parse_as_ast")
    from ..match import canon as _canon17

    def expand(mi, fnode: ast.FunctionDef, expr: ast.AST, depth: int = 0) -> str:
        """the message expression with locals inlined and calls of repository functions on the exception replaced by what they return"""
        txt = _canon17(fnode, expr)
        if depth >= 3:
            return txt
        if txt.isidentifier():
            vals = [a.value for a in walk_no_nested(fnode) if isinstance(a, ast.Assign) and len(a.targets) == 1 and unparse(a.targets[0]) == txt]
            if len(vals) > 1:
                return "(" + " | ".join(expand(mi, fnode, v, depth + 1) for v in vals) + ")"
        tree = ast.parse(txt, mode="eval").body
        for c in [x for x in ast.walk(tree) if isinstance(x, ast.Call) and isinstance(x.func, (ast.Name, ast.Attribute)) and len(x.args) == 1 and not x.keywords]:
            nm = (call_name(c) or "").split(".")[-1]
            r = repo.resolve_name(mi, nm) if "." not in (call_name(c) or "") or (call_name(c) or "").startswith(("errors.", "self.")) else None
            target = r[1] if r and r[0] == "func" else None
            if target is None and (call_name(c) or "").startswith("errors."):
                target = repo.try_func("a816.parse.errors", nm)
            if target is None or not target.params():
                continue
            param = target.params()[0]
            parts = []
            for rr in [x for x in walk_no_nested(target.node) if isinstance(x, ast.Return) and x.value is not None]:
                sub = expand(target.module, target.node, rr.value, depth + 1)
                parts.append(re.sub(rf"\b{re.escape(param)}\b", unparse(c.args[0]), sub))
            if parts:
                txt = txt.replace(unparse(c), "(" + " | ".join(parts) + ")")
        return txt

    msg = None
    for h in [n for n in walk_no_nested(pa.node) if isinstance(n, ast.ExceptHandler) and "ScannerException" in unparse(h_type(n))]:
        cands: list[ast.AST] = [s_.value for s_ in h.body if isinstance(s_, ast.Assign) and unparse(s_.targets[0]) == "error"]
        for r_ in [x for b in h.body for x in ast.walk(b) if isinstance(x, ast.Return) and isinstance(x.value, ast.Call)]:
            cands += [k.value for k in r_.value.keywords if k.arg == "error"]  # type: ignore[union-attr]
        if cands:
            msg = expand(pa.module, pa.node, cands[-1])
    if msg is None:
        raise AnalysisError("parse_as_ast: the message built for a ScannerException was not found")
    ev = h_name(pa.node)
    ok = all(any(alt in msg for alt in alts) for alts in ((f"str({ev}.position)", f"{{{ev}.position}}"), (f"{ev}.position.get_line()",), (f"{ev}.position.column",)))
    ctx.check(ok, "parse_as_ast:scanner-error-message", f"prints file:line:column, the line's text and a caret at the column; message expression: {msg}")
    # the file entry points log a NodeError through its __str__ (the only place file, line and quoted text are put together)
    awe = repo.func("a816.program", "Program.assemble_with_emitter")
    n_log = 0
    for h in [n for n in walk_no_nested(awe.node) if isinstance(n, ast.ExceptHandler) and "NodeError" in unparse(h_type(n))]:
        for c in [c for b in h.body for c in calls_in(b) if (call_name(c) or "").endswith((".error", ".exception", ".warning", ".critical"))]:
            n_log += 1
            arg = unparse(c.args[0]) if c.args else ""
            ctx.check(arg in (f"str({h.name})", h.name, f"f'{{{h.name}}}'", f"repr({h.name})") or (h.name is not None and f"{{{h.name}}}" in arg and f"{h.name}." not in arg),
                      "assemble_with_emitter:logs-NodeError", f"the logged text is the error's own string (file:line and the quoted source line); it logs `{arg}`")
        for a_ in [b for b in h.body if isinstance(b, ast.Assign) and h.name and h.name in {x.id for x in ast.walk(b.value) if isinstance(x, ast.Name)}]:
            n_log += 1
            ctx.check(unparse(a_.value) in (f"str({h.name})", f"f'{{{h.name}}}'"), "assemble_with_emitter:records-NodeError",
                      f"the recorded text is the error's own string; it records `{unparse(a_.value)}`")
    if n_log == 0:
        raise AnalysisError("assemble_with_emitter: NodeError handler with a log call not found")
    pos = repo.func("a816.parse.tokens", "Position.__str__")
    ctx.check("self.file.filename" in unparse(pos.node) and "self.line" in unparse(pos.node) and "self.column" in unparse(pos.node), "Position.__str__", "file:line:column")
    pk = repo.func(PST, "parse_keyword")
    # the `.include` scan may live in parse_keyword or in a helper it was moved to: find the scan call next to the open() of the file
    scans = []
    for f_ in repo.module(PST).functions.values():
        opens = [c for c in calls_in(f_.node) if call_name(c) == "open"]
        for c in calls_in(f_.node):
            if (call_name(c) or "").endswith(".scan") and len(c.args) == 2 and opens:
                scans.append((f_, c, opens[0]))
    if not scans:
        raise AnalysisError("parse_keyword[include]: the scan of the included file was not found")
    for f_, c, op in scans:
        ctx.check(_canon17(f_.node, c.args[0]) == _canon17(f_.node, op.args[0]), f"{f_.qualname}[include]:own-file",
                  f"an included file is scanned under the name it was opened with, so its errors name it; scan({unparse(c.args[0])}, ...) after open({unparse(op.args[0])})")
    sc = repo.func(SCN, "Scanner.scan")
    ctx.check(any(unparse(s) == f"self.file = File({sc.params()[1]})" for s in sc.node.body), "Scanner.scan:file", "positions refer to the File of the text being scanned")


def h_type(h: ast.ExceptHandler) -> ast.AST:
    return h.type if h.type is not None else ast.Constant(None)


def h_name(fn: ast.FunctionDef) -> str:
    for n in walk_no_nested(fn):
        if isinstance(n, ast.ExceptHandler) and "ScannerException" in unparse(h_type(n)) and n.name:
            return n.name
    return "e"


def _peeked_non_newline(fn: FunctionInfo, g: CFG, nid: int) -> bool:
    """the character this next() takes was just seen by peek() to be one of a literal set that holds no newline"""
    try:
        conds = g.path_conditions(nid, fn.node)
    except AnalysisError:
        return False
    for t, pol in conds:
        if not pol:
            continue
        try:
            tree = ast.parse(t, mode="eval").body
        except SyntaxError:
            continue
        if not (isinstance(tree, ast.Compare) and len(tree.ops) == 1 and unparse(tree.left) == "s.peek()"):
            continue
        rhs = tree.comparators[0]
        chars: list[str] | None = None
        if isinstance(tree.ops[0], ast.Eq) and isinstance(rhs, ast.Constant) and isinstance(rhs.value, str):
            chars = [rhs.value]
        elif isinstance(tree.ops[0], ast.In):
            val: ast.AST | None = rhs
            if isinstance(rhs, ast.Name):
                val = fn.module.assigns.get(rhs.id) if sum(1 for n_, _s in fn.module.assigns_all if n_ == rhs.id) == 1 else None
            if isinstance(val, ast.Constant) and isinstance(val.value, str):
                chars = list(val.value)
            elif isinstance(val, (ast.Tuple, ast.List, ast.Set)) and all(isinstance(e, ast.Constant) and isinstance(e.value, str) for e in val.elts):
                chars = [e.value for e in val.elts]  # type: ignore[attr-defined]
            elif isinstance(val, ast.Dict) and all(isinstance(k, ast.Constant) and isinstance(k.value, str) for k in val.keys):
                chars = [k.value for k in val.keys]  # type: ignore[union-attr]
        if chars is not None and chars and all(len(c) == 1 and c not in "\n\0" for c in chars):
            return True
    return False


def _consuming_newline_points(fn: FunctionInfo, g: CFG) -> tuple[list[int], list[tuple[int, int, str]], list[int]]:
    """nodes / edges where the current token may swallow a newline, and reset nodes (start moved to the cursor)."""
    unsafe_nodes: list[int] = []
    unsafe_edges: list[tuple[int, int, str]] = []
    resets: list[int] = []
    for nid, node in g.nodes.items():
        if node.ast is None or node.kind == "handler":
            continue
        root = node.ast if node.kind != "for" else node.ast.iter  # type: ignore[attr-defined]
        for c in [x for x in walk_no_nested(root) if isinstance(x, ast.Call)]:
            cn = call_name(c) or ""
            if cn in ("s.ignore", "s.ignore_run", "s.emit"):
                resets.append(nid)
            elif cn == "s.next":
                if not _peeked_non_newline(fn, g, nid):
                    unsafe_nodes.append(nid)
            elif cn in ("s.accept", "s.accept_run"):
                lit = const_str(c.args[0]) if c.args else None
                neg = any(k.arg == "negate" and getattr(k.value, "value", False) for k in c.keywords) or (len(c.args) > 1 and getattr(c.args[1], "value", False))
                may_nl = lit is None or (("\n" in lit) != bool(neg))
                if may_nl:
                    if cn == "s.accept" and node.kind == "test":
                        unsafe_edges += [(nid, m, lab) for m, lab in g.succ[nid] if lab == "T"]
                    else:
                        unsafe_nodes.append(nid)
    return unsafe_nodes, unsafe_edges, resets


def r2_position_before_newline(ctx: Ctx) -> None:
    mod = ctx.repo.module(SST)
    for fn in mod.functions.values():
        if not fn.params() or fn.params()[0] != "s":
            continue
        gps = [c for c in calls_in(fn.node) if call_name(c) == "s.get_position"]
        if not gps:
            continue
        g = CFG(fn.node)
        known_state = set(mod.functions)
        opaque = [call_name(c) for c in calls_in(fn.node) if any(unparse(a) == "s" for a in c.args) and not (call_name(c) or "").startswith("s.")
                  and ((call_name(c) or "") not in known_state or not (call_name(c) or "").startswith(("lex_", "accept_opcode")))]
        if opaque:
            ctx.errors.append(f"{ctx.current_rule}: {fn.where}: the scanner is handed to `{opaque[0]}`, whose effect on the cursor has no summary; position reads in this function are not decided")
            continue
        unsafe_nodes, unsafe_edges, resets = _consuming_newline_points(fn, g)
        # idiom: a raw next() right after `ignore_run(<set with newline>)` with no consumption in between cannot return a newline
        nl_resets = []
        for nid in resets:
            node = g.nodes[nid]
            for c in [x for x in walk_no_nested(node.ast) if isinstance(x, ast.Call)]:  # type: ignore[arg-type]
                if call_name(c) == "s.ignore_run" and "\n" in (const_str(c.args[0]) or ""):
                    nl_resets.append(nid)
        all_consuming_nodes = set(unsafe_nodes)
        all_consuming_edges = set(unsafe_edges)
        for nid, node in g.nodes.items():
            if node.ast is None or node.kind == "handler":
                continue
            root = node.ast if node.kind != "for" else node.ast.iter  # type: ignore[attr-defined]
            for c in [x for x in walk_no_nested(root) if isinstance(x, ast.Call)]:
                cn = call_name(c) or ""
                if cn in ("s.accept", "s.accept_prefix") and node.kind == "test":
                    pol = "F" if isinstance(node.ast, ast.UnaryOp) else "T"
                    all_consuming_edges |= {(nid, m, lab) for m, lab in g.succ[nid] if lab == pol}
                elif cn in ("s.accept_run", "s.accept_prefix", "s.accept") or cn.startswith("lex_"):
                    all_consuming_nodes.add(nid)
        safe_next = set()
        for n in unsafe_nodes:
            if not nl_resets or not g.dominated_by(n, nl_resets):
                continue
            # consumed anything between the newline-skipping run and this next()?
            consumed_before = False
            for cnode in all_consuming_nodes - {n}:
                if cnode in g.reachable([s for r in nl_resets for s, _ in g.succ[r]]) and n in g.reachable_with_flags([m for m, _ in g.succ[cnode]], blocked=nl_resets):
                    consumed_before = True
            for (a, b, lab) in all_consuming_edges:
                if a in g.reachable([s for r in nl_resets for s, _ in g.succ[r]]) and n in g.reachable_with_flags([b], blocked=nl_resets):
                    consumed_before = True
            if not consumed_before:
                safe_next.add(n)
        real_unsafe = [n for n in unsafe_nodes if n not in safe_next]
        for c in gps:
            ctx.count("position_reads")
            pn = g.node_containing(c)
            starts = [m for n in real_unsafe for m, _ in g.succ[n] if n != pn] + [b for (_a, b, _l) in unsafe_edges]
            reach = g.reachable(starts, blocked=[r for r in resets if r != pn], labels_excluded=[])
            late = pn in reach or (pn in real_unsafe and False)
            # the same node may both consume and read (e.g. `if s.next() ...: raise X(s.get_position())` is two nodes, fine)
            ctx.check(not late, f"{fn.where}:get_position() @{unparse(g.nodes[pn].ast)[:50] if g.nodes[pn].ast is not None else ''}",
                      "position is read before the token can have consumed a newline" if not late else
                      "a character that may be the end of the line is consumed before the position is read: next() on '\\n' advances current_line and line_offset, "
                      "so the error is reported one line late with a negative column")
    ctx.floor("position_reads", 3)


def _newline_free_lookahead(fn: FunctionInfo, restore: ast.Assign) -> bool:
    """`saved = s.pos` ... `s.pos = saved` where every consuming call between the two is an accept / accept_run / accept_prefix of a
    literal that cannot take a newline (a negated run must list the newline, a plain one must not)"""
    recv = unparse(restore.targets[0]).rsplit(".", 1)[0]
    if not isinstance(restore.value, ast.Name):
        return False
    snaps = [x for x in walk_no_nested(fn.node) if isinstance(x, ast.Assign) and unparse(x.targets[0]) == restore.value.id]
    if len(snaps) != 1 or unparse(snaps[0].value) != f"{recv}.pos":
        return False
    g = CFG(fn.node)
    sn, rn = g.node_of(snaps[0]), g.node_of(restore)
    if not g.dominated_by(rn, [sn]):
        return False
    all_restores = [g.node_of(x) for x in walk_no_nested(fn.node) if isinstance(x, ast.Assign) and unparse(x.targets[0]) == unparse(restore.targets[0])
                    and unparse(x.value) == restore.value.id]
    between = g.reachable([m for m, _l in g.succ[sn]], blocked=all_restores, labels_excluded=["exc"])
    for nid in between:
        a = g.nodes[nid].ast
        if a is None:
            continue
        root = a if g.nodes[nid].kind != "for" else a.iter  # type: ignore[attr-defined]
        for c in [x for x in walk_no_nested(root) if isinstance(x, ast.Call)]:
            cn = call_name(c) or ""
            if not cn.startswith(recv + "."):
                if cn.startswith("lex_") or any(unparse(arg) == recv for arg in c.args):
                    return False
                continue
            meth = cn.split(".", 1)[1]
            if meth in ("peek", "get_position", "current_token_text", "emit", "ignore"):
                continue
            if meth in ("accept", "accept_run", "ignore_run", "accept_prefix"):
                lit = const_str(c.args[0]) if c.args else None
                neg = any(k.arg == "negate" and getattr(k.value, "value", False) for k in c.keywords) or (len(c.args) > 1 and getattr(c.args[1], "value", False))
                if lit is None or (("\n" in lit) != bool(neg)):
                    return False
                continue
            if meth not in ("next", "backup", "scan"):
                raise AnalysisError(f"{fn.where}: the look-ahead consumes through `{cn}`, a scanner helper without a summary; not decided")
            return False
    return True


def r3_single_writer(ctx: Ctx) -> None:
    allowed_calls = {"a816.parse.scanner:Scanner.next", "a816.parse.scanner:Scanner.scan"}
    for fn in ctx.repo.all_functions():
        for c in calls_in(fn.node):
            if (call_name(c) or "").endswith("._handle_line"):
                ctx.count("handle_line_calls")
                ctx.check(fn.fq in allowed_calls, f"{fn.where}:_handle_line()", "lines are closed only by next() on a newline and by scan() at the end")
            if (call_name(c) or "") in ("self.file.append",) or ((call_name(c) or "").endswith("file.append")):
                ctx.check(fn.fq == "a816.parse.scanner:Scanner._handle_line", f"{fn.where}:file.append", "line texts are recorded by _handle_line only")
        for n in walk_no_nested(fn.node):
            if isinstance(n, (ast.Assign, ast.AugAssign)):
                tl = n.targets if isinstance(n, ast.Assign) else [n.target]
                for t in tl:
                    if isinstance(t, ast.Attribute) and t.attr in ("current_line", "line_offset"):
                        ctx.count("line_counter_writes")
                        ctx.check(fn.fq in ("a816.parse.scanner:Scanner.__init__", "a816.parse.scanner:Scanner._handle_line"), f"{fn.where}:{unparse(n)[:40]}", "line counters have one writer")
    ctx.floor("handle_line_calls", 2)
    # the cursor moves only through primitives that account for lines: next() (calls _handle_line on a newline), backup(),
    # accept_prefix(<literal without newline>), the 3-letter mnemonic skip and the look-ahead restore in lex_opcode
    allowed_pos = {"a816.parse.scanner:Scanner.next", "a816.parse.scanner:Scanner.backup", "a816.parse.scanner:Scanner.accept_prefix",
                   "a816.parse.scanner_states:accept_opcode"}
    for fn in ctx.repo.all_functions():
        if not fn.module.name.startswith("a816.parse.scanner"):
            continue
        for n in walk_no_nested(fn.node):
            if isinstance(n, (ast.Assign, ast.AugAssign)):
                tl = n.targets if isinstance(n, ast.Assign) else [n.target]
                for t in tl:
                    if isinstance(t, ast.Attribute) and t.attr == "pos" and unparse(t.value) in ("s", "self") and (unparse(t.value) == "s" or (fn.cls and fn.cls.name == "Scanner")):
                        ctx.count("cursor_writes")
                        if fn.fq not in allowed_pos and isinstance(n, ast.Assign) and _newline_free_lookahead(fn, n):
                            ctx.ok(f"{fn.where}:{unparse(n)[:40]}", "look-ahead: the cursor is put back to a snapshot taken in this function, and nothing consumed in between can be a newline")
                            continue
                        ctx.check(fn.fq in allowed_pos, f"{fn.where}:{unparse(n)[:40]}", "the scanner cursor is moved directly; characters skipped this way (newlines among them) bypass "
                                  "the line bookkeeping in next(), so later errors are reported on the wrong line")
        for c in calls_in(fn.node):
            if (call_name(c) or "").endswith(".accept_prefix") and c.args:
                lits = [const_str(c.args[0])]
                if isinstance(c.args[0], ast.Name):
                    # loop variable over a literal tuple of strings
                    for lp_ in [x for x in walk_no_nested(fn.node) if isinstance(x, ast.For) and unparse(x.target) == c.args[0].id and isinstance(x.iter, (ast.Tuple, ast.List))]:
                        lits = [const_str(e) for e in lp_.iter.elts]
                if any(l is None for l in lits):
                    raise AnalysisError(f"{fn.where}: accept_prefix({unparse(c.args[0])[:30]}) with a non-literal prefix; not modelled")
                ctx.check(all("\n" not in l for l in lits if l is not None), f"{fn.where}:{unparse(c)[:40]}", "accept_prefix skips its literal without line accounting: the literal must not contain a newline")
    ctx.floor("cursor_writes", 3)
    lo = ctx.repo.func(SST, "lex_opcode")
    restores = [n for n in walk_no_nested(lo.node) if isinstance(n, ast.Assign) and unparse(n.targets[0]) == "s.pos"]
    snaps = [n for n in walk_no_nested(lo.node) if isinstance(n, ast.Assign) and unparse(n.value) == "s.pos"]
    ok = bool(snaps) and all(unparse(r.value) == unparse(snaps[0].targets[0]) for r in restores)
    ctx.check(ok, "lex_opcode:restore", "the cursor is only ever restored to a snapshot taken in the same function (look-ahead), never advanced by assignment")
    nx = ctx.repo.func(SCN, "Scanner.next")
    ok = any(isinstance(s, ast.If) and unparse(s.test) == "data == '\\n'" and [unparse(b) for b in s.body] == ["self._handle_line()"] for s in walk_no_nested(nx.node))
    ctx.check(ok, "Scanner.next:newline", "a consumed newline closes the line")
    hl = ctx.repo.func(SCN, "Scanner._handle_line")
    from ..match import canon as _canon
    from ..poly import poly, poly_of_source, show as show_poly
    apps = [c for c in calls_in(hl.node) if call_name(c) == "self.file.append"]
    ok_app = len(apps) == 1 and _canon(hl.node, apps[0].args[0]) == "self.input[self.line_offset:self.pos]"
    lo = [n for n in walk_no_nested(hl.node) if isinstance(n, ast.Assign) and unparse(n.targets[0]) == "self.line_offset"]
    ok_lo = len(lo) == 1 and show_poly(poly(ast.parse(_canon(hl.node, lo[0].value), mode="eval").body)) == show_poly(poly_of_source("self.pos + 1"))
    cl_aug = [n for n in walk_no_nested(hl.node) if isinstance(n, ast.AugAssign) and unparse(n.target) == "self.current_line" and isinstance(n.op, ast.Add) and unparse(n.value) == "1"]
    cl_as = [n for n in walk_no_nested(hl.node) if isinstance(n, ast.Assign) and unparse(n.targets[0]) == "self.current_line"
             and show_poly(poly(n.value)) == show_poly(poly_of_source("self.current_line + 1"))]
    ok_cl = len(cl_aug) + len(cl_as) == 1
    # the append reads the line start before it is moved
    order_ok = ok_app and ok_lo and hl.node.body and True
    if ok_app and ok_lo:
        gh = CFG(hl.node)
        order_ok = gh.node_of(lo[0]) in gh.reachable([gh.node_containing(apps[0])]) and gh.node_containing(apps[0]) not in gh.reachable([gh.node_of(lo[0])])
    ctx.check(ok_app and ok_lo and ok_cl and order_ok, "Scanner._handle_line", "records the line text, moves the line start past the newline, counts the line")
    # every newline closes a line, an empty one too (line start == cursor): the guard is `line_offset <= pos`, or there is none
    if apps:
        gh2 = CFG(hl.node)
        conds = gh2.path_conditions(gh2.node_containing(apps[0]))
        from ..poly import poly as _p17, poly_of_source as _ps17, show as _s17
        okg = True
        for t, pol in conds:
            tr = ast.parse(t, mode="eval").body
            if isinstance(tr, ast.Compare) and len(tr.ops) == 1 and {"self.line_offset", "self.pos"} <= {unparse(tr.left), unparse(tr.comparators[0])}:
                op = type(tr.ops[0]).__name__
                l_is_lo = unparse(tr.left) == "self.line_offset"
                # accepted: line_offset <= pos (True) / pos >= line_offset (True) / line_offset > pos (False) / pos < line_offset (False)
                good = (l_is_lo and ((op == "LtE" and pol) or (op == "Gt" and not pol))) or ((not l_is_lo) and ((op == "GtE" and pol) or (op == "Lt" and not pol)))
                okg = okg and good
        ctx.check(okg, "Scanner._handle_line:empty-lines", f"an empty line (line start == cursor) is recorded and counted too; the guard is {sorted(conds)}")
    gp = ctx.repo.func(SCN, "Scanner.get_position")
    ctx.check(any(_canon(gp.node, r.value) == "Position(self.current_line, self.start - self.line_offset, self.file)" for r in walk_no_nested(gp.node) if isinstance(r, ast.Return)),
              "Scanner.get_position", "line = lines closed so far, column = token start relative to the line start")
    # the line table itself: line k of the file is entry k -- append() adds its argument once, get() / Position.get_line() index it by line
    from ..match import canonical_statements as _cst

    fa = ctx.repo.func("a816.parse.tokens", "File.append")
    fg = ctx.repo.func("a816.parse.tokens", "File.get")
    pa_, pg_ = fa.params()[1], fg.params()[1]
    body_a, body_g = _cst(fa.node), _cst(fg.node)
    adds = [b for b in body_a if "self.lines" in b]
    if not adds or any(b != f"self.lines.append({pa_})" for b in adds):
        raise AnalysisError(f"{fa.where}: line table written other than by self.lines.append(<line>): {adds}; layout not modelled")
    ctx.check(len(adds) == 1, "File.append", f"each closed line is stored once, at the end of the table; found {adds}", fact=True)
    if not (len(body_g) == 1 and body_g[0].startswith("return self.lines[")):
        raise AnalysisError(f"{fg.where}: not a single `return self.lines[..]`; layout not modelled")
    ctx.check(body_g == [f"return self.lines[{pg_}]"], "File.get", f"line k is entry k of the table; found {body_g}")


def _peek_is_plain_char(text: str) -> bool:
    try:
        t = ast.parse(text, mode="eval").body
    except SyntaxError:
        return False
    return (isinstance(t, ast.Compare) and len(t.ops) == 1 and isinstance(t.ops[0], ast.Eq) and unparse(t.left) == "s.peek()"
            and isinstance(t.comparators[0], ast.Constant) and isinstance(t.comparators[0].value, str) and len(t.comparators[0].value) == 1
            and t.comparators[0].value not in "\n\0")


def r4_string_characters_all_tested(ctx: Ctx) -> None:
    """`'abc<newline>` is reported where the string starts: in lex_quoted_string every character taken with next() either becomes
    the loop variable (and meets the newline / end-of-input test at the top of the loop) or was seen by peek() to be a specific
    non-newline character.  A character consumed blind (e.g. `any character after a backslash`) can be the newline that ends an
    unterminated string, which is then reported lines later, at another quote, or as a different error."""
    fn = ctx.repo.func(SST, "lex_quoted_string")
    loops = [n for n in walk_no_nested(fn.node) if isinstance(n, ast.While)]
    if len(loops) != 1:
        raise AnalysisError("lex_quoted_string: expected one loop")
    lp = loops[0]
    g = CFG(fn.node)
    # the loop variable and its newline test
    tested = None
    for st in lp.body:
        if isinstance(st, ast.If) and always_raises(st.body):
            t = unparse(st.test)
            m = re.match(r"^(\w+) == '\\n' or \1 is None$|^(\w+) is None or \2 == '\\n'$|^(\w+) in \('\\n', None\)$|^(\w+) in \(None, '\\n'\)$", t)
            if m:
                tested = next(x for x in m.groups() if x)
    if tested is None:
        ctx.fail("lex_quoted_string:newline-test", "no raising test of the current character against newline / end of input at the top of the loop")
        return
    n = 0
    for st in walk_no_nested(lp):
        calls = [c for c in ([st.value] if isinstance(st, ast.Expr) else []) if isinstance(c, ast.Call) and call_name(c) == "s.next"]
        for c in calls:
            n += 1
            conds = g.path_conditions(g.node_of(st), fn.node, keep=[tested])
            peeked = [t for t, pol in conds if pol and _peek_is_plain_char(t)]
            ctx.check(bool(peeked), f"lex_quoted_string:{unparse(st)} under {sorted(t for t, p in conds if p)}",
                      "a character is consumed without having been tested or peeked: if it is the newline of an unterminated string the error moves to a later line")
        if isinstance(st, ast.Assign) and isinstance(st.value, ast.Call) and call_name(st.value) == "s.next":
            n += 1
            ctx.check(unparse(st.targets[0]) == tested, f"lex_quoted_string:{unparse(st)}", f"the consumed character becomes `{tested}`, which the loop tests first")
    ctx.count("string_consumptions", n)
    ctx.floor("string_consumptions", 2)


def rb_binding_agreement(ctx: Ctx) -> None:
    from ..ownership import binding_agreement

    binding_agreement(ctx)


def rm_no_process_lifetime_results(ctx: Ctx) -> None:
    """memoising decorators, module-level stores and mutable defaults on this property's mechanism (shared rule, caches.py)"""
    from ..caches import state_rule

    state_rule(ctx)


def ru_names_bound(ctx: Ctx) -> None:
    """a local read but never bound raises NameError for every input that reaches the statement (shared rule, names.py)"""
    from ..names import names_rule

    names_rule(ctx)



def r5_skips_stay_on_the_line(ctx: Ctx) -> None:
    """blanks skipped inside a statement are spaces (and tabs), never the newline: an error raised after such a skip is still on the line of
    the token it is about (C16.R2)"""
    from .c16 import r2_skip_sets

    r2_skip_sets(ctx)


def r6_dispatch_errors_name_the_dispatched_token(ctx: Ctx) -> None:
    """a parser state that takes a token (`t = p.next()` / `p.current()`), dispatches on its type through an if-chain and raises
    ParserSyntaxError in the final `else` is complaining about `t`: the error has to carry `t`.  A fresh `p.current()` / `p.peek()` there is the
    token after it -- another statement's, or, when `t` was the end-of-input token, the position-less placeholder whose trace() is None
    (which MZParser.parse_as_ast hands on as `no error`: shared with C14)"""
    from ..match import if_chain, kwarg

    n = 0
    for fi in ctx.repo.module("a816.parse.parser_states").functions.values():
        nested = {id(st.orelse[0]) for st in ast.walk(fi.node) if isinstance(st, ast.If) and len(st.orelse) == 1 and isinstance(st.orelse[0], ast.If)}
        for st in walk_no_nested(fi.node):
            if not isinstance(st, ast.If) or id(st) in nested:
                continue
            arms, els = if_chain(st)
            raises = [r for r in els if isinstance(r, ast.Raise) and isinstance(r.exc, ast.Call) and call_name(r.exc) == "ParserSyntaxError"]
            if not raises:
                continue
            subjects = set()
            for test, _b in arms:
                t = test.values[0] if isinstance(test, ast.BoolOp) and isinstance(test.op, ast.And) else test
                if isinstance(t, ast.Call) and call_name(t) in ("accept_token", "accept_tokens") and t.args and isinstance(t.args[0], ast.Name):
                    subjects.add(t.args[0].id)
                else:
                    subjects.add(None)
            if len(subjects) != 1 or None in subjects:
                continue  # not a dispatch on one local token: no claim
            subj = subjects.pop()
            call = raises[0].exc
            tok = call.args[1] if len(call.args) > 1 else kwarg(call, "token")
            n += 1
            ctx.count("dispatch_errors")
            if tok is None:
                raise AnalysisError(f"{fi.where}: ParserSyntaxError without a token argument")
            ctx.check(isinstance(tok, ast.Name) and tok.id == subj, f"{fi.name}:else-raise:token",
                      f"the if-chain dispatches on `{subj}`; the error raised when no arm matches carries `{unparse(tok)}`", fact=True)
    ctx.floor("dispatch_errors", 2)


RULES = [r1_errors_carry_location, r2_position_before_newline, r3_single_writer, r4_string_characters_all_tested, r5_skips_stay_on_the_line, r6_dispatch_errors_name_the_dispatched_token, rb_binding_agreement, rm_no_process_lifetime_results, ru_names_bound]
