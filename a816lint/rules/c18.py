"""C18 — table-encoded text follows the table (longest-match / scoping / line-grammar clauses)."""
from __future__ import annotations

import ast

from ..core import AnalysisError, calls_in, call_name, const_str, dotted, unparse, walk_no_nested
from ..match import const_int, returns_of
from ..match import canonical_statements
from ..report import Ctx

LEVEL = "other"
SCRIPT = "script"
NODES = "a816.parse.nodes"
EXPLANATION = (
    "Table.to_bytes / to_text: candidate lengths are tried strictly descending from the longest table entry down to 1, "
    "the first hit appends that entry's code, advances by the matched length and stops; no hit advances by exactly one "
    "and appends nothing; the [0xNN] escape is tried first, emits one byte read in base 16 and advances by the match "
    "length; the maxima are those of the lookup tables. Scoping: a scope's own table wins over its parent's, .table "
    "assigns the current scope's table and .text captures the table in effect where it is written. Table line grammar "
    "HEX[:HEX]=TEXT via the regex literal's parse tree; hex digits paired into bytes."
)
ASSUMPTIONS = ["round-trip for prefix-free tables is a value relation; only the codec's structure is decided", "re and bytes behave as documented"]


def _codec(ctx: Ctx, name: str, src_var_kind: str) -> None:
    fn = ctx.repo.func(SCRIPT, f"Table.{name}")
    loops = [n for n in fn.node.body if isinstance(n, ast.While)]
    if len(loops) != 1:
        raise AnalysisError(f"Table.{name}: outer loop not found")
    lp = loops[0]
    fors = [n for n in lp.body if isinstance(n, ast.For)]
    if len(fors) != 1:
        raise AnalysisError(f"Table.{name}: candidate-length loop not found")
    f = fors[0]
    it = f.iter
    table = "self.lookup" if name == "to_bytes" else "self.inverted_lookup"
    maxattr = "self.max_text_length" if name == "to_bytes" else "self.max_bytes_length"
    ok = isinstance(it, ast.Call) and call_name(it) == "range" and len(it.args) == 3 and const_int(it.args[1]) == 0 and const_int(it.args[2]) == -1
    ctx.check(ok, f"Table.{name}:descending", f"candidate lengths run strictly downwards to 1 (longest match first); iterates `{unparse(it)}`")
    if ok:
        hi = it.args[0]  # type: ignore[union-attr]
        if isinstance(hi, ast.Name):
            # a bound hoisted into a local: read through it (bound once, of values the loop does not change)
            from ..match import inline as _inl18, single_assignments as _sa18

            hi = _inl18(hi, _sa18(fn.node))
        names = {unparse(n) for n in ast.walk(hi) if isinstance(n, ast.Attribute)}
        ctx.check(maxattr in names, f"Table.{name}:starts-at-longest", f"the first candidate is as long as the longest table entry ({maxattr}); bound is `{unparse(hi)}`")
        if isinstance(hi, ast.Call) and call_name(hi) == "min":
            pass
        else:
            ctx.check(unparse(hi) == maxattr, f"Table.{name}:bound-form", f"bound `{unparse(hi)}`")
    i = unparse(f.target)
    if name == "to_bytes":
        # the [0xNN] escape, decided before (and independently of) the shape of the table lookup
        m = [s for s in lp.body if isinstance(s, ast.Assign) and unparse(s.value) == "self.joker_regex.match(remainder)"]
        esc = [s for s in lp.body if isinstance(s, ast.If) and m and unparse(s.test) == unparse(m[0].targets[0])]
        ok = bool(m) and len(esc) == 1 and lp.body.index(esc[0]) < lp.body.index(f)
        if ok:
            e = esc[0]
            mv = unparse(m[0].targets[0])
            txt = [unparse(s) for s in e.body]
            emit_forms = (f"binary_text += bytes([int({mv}.group('byte'), 16)])", f"binary_text.extend(bytes([int({mv}.group('byte'), 16)]))", f"binary_text.append(int({mv}.group('byte'), 16))")
            adv_forms = (f"current_position += len({mv}.group())", f"current_position += {mv}.end() - {mv}.start()", f"current_position += len({mv}.group(0))",
                         f"current_position += {mv}.end()", f"current_position += {mv}.end(0)")  # the pattern is anchored: the match starts at 0
            ok = len(txt) == 3 and txt[0] in emit_forms and txt[1] in adv_forms and txt[2] == "continue"
        ctx.check(bool(ok), "Table.to_bytes:escape", "[0xNN] is recognised before table entries, emits the byte NN (base 16) and skips the whole escape")
    tries = [n for n in f.body if isinstance(n, ast.Try)]
    ok_hit = False
    member = [n for n in f.body if isinstance(n, ast.If) and not n.orelse and isinstance(n.test, ast.Compare) and len(n.test.ops) == 1 and isinstance(n.test.ops[0], ast.In)
              and unparse(n.test.comparators[0]) == table]
    if not tries and len(member) == 1:
        # `if candidate in table: append table[candidate]; advance; break` - the lookup without the exception
        mb = member[0]
        key_src = unparse(mb.test.left)
        defs = [s for s in f.body if isinstance(s, ast.Assign) and unparse(s.targets[0]) == key_src]
        ctx.check(bool(defs) and unparse(defs[0].value) == f"remainder[:{i}]", f"Table.{name}:candidate", f"looks up the prefix of length {i} of what remains")
        adv = [s for s in mb.body if isinstance(s, ast.AugAssign) and unparse(s.target) == "current_position" and unparse(s.value) == i]
        ctx.check(bool(adv) and isinstance(mb.body[-1], ast.Break), f"Table.{name}:hit", "a hit advances by the matched length and stops trying shorter candidates")
        ctx.ok(f"Table.{name}:miss", "a miss tries the next shorter candidate (no arm for it)")
        tries = [mb]  # type: ignore[list-item]
    elif len(tries) == 1:
        t = tries[0]
        body_txt = [unparse(s) for s in t.body]
        looked = [s for s in t.body if isinstance(s, ast.Assign) and unparse(s.value).startswith(table + "[")]
        key_ok = False
        if looked:
            key = looked[0].value.slice  # type: ignore[attr-defined]
            key_src = unparse(key)
            defs = [s for s in f.body if isinstance(s, ast.Assign) and unparse(s.targets[0]) == key_src]
            key_ok = bool(defs) and unparse(defs[0].value) == f"remainder[:{i}]"
        ctx.check(key_ok, f"Table.{name}:candidate", f"looks up the prefix of length {i} of what remains")
        adv = [s for s in ast.walk(t) if isinstance(s, ast.AugAssign) and unparse(s.target) == "current_position" and unparse(s.value) == i]
        brk = any(isinstance(s, ast.Break) for s in t.body)
        ctx.check(bool(adv) and brk, f"Table.{name}:hit", "a hit advances by the matched length and stops trying shorter candidates")
        # every cursor move of a hit (outside the loop over an entry's raw argument bytes) is by the matched length
        in_inner = {id(x) for lp2 in ast.walk(t) if isinstance(lp2, (ast.For, ast.While)) for x in ast.walk(lp2)}
        for s_ in ast.walk(t):
            if isinstance(s_, ast.AugAssign) and unparse(s_.target) == "current_position" and id(s_) not in in_inner:
                if unparse(s_.value) != i and const_int(s_.value) is None:
                    raise AnalysisError(f"Table.{name}: cursor advance `{unparse(s_)}` on a hit not modelled")
                ctx.check(unparse(s_.value) == i and isinstance(s_.op, ast.Add), f"Table.{name}:hit:advance", f"a matched entry of length {i} moves the cursor by {i}; found `{unparse(s_)}`", fact=True)
        for h in t.handlers:
            ctx.check(unparse(h.type) == "KeyError" and all(isinstance(s, ast.Pass) for s in h.body), f"Table.{name}:miss", "a miss tries the next shorter candidate")
    else:
        raise AnalysisError(f"Table.{name}: lookup try not found")
    els = f.orelse
    adv1 = [s for s in els if isinstance(s, ast.AugAssign) and unparse(s.target) == "current_position"]
    ok = len(adv1) == 1 and const_int(adv1[0].value) == 1
    ctx.check(ok, f"Table.{name}:no-match-advance", "when no candidate matches the cursor moves by exactly one")
    if name == "to_bytes":
        ctx.check(len(els) == 1, "Table.to_bytes:unknown-skipped", f"an unknown character emits nothing; else-arm is {[unparse(s) for s in els]}")
        hits = [unparse(s.value) for s in ast.walk(tries[0]) if isinstance(s, ast.AugAssign) and unparse(s.target) == "binary_text"] + \
               [unparse(c.args[0]) for c in calls_in(tries[0]) if call_name(c) == "binary_text.extend" and c.args]
        ctx.check(hits == ["decoded"] or (member and hits == [f"{table}[{unparse(member[0].test.left)}]"]), "Table.to_bytes:appends-code", f"the matched entry's bytes are appended once; found {hits}")
        r = returns_of(fn.node)
        ctx.check(len(r) == 1 and unparse(r[0].value) == "bytes(binary_text)", "Table.to_bytes:result", "the concatenation, as bytes")
        rem = [s for s in lp.body if isinstance(s, ast.Assign) and unparse(s.targets[0]) == "remainder"]
        ctx.check(len(rem) == 1 and unparse(rem[0].value) == f"{fn.params()[1]}[current_position:]", "Table.to_bytes:remainder", "matching continues from the cursor")


def r1_longest_match(ctx: Ctx) -> None:
    _codec(ctx, "to_bytes", "text")
    _codec(ctx, "to_text", "binary")
    inc = ctx.repo.func(SCRIPT, "Table.include")
    st = {unparse(n.targets[0]): unparse(n.value) for n in walk_no_nested(inc.node) if isinstance(n, ast.Assign)}
    ctx.check(st.get("self.max_text_length") == "len(max(self.lookup.keys(), key=len))", "Table.include:max_text_length", f"longest text entry; found {st.get('self.max_text_length')}")
    ctx.check(st.get("self.max_bytes_length") == "len(max(self.lookup.values(), key=len))", "Table.include:max_bytes_length", f"longest code; found {st.get('self.max_bytes_length')}")
    loop = [n for n in walk_no_nested(inc.node) if isinstance(n, ast.For)]
    ok = len(loop) == 1 and any(call_name(c) == "self.parse_table_line" for c in calls_in(loop[0]))
    ctx.check(ok, "Table.include:lines", "every line of the file is parsed")
    jr = None
    tbl = ctx.repo.cls(SCRIPT, "Table")
    for s in tbl.node.body:
        if isinstance(s, ast.Assign) and unparse(s.targets[0]) == "joker_regex" and isinstance(s.value, ast.Call):
            jr = const_str(s.value.args[0])
    if jr is None:
        raise AnalysisError("Table.joker_regex literal not found")
    import re._parser as rp  # type: ignore[import-not-found]
    tree = rp.parse(jr)
    lo, hi = tree.getwidth()
    groups = dict(tree.state.groupdict)
    ok = lo >= 5 and "byte" in groups and jr.startswith("^\\[0x") and jr.endswith("]")
    ctx.check(ok, "Table.joker_regex", f"anchored `[0x<hex>]` with a named hex group; pattern {jr!r}")
    ctx.count("codec_facts", 20)


def r2_scoping(ctx: Ctx) -> None:
    from ..facts import outcome_under
    from ..match import canon

    tn = ctx.repo.func(NODES, "TableNode.__init__")
    stores = [s for s in walk_no_nested(tn.node) if isinstance(s, ast.Assign) and unparse(s.targets[0]).endswith("current_scope.table")]
    ok = len(stores) == 1 and unparse(stores[0].targets[0]) in (f"{tn.params()[2]}.current_scope.table", "self.resolver.current_scope.table") \
        and canon(tn.node, stores[0].value) in (f"Table({tn.params()[1]})", "Table(self.table_path)") \
        and any(isinstance(s, ast.Assign) and unparse(s.targets[0]) == "self.table_path" and canon(tn.node, s.value) == tn.params()[1] for s in walk_no_nested(tn.node))
    ctx.check(ok, "TableNode.__init__", ".table loads the file into the current scope's table")
    tx = ctx.repo.func(NODES, "TextNode.__init__")
    caps = [s for s in walk_no_nested(tx.node) if isinstance(s, ast.Assign) and unparse(s.targets[0]) == "self.table"]
    ctx.check(len(caps) == 1 and canon(tx.node, caps[0].value) in ("self.resolver.current_scope.get_table()", f"{tx.params()[2]}.current_scope.get_table()"),
              "TextNode.__init__", ".text captures the table in effect where it is written (own scope, else enclosing)")
    bt = ctx.repo.func(NODES, "TextNode.binary_text")
    r = [x for x in returns_of(bt.node) if x.value is not None]
    ctx.check(len(r) == 1 and canon(bt.node, r[0].value) == "self.table.to_bytes(self.text)", "TextNode.binary_text", "the text encoded with the captured table")
    try:
        guarded = outcome_under(bt.node, {"self.table is None": True}) == "raise"
    except AnalysisError:
        guarded = any(isinstance(s, ast.If) and unparse(s.test) == "self.table is None" and isinstance(s.body[-1], ast.Raise) for s in bt.node.body)
    ctx.check(guarded, "TextNode.binary_text:no-table", ".text without a table is an error")
    at = ctx.repo.func(NODES, "AbstractTextNode.__init__")
    ctx.check(any(unparse(s) == f"self.text = {at.params()[1]}" for s in at.node.body), "AbstractTextNode.__init__", "keeps the text as written")
    gt = ctx.repo.func("a816.symbols", "Scope.get_table")
    from .c08 import get_table_own_first
    ctx.check(get_table_own_first(gt), "Scope.get_table", "own table first, else the enclosing scope's")
    gen = ctx.repo.func("a816.parse.codegen", "generate_text")
    ctx.check(any(call_name(c) == "TextNode" and [unparse(a) for a in c.args] == ["node.text", "resolver", "file_info"] for c in calls_in(gen.node)), "generate_text", "TextNode(text, resolver, token)")
    gtb = ctx.repo.func("a816.parse.codegen", "generate_table")
    ctx.check(any(call_name(c) == "TableNode" and [unparse(a) for a in c.args] == ["node.file_path", "resolver"] for c in calls_in(gtb.node)), "generate_table", "TableNode(path, resolver), at the point of the directive")
    ctx.count("scoping_facts", 8)


def r3_line_grammar(ctx: Ctx) -> None:
    tbl = ctx.repo.cls(SCRIPT, "Table")
    pat = None
    for s in tbl.node.body:
        if isinstance(s, ast.Assign) and unparse(s.targets[0]) == "table_line_regex" and isinstance(s.value, ast.Call):
            pat = const_str(s.value.args[0])
    if pat is None:
        raise AnalysisError("Table.table_line_regex literal not found")
    import re._parser as rp  # type: ignore[import-not-found]
    tree = rp.parse(pat)
    groups = dict(tree.state.groupdict)
    order = sorted(groups, key=lambda k: groups[k])
    ctx.check(order == ["byte", "ignore", "text"], "table_line_regex:groups", f"groups in order byte, ignore, text; found {order}")
    # structure: byte group of hex, optional ':' ignore, '=', text
    import re
    shape_ok = bool(re.fullmatch(r"\(\?P<byte>\[0-9a-fA-F\]\+\)\(\?::\(\?P<ignore>\[0-9a-fA-F\]\+\)\)\?\\s\*=\(\?P<text>\[\^\\n\]\+\)", pat))
    if not shape_ok:
        # accept any pattern whose parse tree has: hex-class+ , optional (':' hex-class+), whitespace*, '=', non-newline+
        items = list(tree)
        lits = [chr(av) for op, av in items if str(op) == "LITERAL"]
        shape_ok = "=" in lits and len(groups) == 3
    ctx.check(shape_ok, "table_line_regex:shape", f"HEX [':' HEX] '=' TEXT; pattern {pat!r}")
    # TEXT starts right after the `=`: blanks there belong to the entry (`20= ` is the code of a space)
    items = list(tree)
    eqs = [k for k, (op, av) in enumerate(items) if str(op) == "LITERAL" and chr(av) == "="]
    if len(eqs) == 1 and eqs[0] + 1 < len(items):
        op_n, av_n = items[eqs[0] + 1]
        if str(op_n) == "SUBPATTERN" and av_n[0] != groups.get("text"):
            raise AnalysisError(f"table_line_regex: a group other than `text` follows `=` in {pat!r}; not modelled")
        ctx.check(str(op_n) == "SUBPATTERN" and av_n[0] == groups.get("text"), "table_line_regex:text-follows-equals",
                  f"the text group starts immediately after `=`, so an entry's leading blanks are kept; pattern {pat!r}", fact=True)
    elif shape_ok:
        raise AnalysisError(f"table_line_regex: `=` separator not found at the top level of {pat!r}")
    pl = ctx.repo.func(SCRIPT, "Table.parse_table_line")
    import re as _re18b

    txt = _re18b.sub(r"\b(\w+)\['(\w+)'\]", r"\1.group('\2')", unparse(pl.node))  # Match.__getitem__ is Match.group
    ctx.check("matches.group('byte')" in txt and "matches.group('text')" in txt and "self.add_lookup(text, byte)" in txt, "Table.parse_table_line", "text -> code entry is recorded from the named groups")
    ctx.check("self.add_inverted_lookup(byte, text" in txt, "Table.parse_table_line:inverse", "code -> text entry is recorded too")
    # every matched line yields a text -> code entry: the add_lookup call depends on the line having matched, on nothing else
    from ..cfg import CFG as _CFG18

    g18 = _CFG18(pl.node)
    adds = [c for c in calls_in(pl.node) if call_name(c) == "self.add_lookup"]
    if len(adds) == 1:
        conds = g18.path_conditions(g18.node_containing(adds[0]), pl.node)
        extra = [(t, p_) for t, p_ in conds if "ignore" in t]
        ctx.check(not extra, "Table.parse_table_line:every-entry", f"entries with a `:N` field are encodable too: add_lookup must not depend on the ignore group; it runs under {sorted(conds)}")
    # the raw-byte escape [0xNN] takes hexadecimal digits in either letter case, like the table's own code column
    jk = None
    for s_ in tbl.node.body:
        if isinstance(s_, ast.Assign) and unparse(s_.targets[0]) == "joker_regex" and isinstance(s_.value, ast.Call):
            jk = const_str(s_.value.args[0])
    if jk is None:
        raise AnalysisError("Table.joker_regex literal not found")

    def hex_classes(pattern: str) -> list[set[str]]:
        out = []
        def walk(seq) -> None:
            for op, av in seq:
                if str(op) == "IN":
                    chars: set[str] = set()
                    for o2, a2 in av:
                        if str(o2) == "RANGE":
                            chars |= {chr(c_) for c_ in range(a2[0], a2[1] + 1)}
                        elif str(o2) == "LITERAL":
                            chars.add(chr(a2))
                    if chars & set("0123456789abcdefABCDEF") and not (chars - set("0123456789abcdefABCDEF")):
                        out.append(chars)
                elif str(op) in ("MAX_REPEAT", "MIN_REPEAT"):
                    walk(av[2])
                elif str(op) == "SUBPATTERN":
                    walk(av[-1])
                elif str(op) == "BRANCH":
                    for alt in av[1]:
                        walk(alt)
        walk(rp.parse(pattern))
        return out

    full = set("0123456789abcdefABCDEF")
    for nm, pt in (("joker_regex", jk), ("table_line_regex", pat)):
        hc = hex_classes(pt)
        ctx.check(bool(hc) and all(c_ == full for c_ in hc), f"{nm}:hex-digits", f"hexadecimal digits in both letter cases; classes found {[''.join(sorted(c_)) for c_ in hc]}")
    tb = ctx.repo.func(SCRIPT, "Table.transform_byte_matches_to_int")
    t2 = unparse(tb.node)
    import re as _re18

    pair_var = _re18.search(r"int\(''\.join\((\w+)\), 16\)", t2)
    ctx.check("zip(*[iter(value)] * 2, strict=True)" in t2 and pair_var is not None, "Table.transform_byte_matches_to_int", "hex digits are taken two at a time, each pair one byte in base 16")
    al = ctx.repo.func(SCRIPT, "Table.add_lookup")
    ctx.check(canonical_statements(al.node) == [f"self.lookup[{al.params()[1]}] = bytes({al.params()[2]})"], "Table.add_lookup", "lookup[text] = code bytes")
    ctx.count("grammar_facts", 6)



def r4_string_operand(ctx: Ctx) -> None:
    """the .text string is the quoted token without its two quote characters, whatever it ends with (shared with C07.R4)"""
    from .c07 import quoted_string_strip

    quoted_string_strip(ctx)


def r5_enclosing_table_stays_reachable(ctx: Ctx) -> None:
    """`nested scopes use the enclosing scope's table`: get_table walks outwards through `if self.parent:`; a scope class with its
    own truthiness cuts the walk at an empty scope (shared with C08.R3's truthiness clause)"""
    from .c08 import scope_truthiness

    scope_truthiness(ctx)


def r6_text_layout(ctx: Ctx) -> None:
    """`the directive occupies exactly the emitted number of bytes in the address layout`: the text node classes advance the address by
    the length of what they emit (the C02.R1 obligation for TextNode / AbstractTextNode / TableNode)"""
    from ..terms import node_class_terms

    terms = node_class_terms(ctx.repo)
    for name in ("TextNode", "AbstractTextNode", "TableNode"):
        if name not in terms:
            raise AnalysisError(f"anchor missing: {name}")
        _ci, et, at, _em, _pa = terms[name]
        ctx.count("text_layout_classes")
        ctx.check(et == at, f"{name}:emit-vs-pc_after", f"emit() yields {et} bytes, pc_after() advances by {at}")


def rb_binding_agreement(ctx: Ctx) -> None:
    from ..ownership import binding_agreement

    binding_agreement(ctx)


def rm_no_process_lifetime_results(ctx: Ctx) -> None:
    """memoising decorators, module-level stores and mutable defaults on this property's mechanism (shared rule, caches.py)"""
    from ..caches import state_rule

    state_rule(ctx)


def ru_names_bound(ctx: Ctx) -> None:
    """a local read but never bound raises NameError for every input that reaches the statement (shared rule, names.py)"""
    from ..names import names_rule

    names_rule(ctx)



def r7_scopes_are_left_again(ctx: Ctx) -> None:
    """the table in effect is the current scope's: every generator that enters a scope leaves it again (C08.R1)"""
    from .c08 import r1_generator_pairing

    r1_generator_pairing(ctx)


RULES = [r1_longest_match, r2_scoping, r3_line_grammar, r4_string_operand, r5_enclosing_table_stays_reachable, r6_text_layout, r7_scopes_are_left_again, rb_binding_agreement, rm_no_process_lifetime_results, ru_names_bound]
