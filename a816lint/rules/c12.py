"""C12 — file and command-line front ends agree with the in-memory assembler (option-plumbing clause)."""
from __future__ import annotations

import ast

from ..cfg import CFG, EXIT
from ..const import module_const
from ..core import AnalysisError, calls_in, call_name, const_str, dotted, unparse, walk_no_nested
from ..match import canon, if_chain, kwarg
from ..match import canonical_statements
from ..report import Ctx

LEVEL = "other"
CLI = "a816.cli"
PROGRAM = "a816.program"
EXPLANATION = (
    "Option plumbing of the front ends: every output-relevant argparse destination reaches the Program call on each "
    "format arm; the mapping names map to RomType members that all have a bus; -D values pass through the expression "
    "evaluator before add_symbol; both file entry points funnel into the one in-memory pipeline with the writer they "
    "built (IPS begin/end bracket, copier flag, binary output files, SFC seek-then-write); the symbol file lists "
    "get_all_labels() (all scopes but loop iterations) as bank:offset name."
)
ASSUMPTIONS = ["byte equality across the option lattice is a relation between runs; not decided", "argparse semantics"]


def _dests(cli_fn: ast.FunctionDef) -> dict[str, ast.Call]:
    out = {}
    for c in calls_in(cli_fn):
        if (call_name(c) or "").endswith(".add_argument"):
            dest = kwarg(c, "dest")
            if dest is not None and const_str(dest):
                out[const_str(dest)] = c
                continue
            opts = [const_str(a) for a in c.args if const_str(a)]
            longs = [o for o in opts if o.startswith("--")]
            name = (longs[0][2:] if longs else opts[0].lstrip("-")).replace("-", "_")
            out[name] = c
    return out


def r1_options_reach_assembler(ctx: Ctx) -> None:
    cli = ctx.repo.func(CLI, "cli_main")
    dests = _dests(cli.node)
    for need in ("mapping", "input_file", "output_file", "format", "copier_header", "defines", "dump_symbols"):
        if need not in dests:
            raise AnalysisError(f"cli_main: option destination {need} not found among {sorted(dests)}")
    # what each entry point receives, bound to the callee's parameters by position or keyword (any branch layout)
    from ..match import canon as _canon12

    wanted = {"program.assemble_as_patch": ("Program.assemble_as_patch", "ips", ["input_file", "output_file", "mapping", "copier_header"]),
              "program.assemble": ("Program.assemble", "else", ["input_file", "output_file", "mapping"])}
    for entry, (callee_q, label, dests_) in wanted.items():
        sites = [c for c in calls_in(cli.node) if call_name(c) == entry]
        if len(sites) != 1:
            raise AnalysisError(f"cli_main: expected one call of {entry}")
        callee = ctx.repo.func(PROGRAM, callee_q).params()[1:]
        if len(callee) < len(dests_):
            raise AnalysisError(f"{callee_q}: fewer parameters than options to pass")
        got = []
        for i, (par, d) in enumerate(zip(callee, dests_)):
            a = kwarg(sites[0], par, i)
            text = _canon12(cli.node, a, keep=["args"]) if a is not None else None
            got.append(text)
            ctx.count("option_arm_pairs")
            if d == "copier_header":
                ctx.check(text == "args.copier_header", "cli_main[ips]:copier_header", "the copier-header flag reaches the IPS writer")
            else:
                ctx.check(text == f"args.{d}", f"cli_main[{label}]:{d}", f"option `{d}` is passed to the assembler's `{par}` on this format arm (found: {text})")
        if label == "ips":
            ctx.check(got == [f"args.{d}" for d in dests_] and len(sites[0].args) + len(sites[0].keywords) == len(dests_), "cli_main[ips]:argument-order",
                      "assemble_as_patch(input, output, mapping, copier_header)")
    # `-f ips` selects the patch writer, anything else the flat image: the condition each entry point is called under
    gc = CFG(cli.node)
    for entry, want in (("program.assemble_as_patch", True), ("program.assemble", False)):
        sites = [c for c in calls_in(cli.node) if call_name(c) == entry]
        if len(sites) != 1:
            raise AnalysisError(f"cli_main: expected one call of {entry}")
        conds = gc.path_conditions(gc.node_containing(sites[0]), cli.node, keep=["args"])
        ctx.count("format_selection")
        ctx.check(any(t.endswith(".format == 'ips'") and pol == want for t, pol in conds), f"cli_main:{entry}:selected-by-format",
                  f"{entry} runs exactly when the format {'is' if want else 'is not'} ips; conditions found: {sorted(conds)}")
    prog = [c for c in calls_in(cli.node) if call_name(c) == "Program"]
    ctx.check(len(prog) == 1 and unparse(kwarg(prog[0], "dump_symbols")) == "args.dump_symbols", "cli_main:dump_symbols", "passed to Program")
    # the sfc arm's mapping argument lands on assemble's mapping parameter
    asm = ctx.repo.func(PROGRAM, "Program.assemble")
    ctx.check("mapping" in asm.params(), "Program.assemble:mapping-parameter", "the flat-image entry point accepts the address mapping")
    mapping_applied(ctx)


def mapping_applied(ctx: Ctx) -> None:
    """both file entry points select the requested mapping before they assemble"""
    for q in ("Program.assemble", "Program.assemble_as_patch"):
        fn = ctx.repo.func(PROGRAM, q)
        g = CFG(fn.node)
        sm = [g.node_containing(c) for c in calls_in(fn.node) if call_name(c) == "self.set_mapping" and [unparse(a) for a in c.args] == ["mapping"]]
        awe = [g.node_containing(c) for c in calls_in(fn.node) if call_name(c) == "self.assemble_with_emitter"]
        ctx.check(bool(sm) and bool(awe) and all(g.dominated_by(a, sm) for a in awe), f"{q}:mapping-applied", "the mapping is selected before assembling")


def r2_mapping_choices_total(ctx: Ctx) -> None:
    sm = ctx.repo.func(PROGRAM, "Program.set_mapping")
    d = [n for n in walk_no_nested(sm.node) if isinstance(n, ast.Dict)]
    tname = None
    if not d:
        # the table may live at module level: follow the name subscripted by the parameter
        for n in walk_no_nested(sm.node):
            if isinstance(n, ast.Subscript) and isinstance(n.value, ast.Name) and unparse(n.slice) == sm.params()[1]:
                r = ctx.repo.resolve_name(sm.module, n.value.id)
                if r and r[0] == "global":
                    mi_, nm_ = r[1]  # type: ignore[misc]
                    if isinstance(mi_.assigns.get(nm_), ast.Dict) and sum(1 for x, _ in mi_.assigns_all if x == nm_) == 1:
                        d = [mi_.assigns[nm_]]
                        tname = n.value.id
    if len(d) != 1:
        raise AnalysisError("set_mapping: mapping-name table not found")
    table = {const_str(k): (dotted(v) or "").split(".")[-1] for k, v in zip(d[0].keys, d[0].values)}
    bm = ctx.repo.module("a816.symbols").assigns.get("BUS_MAPPING")
    keys = {(dotted(k) or "").split(".")[-1] for k in bm.keys} if isinstance(bm, ast.Dict) else set()
    want = {"low": "low_rom", "low2": "low_rom_2", "high": "high_rom"}
    for name, rom in want.items():
        ctx.count("mapping_names")
        ctx.check(table.get(name) == rom, f"set_mapping[{name}]", f"`-m {name}` selects RomType.{rom}; found {table.get(name)}")
        ctx.check(table.get(name) in keys, f"BUS_MAPPING[{table.get(name)}]", "the selected RomType has a bus (Resolver.get_bus subscripts BUS_MAPPING)")
    st = [n for n in walk_no_nested(sm.node) if isinstance(n, ast.Assign) and unparse(n.targets[0]) == "self.resolver.rom_type"]
    local_tables = {unparse(n.targets[0]) for n in walk_no_nested(sm.node) if isinstance(n, ast.Assign) and n.value is d[0]}
    from ..match import inline as _inl, last_assignments as _la

    stv = st[0].value if len(st) == 1 else None
    for _ in range(3):
        stv = _inl(stv, {k: x for k, x in _la(sm.node).items() if k not in local_tables}) if stv is not None else None
    okv = stv is not None and isinstance(stv, ast.Subscript) and unparse(stv.slice) == sm.params()[1] and \
        (stv.value is d[0] or unparse(stv.value) in local_tables or unparse(stv.value) == tname or unparse(stv.value) == unparse(d[0]))
    ctx.check(okv, "set_mapping:assigns-rom-type", "plain subscript of the name table by the option value (an unknown name raises)")
    if len(st) == 1:
        gsm = CFG(sm.node)
        conds = gsm.path_conditions(gsm.node_of(st[0]))
        pname = sm.params()[1]
        wrong = [(t, p_) for t, p_ in conds if (t == f"{pname} is None" and p_) or (t == pname and not p_)]
        ctx.check(not wrong, "set_mapping:when-given", f"the mapping is applied when one was given (`{pname} is not None`), not when it is absent; conditions {sorted(conds)}")
    asp = ctx.repo.func(PROGRAM, "Program.assemble_as_patch")
    dflt = {a.arg: d for a, d in zip(asp.node.args.args[-len(asp.node.args.defaults):], asp.node.args.defaults)} if asp.node.args.defaults else {}
    if "copier_header" in dflt:
        ctx.check(unparse(dflt["copier_header"]) == "False", "assemble_as_patch:copier_header-default", "without the option no copier header is assumed (offsets are not shifted)")
    cli = ctx.repo.func(CLI, "cli_main")
    m = _dests(cli.node)["mapping"]
    ctx.check(const_str(kwarg(m, "default")) in table, "cli_main:-m default", "the default mapping name is a known one")
    gb = ctx.repo.func("a816.symbols", "Resolver.get_bus")
    from ..match import canonical_subscripts

    ctx.check("BUS_MAPPING[self.rom_type]" in canonical_subscripts(gb.node), "Resolver.get_bus:by-rom-type", "built-in bus chosen by rom_type")


def r3_defines_are_integers(ctx: Ctx) -> None:
    cli = ctx.repo.func(CLI, "cli_main")
    adds = [c for c in calls_in(cli.node) if (call_name(c) or "").endswith(".add_symbol")]
    if len(adds) != 1:
        raise AnalysisError("cli_main: add_symbol call for -D not found")
    val = adds[0].args[1]
    conv = isinstance(val, ast.Call) and call_name(val) in ("eval_expression_str", "int", "eval_number")
    ctx.check(conv, "cli_main:-D value", f"the value text goes through the expression evaluator / int() before becoming a symbol; found `{unparse(val)}` "
              "(a string symbol cannot be evaluated: 'Unable to resolve')", fact=True)
    from ..match import canon as _cn12b

    ctx.check(_cn12b(cli.node, adds[0].func, keep=["program"]).startswith("program.resolver.current_scope"), "cli_main:-D scope", "defined in the root scope, before assembling")
    sp = [n for n in walk_no_nested(cli.node) if isinstance(n, ast.Assign) and isinstance(n.value, ast.Call) and (call_name(n.value) or "").endswith(".split")]
    ok = len(sp) == 1 and [unparse(a) for a in sp[0].value.args] == ["'='", "1"] and isinstance(sp[0].targets[0], ast.Tuple)
    ctx.check(ok, "cli_main:-D split", "NAME=VALUE split at the first '='")
    g = CFG(cli.node)
    an = g.node_containing(adds[0])
    for c in calls_in(cli.node):
        if call_name(c) in ("program.assemble", "program.assemble_as_patch"):
            ctx.check(an in g.reachable([0]) and g.node_containing(c) in g.reachable([an]) and an not in g.reachable([g.node_containing(c)]),
                      f"cli_main:-D before {call_name(c)}", "definitions are made before the program is assembled")
    # every given definition is made: the add_symbol sits in a loop over args.defines that runs exactly when definitions were given
    conds = g.path_conditions(an, cli.node, keep=["args"])
    bad = [(t, pol) for t, pol in conds if "defines" in t and ((t.endswith(".defines") and not pol) or (t.endswith(".defines is None") and pol))]
    ctx.check(not bad, "cli_main:-D guard", f"definitions are processed when -D was given (the guard must not be inverted); conditions {sorted(conds)}")
    loops = [n for n in walk_no_nested(cli.node) if isinstance(n, ast.For) and any(x is adds[0] for x in ast.walk(n))]
    it_d = loops[0].iter if len(loops) == 1 else None
    if isinstance(it_d, ast.BoolOp) and isinstance(it_d.op, ast.Or) and len(it_d.values) == 2 and isinstance(it_d.values[1], (ast.Tuple, ast.List)) and not it_d.values[1].elts:
        it_d = it_d.values[0]  # `args.defines or ()`: the same list, nothing when the option is absent
    ctx.check(it_d is not None and unparse(it_d).endswith(".defines"), "cli_main:-D loop", "every NAME=VALUE given is defined (a loop over args.defines)")
    ctx.count("define_facts", 6)


def r4_one_pipeline(ctx: Ctx) -> None:
    repo = ctx.repo
    asm = repo.func(PROGRAM, "Program.assemble")
    pat = repo.func(PROGRAM, "Program.assemble_as_patch")
    awe = repo.func(PROGRAM, "Program.assemble_with_emitter")
    for fn, wcls, wargs in ((asm, "SFCWriter", ["f"]), (pat, "IPSWriter", ["f", "copier_header"])):
        ctor = [c for c in calls_in(fn.node) if call_name(c) == wcls]
        ctx.check(len(ctor) == 1 and [unparse(a) for a in ctor[0].args] == wargs, f"{fn.qualname}:writer", f"builds {wcls}({', '.join(wargs)})")
        opens = [c for c in calls_in(fn.node) if call_name(c) == "open"]
        ctx.check(len(opens) == 1 and const_str(opens[0].args[1]) == "wb" and unparse(opens[0].args[0]) == fn.params()[2], f"{fn.qualname}:output-file", "the output file is opened for binary writing")
        call = [c for c in calls_in(fn.node) if call_name(c) == "self.assemble_with_emitter"]
        wv = [unparse(n.targets[0]) for n in walk_no_nested(fn.node) if isinstance(n, ast.Assign) and ctor and n.value is ctor[0]]
        ctx.check(len(call) == 1 and wv and [unparse(a) for a in call[0].args] == [fn.params()[1], wv[0]], f"{fn.qualname}:pipeline", "assembles the given source with the writer it built")
    g = CFG(pat.node)
    b = [g.node_containing(c) for c in calls_in(pat.node) if call_name(c) == "ips_emitter.begin"]
    e = [g.node_containing(c) for c in calls_in(pat.node) if call_name(c) == "ips_emitter.end"]
    a = [g.node_containing(c) for c in calls_in(pat.node) if call_name(c) == "self.assemble_with_emitter"]
    ok = len(b) == 1 and len(e) == 1 and len(a) == 1 and g.dominated_by(a[0], b) and g.every_path_passes(a[0], EXIT, e, labels_excluded=["exc"])
    ctx.check(ok, "assemble_as_patch:begin/end", "PATCH header before the records, EOF trailer after them on every normal path")
    rd = [c for c in calls_in(awe.node) if call_name(c) == "open"]
    ok = len(rd) == 1 and unparse(rd[0].args[0]) == awe.params()[1] and unparse(kwarg(rd[0], "encoding")) == "'utf-8'"
    ctx.check(ok, "assemble_with_emitter:reads-source", "reads the source file as UTF-8 text")
    call = [c for c in calls_in(awe.node) if call_name(c) == "self.assemble_string_with_emitter"]
    from ..match import canon as _canon12

    fvar = None
    for w in [n for n in walk_no_nested(awe.node) if isinstance(n, ast.With)]:
        for it in w.items:
            if it.context_expr is (rd[0] if rd else None) and it.optional_vars is not None:
                fvar = unparse(it.optional_vars)
    ok = len(call) == 1 and fvar is not None and [_canon12(awe.node, x) for x in call[0].args] == [f"{fvar}.read()", awe.params()[1], awe.params()[2]]
    ctx.check(ok, "assemble_with_emitter:pipeline", "the whole file text goes through the in-memory entry point with the same writer")
    sw = repo.func("a816.writers", "SFCWriter.write_block")
    body = canonical_statements(sw.node)
    ctx.check(body == [f"self.file.seek({sw.params()[2]})", f"self.file.write({sw.params()[1]})"], "SFCWriter.write_block", f"seek to the block's offset, then write the block; found {body}")
    wi = repo.func("a816.writers", "SFCWriter.__init__")
    ctx.check(any(unparse(s) == f"self.file = {wi.params()[1]}" for s in wi.node.body), "SFCWriter.__init__", "writes to the file it was given")
    ii = repo.func("a816.writers", "IPSWriter.__init__")
    ctx.check(any(unparse(s) == f"self.file = {ii.params()[1]}" for s in ii.node.body), "IPSWriter.__init__", "writes to the file it was given")
    ctx.count("pipeline_facts", 10)


def r5_symbol_file(ctx: Ctx) -> None:
    from ..match import canon as _cn12b

    ex = ctx.repo.func(PROGRAM, "Program.exports_symbol_file")
    loops = [n for n in walk_no_nested(ex.node) if isinstance(n, ast.For)]
    ok = len(loops) == 1 and _cn12b(ex.node, loops[0].iter) == "self.resolver.get_all_labels()"
    ctx.check(ok, "exports_symbol_file:source", "iterates get_all_labels()")
    if loops:
        from ..poly import poly, poly_of_source, show
        name, value = [unparse(e) for e in loops[0].target.elts] if isinstance(loops[0].target, ast.Tuple) else ("?", "?")
        env = {unparse(s.targets[0]): s.value for s in loops[0].body if isinstance(s, ast.Assign)}
        writes = [c for c in calls_in(loops[0]) if (call_name(c) or "").endswith(".write")]
        ok = len(writes) == 1 and isinstance(writes[0].args[0], ast.JoinedStr)
        if ok:
            fv = [v for v in writes[0].args[0].values if isinstance(v, ast.FormattedValue)]
            exprs = [unparse(v.value) for v in fv]
            specs = [unparse(v.format_spec) if v.format_spec else "" for v in fv]
            ok = len(fv) == 3 and exprs[2] == name
            if ok:
                b = poly(env.get(exprs[0], fv[0].value)) if exprs[0] in env else poly(fv[0].value)
                o = poly(env.get(exprs[1], fv[1].value)) if exprs[1] in env else poly(fv[1].value)
                ok = show(b) == show(poly_of_source(f"{value} >> 16 & 0xFF")) and show(o) == show(poly_of_source(f"{value} & 0xFFFF")) and all("x" in s for s in specs[:2])
        ctx.check(bool(ok), "exports_symbol_file:line-format", "one `bank:offset name` line per label, bank = value>>16 & 0xFF, offset = value & 0xFFFF, hexadecimal")
    hdr = [c for c in calls_in(ex.node) if (call_name(c) or "").endswith(".write") and c.args and const_str(c.args[0]) == "[labels]\n"]
    ctx.check(len(hdr) == 1, "exports_symbol_file:header", "[labels] section header")
    gl = ctx.repo.func("a816.symbols", "Resolver.get_all_labels")
    loops = [n for n in walk_no_nested(gl.node) if isinstance(n, ast.For)]
    ok = len(loops) == 1 and unparse(loops[0].iter) == "self.scopes" and len(loops[0].body) == 1 and isinstance(loops[0].body[0], ast.If) \
        and unparse(loops[0].body[0].test) == "not isinstance(scope, InternalScope)" and [unparse(b) for b in loops[0].body[0].body] == ["labels += scope.get_labels()"]
    if not ok and not loops:
        # the same walk as one comprehension: [label for scope in self.scopes if not isinstance(scope, InternalScope) for label in scope.get_labels()]
        rets_ = [r for r in walk_no_nested(gl.node) if isinstance(r, ast.Return) and r.value is not None]
        if len(rets_) == 1:
            from ..match import inline as _inl, single_assignments as _sa

            v_ = _inl(rets_[0].value, _sa(gl.node))
            if isinstance(v_, ast.ListComp) and len(v_.generators) == 2:
                g1, g2 = v_.generators
                sc = unparse(g1.target)
                ok = unparse(g1.iter) == "self.scopes" and [unparse(c) for c in g1.ifs] == [f"not isinstance({sc}, InternalScope)"] and not g2.ifs \
                    and unparse(g2.iter) == f"{sc}.get_labels()" and unparse(v_.elt) == unparse(g2.target)
    ctx.check(ok, "Resolver.get_all_labels", "labels of every scope except loop-iteration (internal) scopes, each once")
    # "internal" means "a loop iteration" and nothing else: whoever else opens an internal scope hides its labels from the symbol file
    for fn in ctx.repo.all_functions():
        for c in calls_in(fn.node):
            cn = call_name(c) or ""
            if cn.endswith(".append_internal_scope") or cn == "InternalScope":
                ctx.count("internal_scope_sites")
                ctx.check(fn.fq in ("a816.parse.codegen:generate_for", "a816.symbols:Resolver.append_internal_scope"), f"{fn.where}:{unparse(c)[:40]}",
                          "only loop iterations open an internal scope; labels defined in any other internal scope are dropped from the exported symbol file")
    ctx.floor("internal_scope_sites", 2)
    gls = ctx.repo.func("a816.symbols", "Scope.get_labels")
    ctx.check(canonical_statements(gls.node) == ["return self.labels.items()"], "Scope.get_labels", "the scope's own label table")
    ctx.count("symbol_file_facts", 5)



def r6_copier_header_shift(ctx: Ctx) -> None:
    """the copier header shifts every IPS record offset by exactly 0x200, once (shared with C11.R3)"""
    from .c11 import r3_no_wrap_and_copier

    r3_no_wrap_and_copier(ctx)


def r7_writers_place_blocks(ctx: Ctx) -> None:
    """`the SFC image equals the IPS patch applied to an empty image`: both writers put each block at its address, in write order
    (shared with C03.R4 / C11.R1-R2)"""
    from .c03 import r4_writers_place_blocks

    r4_writers_place_blocks(ctx)


def rb_binding_agreement(ctx: Ctx) -> None:
    from ..ownership import binding_agreement

    binding_agreement(ctx)


def rm_no_process_lifetime_results(ctx: Ctx) -> None:
    """memoising decorators, module-level stores and mutable defaults on this property's mechanism (shared rule, caches.py)"""
    from ..caches import state_rule

    state_rule(ctx)


def ru_names_bound(ctx: Ctx) -> None:
    """a local read but never bound raises NameError for every input that reaches the statement (shared rule, names.py)"""
    from ..names import names_rule

    names_rule(ctx)



def r8_status_and_mapping_tables(ctx: Ctx) -> None:
    """what the front ends report and place is what the in-memory assembler decided: the exit status is the assembler's (C14.R2) and the
    built-in mapping tables the `-m` names select are the textbook ones (C04.R1, C04.R2)"""
    from .c04 import r1_builtin_maps, r2_mirror_construction
    from .c14 import r2_entry_point_status

    r2_entry_point_status(ctx)
    r1_builtin_maps(ctx)
    r2_mirror_construction(ctx)


def r9_label_values(ctx: Ctx) -> None:
    """the symbol file lists the bank and offset of each label value: a label is stored with its logical address (C08.R4)"""
    from .c08 import r4_export as _c08_r4_export

    _c08_r4_export(ctx)


RULES = [r1_options_reach_assembler, r2_mapping_choices_total, r3_defines_are_integers, r4_one_pipeline, r5_symbol_file, r6_copier_header_shift, r7_writers_place_blocks, r8_status_and_mapping_tables, r9_label_values, rb_binding_agreement, rm_no_process_lifetime_results, ru_names_bound]
