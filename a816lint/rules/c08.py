"""C08 — lexical scoping (scope-replay pairing clause)."""
from __future__ import annotations

import ast
import copy
import re

from ..cfg import always_raises
from ..core import AnalysisError, FunctionInfo, calls_in, call_name, dotted, unparse, walk_no_nested
from ..facts import assign_facts, possible_values, return_facts, show
from ..match import canon, if_chain, returns_of
from ..match import canonical_statements
from ..report import Ctx

LEVEL = "other"
CODEGEN = "a816.parse.codegen"
SYMBOLS = "a816.symbols"
NODES = "a816.parse.nodes"
EXPLANATION = (
    "Scopes are created during code generation and replayed positionally in three later traversals. Decided: every "
    "generator that appends a scope performs append -> use_next_scope -> emit ScopeNode -> body -> emit PopScopeNode -> "
    "restore_scope exactly once per scope, and ScopeNode/PopScopeNode are built nowhere else; ScopeNode/PopScopeNode do "
    "the same scope effect in pc_after and emit; the resolver primitives keep creation order; value_for/get_table test "
    "the local tables before delegating to the parent and the root raises; named scopes export name.k into the parent; "
    "only the resolver, Program reset code and a save/restore region may write the replay cursor."
)
ASSUMPTIONS = ["rename invariance and the full environment semantics for arbitrary nestings need an interpreter; not decided"]

APPENDERS = ("append_scope", "append_named_scope", "append_internal_scope")


def _event(st: ast.stmt) -> str | None:
    txt = unparse(st)
    cs = [call_name(c) or "" for c in calls_in(st)]
    if any(c.startswith("resolver.") and c.split(".")[1] in APPENDERS for c in cs):
        return "append"
    if "resolver.use_next_scope" in cs:
        return "use"
    if "resolver.restore_scope" in cs:
        return "restore"
    if "PopScopeNode" in cs:
        return "pop"
    if "ScopeNode" in cs:
        return "scope"
    if any(c in ("_code_gen", "generate_block") for c in cs) or "SymbolNode" in cs or ".add_symbol" in txt:
        return "body"
    return None


def dynamic_scope_dispatch(fn: FunctionInfo) -> str | None:
    """a call through a table / variable that receives the resolver (`TABLE[kind](resolver, ...)`): the scope it may open is not visible"""
    for c in calls_in(fn.node):
        if isinstance(c.func, (ast.Subscript, ast.Call)) and any(unparse(a) == "resolver" for a in c.args):
            return unparse(c)[:60]
    return None


def scope_units(fn: FunctionInfo) -> list[tuple[str, list[ast.stmt]]]:
    """statement lists that contain an append_* call directly (function body or a loop body)."""
    out = []
    for parent in walk_no_nested(fn.node):
        for field in ("body", "orelse"):
            seq = getattr(parent, field, None)
            if isinstance(seq, list) and any(isinstance(s, ast.stmt) and _event(s) == "append" and not isinstance(s, (ast.For, ast.While, ast.If, ast.Try, ast.With)) for s in seq):
                out.append((type(parent).__name__, seq))
    return out


def r1_generator_pairing(ctx: Ctx) -> None:
    cg = ctx.repo.module(CODEGEN)
    creators = []
    for fn in list(cg.functions.values()):
        if any((call_name(c) or "").split(".")[-1] in APPENDERS for c in calls_in(fn.node)):
            creators.append(fn)
    for fn in creators:
        units = scope_units(fn)
        if not units:
            raise AnalysisError(f"{fn.where}: append_* call not at statement level")
        for kind, seq in units:
            ctx.count("scope_units")
            events = []
            for st in seq:
                if isinstance(st, (ast.For, ast.While, ast.If, ast.Try, ast.With)):
                    inner = {_event(s) for s in walk_no_nested(st) if isinstance(s, ast.stmt) and s is not st} - {None}
                    structural = inner & {"append", "use", "scope", "pop", "restore"}
                    if structural:
                        events.append("nested:" + ",".join(sorted(structural)))
                    elif inner:
                        events.append("body")
                    continue
                e = _event(st)
                if e:
                    events.append(e)
            core = [e for e in events if e != "body"]
            construct = f"{fn.qualname}[{kind}]"
            ok = core == ["append", "use", "scope", "pop", "restore"]
            ctx.check(ok, construct + ":sequence", f"scope events in order: {events}; required append, use_next_scope, ScopeNode, <body>, PopScopeNode, restore_scope once each")
            if ok:
                i_scope, i_pop = events.index("scope"), events.index("pop")
                body_outside = [i for i, e in enumerate(events) if e == "body" and not (i_scope < i < i_pop)]
                # argument pre-evaluation before the scope exists is fine (it emits no nodes); node-producing body must sit inside
                producing_outside = []
                for st in seq:
                    if _event(st) == "body" and not isinstance(st, (ast.For, ast.While, ast.If, ast.Try)):
                        idx = seq.index(st)
                        pos_scope = next(i for i, s in enumerate(seq) if _event(s) == "scope" and not isinstance(s, (ast.For, ast.While, ast.If, ast.Try)))
                        pos_pop = next(i for i, s in enumerate(seq) if _event(s) == "pop" and not isinstance(s, (ast.For, ast.While, ast.If, ast.Try)))
                        if not pos_scope < idx < pos_pop and any((call_name(c) or "") in ("_code_gen", "generate_block") for c in calls_in(st)):
                            producing_outside.append(unparse(st)[:50])
                ctx.check(not producing_outside, construct + ":body-inside", f"statements expanded outside the ScopeNode..PopScopeNode bracket: {producing_outside}")
            for s in seq:
                for r in walk_no_nested(s):
                    if isinstance(r, ast.Return) and s is not seq[-1]:
                        ctx.fail(construct + ":early-return", "a return between append and restore leaves the generation-time scope pushed")
    ctx.count("scope_creators", len(creators))
    ctx.floor("scope_creators", 2)
    allowed = {f.fq for f in creators}
    for fn in ctx.repo.all_functions():
        for c in calls_in(fn.node):
            if call_name(c) in ("ScopeNode", "PopScopeNode") and fn.fq not in allowed:
                ctx.fail(f"{fn.where}:{call_name(c)}", "scope replay nodes are constructed outside a scope-creating generator: replay and creation order diverge")


def _single_call(fn: FunctionInfo, suffix: str) -> ast.Call | None:
    cs = [c for c in calls_in(fn.node) if (call_name(c) or "").endswith(suffix)]
    return cs[0] if len(cs) == 1 else None


def r2_replay_agreement(ctx: Ctx) -> None:
    repo = ctx.repo
    for meth in ("pc_after", "emit"):
        fn = repo.func(NODES, f"ScopeNode.{meth}")
        c = _single_call(fn, "resolver.use_next_scope")
        others = [call_name(x) for x in calls_in(fn.node) if "scope" in (call_name(x) or "") and x is not c]
        ctx.check(c is not None and not others and not [s for s in walk_no_nested(fn.node) if isinstance(s, (ast.If, ast.For, ast.While, ast.Try))],
                  f"ScopeNode.{meth}", "enters the next scope exactly once, unconditionally")
        fn = repo.func(NODES, f"PopScopeNode.{meth}")
        c = _single_call(fn, "resolver.restore_scope")
        ctx.check(c is not None and not [s for s in walk_no_nested(fn.node) if isinstance(s, (ast.If, ast.For, ast.While, ast.Try))],
                  f"PopScopeNode.{meth}", "leaves the scope exactly once, unconditionally")
        if meth == "pc_after" and c is not None:
            ex = [unparse(k.value) for k in c.keywords if k.arg == "exports"] + [unparse(a) for a in c.args]
            ctx.check(ex == ["True"], "PopScopeNode.pc_after:exports", "named-scope exports are made during label resolution, before emission reads them")
    un = repo.func(SYMBOLS, "Resolver.use_next_scope")
    body = canonical_statements(un.node)
    ctx.check(_advances_and_enters(un.node), "Resolver.use_next_scope", f"advances the replay cursor by one and enters that scope; found {body}")
    kinds = {"append_scope": "Scope", "append_named_scope": "NamedScope", "append_internal_scope": "InternalScope"}
    for m, cls in kinds.items():
        fn = repo.func(SYMBOLS, f"Resolver.{m}")
        ctor = [c for c in calls_in(fn.node) if call_name(c) == cls]
        app = [c for c in calls_in(fn.node) if call_name(c) == "self.scopes.append"]
        ok = len(ctor) == 1 and len(app) == 1 and unparse(ctor[0].args[-1]) == "self.current_scope" and \
            any(isinstance(s, ast.Assign) and s.value is ctor[0] and unparse(app[0].args[0]) == unparse(s.targets[0]) for s in fn.node.body)
        ctx.check(ok, f"Resolver.{m}", f"creates a {cls} whose parent is the current scope and appends it (creation order = replay order)")
        ins = [c for c in calls_in(fn.node) if isinstance(c.func, ast.Attribute) and c.func.attr in ("insert", "pop", "remove", "clear")]
        ctx.check(not ins, f"Resolver.{m}:append-only", "the scope list only grows at the end")
    init = repo.func(SYMBOLS, "Scope.__init__")
    st = {unparse(n.targets[0]) if isinstance(n, ast.Assign) else unparse(n.target): unparse(n.value) for n in walk_no_nested(init.node)
          if isinstance(n, (ast.Assign, ast.AnnAssign)) and getattr(n, "value", None) is not None}
    ctx.check(st.get("self.parent") == init.params()[2] and st.get("self.symbols") == "{}" and st.get("self.code_symbols") == "{}" and st.get("self.labels") == "{}",
              "Scope.__init__", "fresh tables per scope; parent is the constructor argument")
    ns = repo.func(SYMBOLS, "NamedScope.__init__")
    sup = [c for c in calls_in(ns.node) if call_name(c) == "super().__init__"]
    ctx.check(len(sup) == 1 and [unparse(a) for a in sup[0].args] == [ns.params()[2], ns.params()[3]], "NamedScope.__init__", "passes resolver and parent through")
    ctx.count("replay_facts", 12)


def scope_truthiness(ctx: Ctx) -> None:
    """`if self.parent:` decides "is there an enclosing scope": scopes must not define their own truthiness"""
    for ci in [ctx.repo.cls(SYMBOLS, "Scope")] + ctx.repo.subclasses(ctx.repo.cls(SYMBOLS, "Scope")):
        for dunder in ("__len__", "__bool__"):
            ctx.count("truthiness_checks")
            ctx.check(dunder not in ci.methods, f"{ci.name}.{dunder}", "the parent tests `if self.parent:` in value_for/get_table treat a falsy scope as 'no parent'; "
                      f"with {dunder} an empty enclosing scope ends the outward lookup")
    tests = 0
    for q in ("Scope.value_for", "Scope.get_table"):
        fn = ctx.repo.func(SYMBOLS, q)
        for n in walk_no_nested(fn.node):
            if isinstance(n, (ast.If, ast.IfExp, ast.While)) and any(unparse(x) == "self.parent" for x in ([n.test] + (list(n.test.values) if isinstance(n.test, ast.BoolOp) else []))):
                tests += 1
    ctx.note(f"{tests} truthiness tests of self.parent in value_for/get_table")


class _ContainsInliner(ast.NodeTransformer):
    """`x in self` -> the body of the class's own __contains__ (single return), so membership facts stay readable"""

    def __init__(self, param: str, body: ast.AST) -> None:
        self.param, self.body = param, body

    def visit_Compare(self, node: ast.Compare) -> ast.AST:
        self.generic_visit(node)
        if len(node.ops) == 1 and isinstance(node.ops[0], (ast.In, ast.NotIn)) and unparse(node.comparators[0]) == "self":
            import copy

            class _Sub(ast.NodeTransformer):
                def visit_Name(s2, n: ast.Name) -> ast.AST:  # noqa: N805
                    return copy.deepcopy(node.left) if n.id == self.param else n

            e = _Sub().visit(copy.deepcopy(self.body))
            return e if isinstance(node.ops[0], ast.In) else ast.UnaryOp(ast.Not(), e)
        return node


def _chain_walk_as_recursion(fn: ast.FunctionDef, name: str, sym: str) -> ast.FunctionDef | None:
    """cur = self; while C(cur): [if F(cur): break | return X(cur)]...; cur = cur.parent   followed by   return R(cur)
    is the recursion   if C(self): [if F(self): return R(self) | X(self)]...; return self.parent.<name>(sym)   else   return R(self)"""
    body = [st for st in fn.body if not (isinstance(st, ast.Expr) and isinstance(st.value, ast.Constant))]
    if len(body) != 3 or not (isinstance(body[0], ast.Assign) and isinstance(body[0].targets[0], ast.Name) and unparse(body[0].value) == "self"):
        return None
    cur = body[0].targets[0].id
    loop, tail = body[1], body[2]
    if not (isinstance(loop, ast.While) and not loop.orelse and isinstance(tail, ast.Return) and tail.value is not None and loop.body):
        return None
    step = loop.body[-1]
    if not (isinstance(step, ast.Assign) and unparse(step.targets[0]) == cur and unparse(step.value) == f"{cur}.parent"):
        return None

    class _Sub(ast.NodeTransformer):
        def visit_Name(self, n: ast.Name) -> ast.AST:
            return ast.copy_location(ast.Name("self", ast.Load()), n) if n.id == cur else n

    import copy as _copy

    sub = lambda n: _Sub().visit(_copy.deepcopy(n))  # noqa: E731
    arms: list[ast.stmt] = []
    for st in loop.body[:-1]:
        if not (isinstance(st, ast.If) and not st.orelse and len(st.body) == 1):
            return None
        if isinstance(st.body[0], ast.Break):
            arms.append(ast.If(sub(st.test), [ast.Return(sub(tail.value))], []))
        elif isinstance(st.body[0], ast.Return):
            arms.append(ast.If(sub(st.test), [sub(st.body[0])], []))
        else:
            return None
    if any(isinstance(x, ast.Name) and x.id == cur and isinstance(x.ctx, ast.Store) for st in loop.body[:-1] for x in ast.walk(st)):
        return None
    deleg = ast.Return(ast.Call(ast.Attribute(ast.Attribute(ast.Name("self", ast.Load()), "parent", ast.Load()), name, ast.Load()), [ast.Name(sym, ast.Load())], []))
    new = _copy.copy(fn)
    new.body = [ast.If(sub(loop.test), arms + [deleg], []), ast.Return(sub(tail.value))]
    return ast.fix_missing_locations(new)


def r3_lookup_chain(ctx: Ctx) -> None:
    scope_truthiness(ctx)
    vf = ctx.repo.func(SYMBOLS, "Scope.value_for")
    sym = vf.params()[1]
    cont = ctx.repo.cls(SYMBOLS, "Scope").methods.get("__contains__")
    if cont is not None:
        rets = returns_of(cont.node)
        if len(rets) == 1 and rets[0].value is not None and len(cont.node.body) == 1:
            vf.node = ast.fix_missing_locations(_ContainsInliner(cont.params()[1], rets[0].value).visit(vf.node))
    if any(isinstance(n, (ast.While, ast.For)) for n in walk_no_nested(vf.node)):
        # a cursor walk: once the walk has moved on, `self` is no longer the scope being looked at
        cursors = {unparse(s_.targets[0]) for s_ in vf.node.body if isinstance(s_, ast.Assign) and unparse(s_.value) == "self" and isinstance(s_.targets[0], ast.Name)}
        for lp_ in [n for n in walk_no_nested(vf.node) if isinstance(n, ast.While)]:
            if cursors and any(isinstance(x, ast.Name) and x.id in cursors for x in ast.walk(lp_.test)):
                stale = [r_ for r_ in ast.walk(lp_) if isinstance(r_, ast.Return) and r_.value is not None and any(isinstance(x, ast.Name) and x.id == "self" for x in ast.walk(r_.value))]
                ctx.check(not stale, "Scope.value_for:reads-the-scope-it-found", "inside the walk the answer comes from the scope the cursor stands on; "
                          f"`{unparse(stale[0])[:50] if stale else ''}` reads the innermost scope again, where the name is not defined")
        rec = _chain_walk_as_recursion(vf.node, "value_for", sym)
        if rec is None:
            raise AnalysisError("Scope.value_for walks the scope chain with a loop that is not the plain cursor walk; the lookup facts cannot be read off")
        vf.node = rec
    # one-expression helper methods of Scope used in the tests (`self.defines(symbol)`) read as their expression
    for hm in ctx.repo.cls(SYMBOLS, "Scope").methods.values():
        hb = [b for b in hm.node.body if not (isinstance(b, ast.Expr) and isinstance(b.value, ast.Constant))]
        if hm.name not in ("value_for", "__getitem__", "__contains__", "get_table") and len(hb) == 1 and isinstance(hb[0], ast.Return) and hb[0].value is not None \
                and len(hm.params()) == 2 and any(isinstance(c, ast.Call) and call_name(c) == f"self.{hm.name}" for c in ast.walk(vf.node)):
            par_, expr_ = hm.params()[1], hb[0].value

            class _MI(ast.NodeTransformer):
                def visit_Call(self, node: ast.Call) -> ast.AST:
                    self.generic_visit(node)
                    if call_name(node) == f"self.{hm.name}" and len(node.args) == 1 and not node.keywords:  # noqa: B023
                        arg = node.args[0]

                        class _Sub(ast.NodeTransformer):
                            def visit_Name(self, n: ast.Name) -> ast.AST:
                                return copy.deepcopy(arg) if n.id == par_ else n  # noqa: B023

                        return _Sub().visit(copy.deepcopy(expr_))  # noqa: B023
                    return node

            vf.node = ast.fix_missing_locations(_MI().visit(vf.node))
    vff = return_facts(vf)
    deleg_v, own_v = f"self.parent.value_for({sym})", f"self[{sym}]"
    ctx.check({v for v, _c in vff} == {deleg_v, own_v}, "Scope.value_for:delegation", f"the only results are this scope's own entry and the parent's answer for the same name; found: {show(vff)}")
    atoms = ["self.parent", f"{sym} in self.symbols", f"{sym} in self.code_symbols"]
    try:
        from ..facts import value_table

        table = value_table(vf, atoms)  # one path per truth assignment: exact also when a return is reached through several branches
    except AnalysisError:
        table = possible_values(vff, atoms)
    ok_local = ok_root = True
    for (parent, in_sym, in_code), vals in table.items():
        want = {deleg_v} if (parent and not (in_sym or in_code)) else {own_v}
        if vals != want:
            if not parent:
                ok_root = False
            else:
                ok_local = False
    ctx.check(ok_local, "Scope.value_for:local-first", f"a name defined in this scope wins; only otherwise is the parent consulted (innermost definition); found: {show(vff)}")
    ctx.check(ok_root, "Scope.value_for:root", "the root scope answers from its own tables (and raises when absent)")
    gi = ctx.repo.func(SYMBOLS, "Scope.__getitem__")
    raises = [n for n in walk_no_nested(gi.node) if isinstance(n, ast.Raise)]
    ctx.check(len(raises) == 1 and "SymbolNotDefined" in unparse(raises[0]), "Scope.__getitem__:undefined", "an undefined name raises SymbolNotDefined")
    from ..match import canon as _canon8

    item = gi.params()[1]
    reads = []
    for r in returns_of(gi.node):
        v = r.value
        if isinstance(v, ast.Call) and call_name(v) == "cast" and len(v.args) == 2:
            v = v.args[1]
        t = _canon8(gi.node, v)
        m = re.fullmatch(r"(self\.\w+)\.get\(" + re.escape(item) + r"(?:, \w+)?\)", t)
        reads.append(f"{m.group(1)}[{item}]" if m else t)
    if not all(re.fullmatch(r"self\.\w+\[" + re.escape(item) + r"\]", t) for t in reads):
        raise AnalysisError(f"Scope.__getitem__: returns {reads}; not modelled")
    ctx.check(reads == [f"self.code_symbols[{item}]", f"self.symbols[{item}]"], "Scope.__getitem__:tables", f"reads this scope's own tables, blocks first; found {reads}")
    gt = ctx.repo.func(SYMBOLS, "Scope.get_table")
    ctx.check(get_table_own_first(gt), "Scope.get_table:own-first", f"a scope's own table wins, else the enclosing scope's; found: {show(return_facts(gt))}")
    # nobody else reads the tables for lookup
    allowed = {"Scope", "Resolver", "NamedScope", "InternalScope"}
    for fn in ctx.repo.all_functions():
        if fn.cls and fn.cls.name in allowed and fn.module.name == SYMBOLS:
            continue
        for n in walk_no_nested(fn.node):
            if isinstance(n, ast.Subscript) and isinstance(n.value, ast.Attribute) and n.value.attr in ("symbols", "code_symbols") and isinstance(n.ctx, ast.Load) \
                    and fn.module.name.startswith("a816"):
                ctx.fail(f"{fn.where}:{unparse(n)[:40]}", "a symbol table is read directly, bypassing the scope chain")
    ctx.count("lookup_facts", 7)


def _advances_and_enters(fn: ast.FunctionDef) -> bool:
    """straight-line evaluation over `c` = the cursor on entry: at the end the cursor is c + 1 and current_scope is self.scopes[c + 1]
    (locals holding the index, `+=` or `= ... + 1`, either order of a hoisted index are all the same computation)"""
    CUR = "self.last_used_scope"
    env: dict[str, int | None] = {CUR: 0}  # value - c
    entered: int | None = None
    seen_enter = False

    def ev(e: ast.AST) -> int | None:
        if isinstance(e, ast.Constant) and type(e.value) is int:
            return None  # absolute numbers are not offsets of c
        t = unparse(e)
        if t in env:
            return env[t]
        if isinstance(e, ast.BinOp) and isinstance(e.op, (ast.Add, ast.Sub)) and isinstance(e.right, ast.Constant) and type(e.right.value) is int:
            l = ev(e.left)
            return None if l is None else (l + e.right.value if isinstance(e.op, ast.Add) else l - e.right.value)
        if isinstance(e, ast.BinOp) and isinstance(e.op, ast.Add) and isinstance(e.left, ast.Constant) and type(e.left.value) is int:
            r = ev(e.right)
            return None if r is None else r + e.left.value
        return None

    for st in fn.body:
        if isinstance(st, ast.Expr) and isinstance(st.value, ast.Constant):
            continue
        if isinstance(st, ast.AugAssign) and unparse(st.target) in env and isinstance(st.op, ast.Add) and isinstance(st.value, ast.Constant) and type(st.value.value) is int:
            cur = env[unparse(st.target)]
            env[unparse(st.target)] = None if cur is None else cur + st.value.value
        elif isinstance(st, (ast.Assign, ast.AnnAssign)) and getattr(st, "value", None) is not None:
            tgt = unparse(st.targets[0] if isinstance(st, ast.Assign) else st.target)
            if tgt == "self.current_scope":
                v = st.value
                if not (isinstance(v, ast.Subscript) and unparse(v.value) == "self.scopes") or seen_enter:
                    return False
                entered, seen_enter = ev(v.slice), True
            elif tgt == CUR or (isinstance(st.targets[0] if isinstance(st, ast.Assign) else st.target, ast.Name)):
                env[tgt] = ev(st.value)
            else:
                return False
        else:
            return False
    return seen_enter and entered == 1 and env.get(CUR) == 1


def get_table_own_first(gt) -> bool:
    from ..facts import has_cond, value_table

    try:
        tb = value_table(gt, ["self.table is None", "self.parent"])
        return all((vals == {"self.table"}) if not none else (all(re.fullmatch(r"self\.parent\.get_table\([^()]*\)", v) for v in vals) if parent else vals == {"None"})
                   for (none, parent), vals in tb.items())
    except AnalysisError:
        pass
    f = return_facts(gt)
    own = [(v, c) for v, c in f if v == "self.table"]
    par = [(v, c) for v, c in f if re.fullmatch(r"self\.parent\.get_table\([^()]*\)", v)]
    none = [(v, c) for v, c in f if v == "None"]
    return (len(own) >= 1 and len(par) >= 1 and len(own) + len(par) + len(none) == len(f)
            and all(has_cond(c, "self.table is None", False) for _v, c in own)
            and all(has_cond(c, "self.table is None", True) and has_cond(c, "self.parent", True) for _v, c in par)
            and all(has_cond(c, "self.table is None", True) for _v, c in none))


def lex_identifier_qualified(ctx: Ctx) -> None:
    """`scope.member`: after the dot the member name is scanned with the same character set as the first segment (digits included)"""
    li = ctx.repo.func("a816.parse.scanner_states", "lex_identifier")
    from ..match import canon as _canon_li

    runs = [c for c in calls_in(li.node) if call_name(c) == "s.accept_run" and c.args]
    first_run = _canon_li(li.node, runs[0].args[0]) if runs else None
    dots = [s for s in walk_no_nested(li.node) if isinstance(s, ast.If) and unparse(s.test) in ("s.peek() == '.'", "s.accept('.')")]
    ok = False
    if len(dots) == 1:
        body = dots[0].body
        if unparse(dots[0].test) == "s.peek() == '.'" and len(body) == 2 and unparse(body[0]) == "s.next()":
            body = body[1:]
        ok = len(body) == 1 and isinstance(body[0], ast.Expr) and call_name(body[0].value) == "s.accept_run" \
            and _canon_li(li.node, body[0].value.args[0]) == first_run
    ctx.check(ok, "lex_identifier:qualified", "an identifier may carry one `.name` segment (scopename.name), scanned like the first segment")


def r4_export(ctx: Ctx) -> None:
    rs = ctx.repo.func(SYMBOLS, "Resolver.restore_scope")
    site = _export_site(rs)
    if site is None:
        ctx.fail("Resolver.restore_scope:export-condition", "no export of the scope's symbols into the enclosing scope")
    else:
        from ..cfg import CFG
        g = CFG(rs.node)
        conds = g.path_conditions(g.node_of(site), rs.node)
        ok = ("exports", True) in conds and ("isinstance(self.current_scope, NamedScope)", True) in conds
        ctx.check(ok, "Resolver.restore_scope:export-condition", f"exports happen for named scopes only, when requested; conditions at the export: {sorted(conds)}")
    good = _export_form(rs)
    ctx.check(good, "Resolver.restore_scope:export", "every symbol k of the scope becomes `name.k` with the same value in the enclosing scope")
    pf = assign_facts(rs, "self.current_scope")
    ok = pf == {("self.current_scope.parent", frozenset({("self.current_scope.parent is None", False)}))}
    from ..cfg import CFG as _CFG
    g2 = _CFG(rs.node)
    raises = [n for n in walk_no_nested(rs.node) if isinstance(n, ast.Raise)]
    ok_raise = len(raises) == 1 and ("self.current_scope.parent is None", True) in g2.path_conditions(g2.node_of(raises[0]), rs.node)
    ctx.check(ok and ok_raise, "Resolver.restore_scope:pop", f"leaves to the parent scope; leaving the root raises; found: {show(pf)}")
    lex_identifier_qualified(ctx)
    al = ctx.repo.func(SYMBOLS, "Scope.add_label")
    body = canonical_statements(al.node)
    p = al.params()
    ctx.check(body == [f"self.labels[{p[1]}] = {p[2]}.logical_value", f"self.add_symbol({p[1]}, {p[2]}.logical_value)"], "Scope.add_label", "a label is also a symbol with its logical address")
    ctx.count("export_facts", 5)


def _export_site(rs):
    """the statement that writes into the parent's symbols"""
    for n in walk_no_nested(rs.node):
        if isinstance(n, ast.AugAssign) and isinstance(n.value, ast.DictComp):
            return n
        if isinstance(n, ast.Expr) and isinstance(n.value, ast.Call) and isinstance(n.value.func, ast.Attribute) and n.value.func.attr == "update":
            return n
        if isinstance(n, ast.For) and canon(rs.node, n.iter).endswith(".symbols.items()"):
            return n
    return None


def _export_form(rs) -> bool:
    """parent.symbols receives f"{scope.name}.{k}" -> v for every (k, v) of scope.symbols, as `|=`/update of a dict comprehension or as a for loop"""
    fn = rs.node
    scope = "self.current_scope"
    def c(e: ast.AST) -> str:
        return canon(fn, e)
    for n in walk_no_nested(fn):
        comp = None
        if isinstance(n, ast.AugAssign) and isinstance(n.op, ast.BitOr) and isinstance(n.value, ast.DictComp):
            tgt, comp = c(n.target), n.value
        if isinstance(n, ast.Call) and isinstance(n.func, ast.Attribute) and n.func.attr == "update" and n.args and isinstance(n.args[0], ast.DictComp):
            tgt, comp = c(n.func.value), n.args[0]
        if comp is not None:
            gen = comp.generators[0]
            kv = [unparse(e) for e in gen.target.elts] if isinstance(gen.target, ast.Tuple) else []
            if (tgt == f"{scope}.parent.symbols" and c(gen.iter) == f"{scope}.symbols.items()" and len(kv) == 2 and not gen.ifs
                    and c(comp.key) == f"f'{{{scope}.name}}.{{{kv[0]}}}'" and unparse(comp.value) == kv[1]):
                return True
        if isinstance(n, ast.For) and c(n.iter) == f"{scope}.symbols.items()" and isinstance(n.target, ast.Tuple) and len(n.target.elts) == 2:
            kv = [unparse(e) for e in n.target.elts]
            for st in n.body:
                if isinstance(st, ast.Assign) and isinstance(st.targets[0], ast.Subscript) and c(st.targets[0].value) == f"{scope}.parent.symbols" \
                        and c(st.targets[0].slice) == f"f'{{{scope}.name}}.{{{kv[0]}}}'" and unparse(st.value) == kv[1] and len(n.body) == 1:
                    return True
    return False


def r5_who_may_write(ctx: Ctx) -> None:
    owners = {"a816.program:Program.resolver_reset", "a816.program:Program.resolve_labels"}
    tracked = ("current_scope", "scopes", "last_used_scope")
    for fn in ctx.repo.all_functions():
        if not fn.module.name.startswith("a816"):
            continue
        own = (fn.cls is not None and fn.cls.name == "Resolver") or fn.fq in owners
        writes = []
        for n in walk_no_nested(fn.node):
            tl = n.targets if isinstance(n, ast.Assign) else [n.target] if isinstance(n, (ast.AugAssign, ast.AnnAssign)) else []
            for t in tl:
                if isinstance(t, ast.Attribute) and t.attr in tracked and ("resolver" in unparse(t.value) or (unparse(t.value) == "self" and fn.cls and fn.cls.name == "Resolver")):
                    writes.append((n, t))
            if isinstance(n, ast.Call) and isinstance(n.func, ast.Attribute) and n.func.attr in ("append", "pop", "insert", "clear", "remove") and \
                    isinstance(n.func.value, ast.Attribute) and n.func.value.attr == "scopes":
                writes.append((n, n.func.value))
        for n, t in writes:
            ctx.count("cursor_writes")
            if own:
                ctx.ok(f"{fn.where}:{unparse(n)[:50]}", "owner")
                continue
            # non-owner: allowed only as a save/restore region (saved in a local first, restored in a finally)
            saved = [s for s in fn.node.body if isinstance(s, ast.Assign) and unparse(s.value).endswith(".current_scope") and isinstance(s.targets[0], ast.Name)]
            tries = [s for s in fn.node.body if isinstance(s, ast.Try) and s.finalbody]
            restored = bool(saved) and any(any(isinstance(f, ast.Assign) and unparse(f.targets[0]).endswith(".current_scope") and unparse(f.value) == unparse(saved[0].targets[0])
                                               for f in tr.finalbody) for tr in tries)
            before_try = bool(tries) and all(getattr(n, "lineno", 0) < tries[0].lineno or any(x is n for f in tries[0].finalbody for x in ast.walk(f)) for _ in [0])
            ctx.check(t.attr == "current_scope" and restored and before_try, f"{fn.where}:{unparse(n)[:50]}",
                      "the replay cursor is written outside the resolver; allowed only as save / switch / restore-in-finally of current_scope")
    ctx.floor("cursor_writes", 5)



def r6_macro_arguments_in_caller_scope(ctx: Ctx) -> None:
    """a name in a macro argument refers to the call site's innermost definition, not to a parameter of the macro (shared with C09.R1)"""
    from .c09 import r1_arguments_in_caller_scope

    r1_arguments_in_caller_scope(ctx)


def r7_symbol_values_stored_verbatim(ctx: Ctx) -> None:
    """`scopename.name with the same value`, and any definition: the table stores the value given (shared with C06.R6)"""
    from .c06 import symbol_values_stored_verbatim

    symbol_values_stored_verbatim(ctx)


def r8_names_lex_alike_everywhere(ctx: Ctx) -> None:
    """`consistently renaming a scope-local name does not change the output`: any name that is an identifier at statement level is one
    inside operands and expressions too (shared with C16.R5)"""
    from .c16 import identifier_start_sets

    identifier_start_sets(ctx)


def rb_binding_agreement(ctx: Ctx) -> None:
    from ..ownership import binding_agreement

    binding_agreement(ctx)


def rm_no_process_lifetime_results(ctx: Ctx) -> None:
    """memoising decorators, module-level stores and mutable defaults on this property's mechanism (shared rule, caches.py)"""
    from ..caches import state_rule

    state_rule(ctx)


def ru_names_bound(ctx: Ctx) -> None:
    """a local read but never bound raises NameError for every input that reaches the statement (shared rule, names.py)"""
    from ..names import names_rule

    names_rule(ctx)



def r9_conditionals_open_no_scope(ctx: Ctx) -> None:
    """`.if` selects statements of the enclosing scope: neither branch opens a scope of its own (C10.R1)"""
    from .c10 import r1_if

    r1_if(ctx)


def r10_spliced_blocks_and_scope_replay(ctx: Ctx) -> None:
    """a code-block parameter is found through the scope chain like any other name (C09.R3); the label pass and the emit pass start from the same scope state (C02.R3)"""
    from .c09 import r3_per_application_scope as _c09_r3_per_application_scope
    from .c02 import r3_traversal_agreement as _c02_r3_traversal_agreement

    _c09_r3_per_application_scope(ctx)
    _c02_r3_traversal_agreement(ctx)


RULES = [r1_generator_pairing, r2_replay_agreement, r3_lookup_chain, r4_export, r5_who_may_write, r6_macro_arguments_in_caller_scope, r7_symbol_values_stored_verbatim, r8_names_lex_alike_everywhere, r9_conditionals_open_no_scope, r10_spliced_blocks_and_scope_replay, rb_binding_agreement, rm_no_process_lifetime_results, ru_names_bound]
