"""a816lint: repository-specific static analysis for manz/a816 (stdlib only)."""
